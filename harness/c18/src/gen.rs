//! Input generators of the C18 harness: fixed boundary programs, seeded random straight-line
//! programs over all 17 operations and 6 value types, and ill-formed variants.
use ff::Field;
use group::{Group, GroupEncoding};
use midnight_curves::{Fr as JubjubFr, JubjubSubgroup};
use midnight_zkir::{Instruction, IrType, IrValue, Operation};
use mzkh::Ctx;
use num_bigint::{BigUint, RandBigInt};
use num_traits::{One, Zero};
use rand::{seq::SliceRandom, Rng};
use rand_chacha::ChaCha8Rng;

use crate::text::{f_from_big, fr_from_big, hex_bytes, parse_case_body, Case, F};

/// Hand-written boundary programs (regressions of repaired defects first).
pub const FIXED: &[&str] = &[
    // D7: IntoBytes on a small BigUint pads
    "load.big.16;;x into_bytes.40;x;b publish;b; | x=u:12c",
    // N2: Jubjub constants without any Load/FromBytes of a Jubjub type
    "publish;Jubjub:GENERATOR; |",
    "publish;JubjubScalar:FF,Jubjub:IDENTITY; |",
    "mul;JubjubScalar:02,Jubjub:GENERATOR;p add;p,Jubjub:GENERATOR;q affine;q;u,v publish;u,v,q; |",
    // N3: in-circuit-only type error with a Publish
    "load.scalar;;s assert_eq;s,s; publish;s; | s=s:5",
    "load.scalar;;s,t is_eq;s,t;b publish;b; | s=s:5 t=s:6",
    // N4/N5/N6: ModExp boundary exponents and moduli
    "load.big.8;;x,m mod_exp.3;x,m;r publish;r; | x=u:5 m=u:0",
    "load.big.8;;x,m mod_exp.1;x,m;r publish;r; | x=u:5 m=u:3",
    "load.big.8;;x,m mod_exp.0;x,m;r publish;r; | x=u:5 m=u:1",
    "load.big.8;;x,m mod_exp.0;x,m;r publish;r; | x=u:5 m=u:0",
    "load.big.8;;x,m mod_exp.1;x,m;r publish;r; | x=u:5 m=u:0",
    "load.big.8;;x,m mod_exp.5;x,m;r publish;r; | x=u:5 m=u:7",
    "load.big.200;;x,m mod_exp.65537;x,m;r publish;r; | x=u:123456789abcdef0123456789abcdef0123456789 m=u:fedcba9876543210fedcba9876543210fedcba987654321",
    // N7 (known): Jubjub scalars from >= 32 bytes
    "load.bytes.32;;b from_bytes.scalar;b;s publish;s; | b=y:ffffffffffffffffffffffffffffffffffffffffffffffffffffffffffffffff",
    "load.bytes.32;;b from_bytes.scalar;b;s publish;s; | b=y:0500000000000000000000000000000000000000000000000000000000000000",
    "load.bytes.32;;b from_bytes.scalar;b;s mul;s,Jubjub:GENERATOR;p publish;p; | b=y:ffffffffffffffffffffffffffffffffffffffffffffffffffffffffffffffff",
    "load.bytes.31;;b from_bytes.scalar;b;s publish;s; | b=y:ffffffffffffffffffffffffffffffffffffffffffffffffffffffffffffff",
    "load.bytes.4;;b from_bytes.scalar;b;s publish;s; | b=y:05000000",
    "from_bytes.scalar;%;x publish;x; |",
    "load.bytes.0;;v2 from_bytes.scalar;v2;v1 load.point;;v3 add;v3,v3;v4 publish;v3,v1,v4; load.native;;v6 mul;v6,v6;v5 publish;v4,v4,v5; publish;Native:-0x01; load.native;;v7 add;v7,v6;v8 | v2=y: v3=p:0/1 v6=n:1 v7=n:73eda753299d7d483339d80809a1d80553bda402fffe5bfeffffffff00000000",
    // N8/N9: zero-width values
    "load.big.0;;x publish;x; | x=u:0",
    "load.bytes.0;;b publish;b; | b=y:",
    "load.bytes.0;;b from_bytes.big.0;b;x publish;x; | b=y:",
    "from_bytes.big.8;%;x mul;x,x;z publish;z; |",
    "from_bytes.native;%;x publish;x; |",
    "publish;%; |",
    "load.bytes.0;;a,b is_eq;a,b;e sha256;a;h publish;e,h; | a=y: b=y:",
    // N10: IntoBytes on Native, range and length
    "load.native;;x into_bytes.1;x;b publish;b; | x=n:100",
    "load.native;;x into_bytes.33;x;b publish;b; | x=n:100",
    "load.native;;x into_bytes.32;x;b publish;b; | x=n:100",
    "load.native;;x into_bytes.32;x;b publish;b; | x=n:73eda753299d7d483339d80809a1d80553bda402fffe5bfeffffffff00000000",
    "load.native;;x into_bytes.0;x;b publish;b; | x=n:0",
    "load.native;;x into_bytes.0;x;b publish;b; | x=n:1",
    "load.native;;x into_bytes.31;x;b from_bytes.native;b;y assert_eq;x,y; | x=n:ffffffffffffffffffffffffffffffffffffffffffffffffffffffffffffff",
    // N11: Jubjub constant outside the prime-order subgroup, other malformed constants
    "publish;Jubjub:00000000fffffffffe5bfeff02a4bd5305d8a10908d83933487d9d2953a7ed73; |",
    "publish;Jubjub:0xcb550cd538ea0cc1138480408e6eaab9b36c613f0dd3f7784fdb6eea837b13d7; |",
    "publish;Native:73eda753299d7d483339d80809a1d80553bda402fffe5bfeffffffff00000001; |",
    "publish;Native:73eda753299d7d483339d80809a1d80553bda402fffe5bfeffffffff00000000,Native:-0x01,Native:,Native:-; |",
    "publish;JubjubScalar:0e7db4ea6533afa906673b0101343b00a6682093ccc81082d0970e5ed6f72cb7; |",
    "publish;JubjubScalar:0e7db4ea6533afa906673b0101343b00a6682093ccc81082d0970e5ed6f72cb6; |",
    "publish;a:b:c; |",
    "publish;0xABC; |",
    "publish;2; |",
    "publish;BigUint:; |",
    "publish;BigUint:0x0,BigUint:0,BigUint:ffffffffffffffffffffffff,BigUint:1000000000000000000000000; |",
    // shadowing of constants by variables
    "load.native;;1 publish;1; | 1=n:7",
    "load.bool;;Native:05 publish;Native:05,Native:06; | Native:05=b:1",
    // BigUint arithmetic shapes
    "load.big.96;;x,y add;x,y;z publish;z; | x=u:ffffffffffffffffffffffff y=u:ffffffffffffffffffffffff",
    "load.big.96;;x,y mul;x,y;z publish;z; | x=u:ffffffffffffffffffffffff y=u:ffffffffffffffffffffffff",
    "load.big.97;;x,y mul;x,y;z sub;z,x;t publish;z,t; | x=u:1ffffffffffffffffffffffff y=u:1ffffffffffffffffffffffff",
    "load.big.8;;x,y sub;x,y;z publish;z; | x=u:5 y=u:6",
    "load.big.8;;x,y sub;x,y;z publish;z; | x=u:6 y=u:6",
    "load.big.300;;x into_bytes.38;x;b from_bytes.big.304;b;y assert_eq;x,y; publish;y; | x=u:fffffffffffffffffffffffffffffffffffffffffffffffffffffffffffffffffffffffffff",
    "load.big.300;;x into_bytes.37;x;b publish;b; | x=u:fffffffffffffffffffffffffffffffffffffffffffffffffffffffffffffffffffffffffff",
    "load.big.16;;x publish;x; | x=u:10000",
    "load.big.16;;x publish;x; | x=u:ffff",
    // inner products
    "load.native;;a,b,c,d inner_product;a,b,c,d;r publish;r; | a=n:2 b=n:3 c=n:5 d=n:7",
    "load.big.64;;a,b,c,d inner_product;a,b,c,d;r publish;r; | a=u:2 b=u:3 c=u:5 d=u:ffffffffffffffff",
    "load.scalar;;s,t load.point;;p,q inner_product;s,t,p,q;r publish;r; | s=s:2 t=s:3 p=p:3ea5c4673a121ca35ed37ee3b172f5ee04315c657fbe375f512dfea318d56fe5/57137b83ea6edb4f78f7d30d3f616cb3b9aa6e8e40808413c10cea38d50c55cb q=p:0/1",
    "load.native;;a,b load.scalar;;s load.point;;p inner_product;a,s,b,p;r | a=n:2 b=n:3 s=s:5 p=p:0/1",
    "load.scalar;;s load.native;;a load.point;;p inner_product;s,a,p,p;r | a=n:2 s=s:5 p=p:0/1",
    // points
    "load.point;;p into_bytes.32;p;b from_bytes.point;b;q assert_eq;p,q; neg;p;m add;p,m;z publish;z,b; | p=p:3ea5c4673a121ca35ed37ee3b172f5ee04315c657fbe375f512dfea318d56fe5/57137b83ea6edb4f78f7d30d3f616cb3b9aa6e8e40808413c10cea38d50c55cb",
    "load.bytes.32;;b from_bytes.point;b;q publish;q; | b=y:0000000000000000000000000000000000000000000000000000000000000000",
    "load.bytes.32;;b from_bytes.point;b;q publish;q; | b=y:0100000000000000000000000000000000000000000000000000000000000080",
    "load.point;;p into_bytes.31;p;b | p=p:0/1",
    // comparisons across types / lengths
    "load.bytes.2;;a load.bytes.3;;b assert_ne;a,b; | a=y:0102 b=y:010203",
    "load.bool;;a load.native;;b is_eq;a,b;c publish;c; | a=b:1 b=n:1",
    // hashes
    "load.bytes.3;;a sha256;a;h sha512;a;g publish;h,g; | a=y:616263",
    "load.native;;a,b poseidon;a,b;h poseidon;h;g publish;h,g; | a=n:1 b=n:2",
    "load.bool;;a poseidon;a;h | a=b:1",
    "load.native;;a sha256;a;h | a=n:1",
    // witness problems
    "load.bool;;out | outt=b:1",
    "load.bool;;out | out=n:1",
    "load.bytes.2;;b | b=y:ff",
    // wrong arity / duplicate names
    "load.bool;; |",
    "publish;x;y |",
    "inner_product;a,b,c;r |",
    "load.bool;;out,out | out=b:1",
    "load.bool;;out load.bool;;out | out=b:1",
    "load.bool;;a load.native;;a | a=b:1",
];

pub fn fixed_cases() -> Vec<Case> {
    FIXED.iter().map(|s| parse_case_body(s).unwrap_or_else(|| panic!("bad fixed case {s}"))).collect()
}

/// Variable names that `constants.rs` also accepts as constant literals.
pub const LITERAL_NAMES: &[&str] = &["c0", "beef", "b0", "0", "1", "ff", "00", "0xab", "cafe01"];

#[derive(Clone, Copy, Debug, PartialEq)]
enum Ty {
    Bool,
    Bytes(usize),
    Native,
    Big,
    Point,
    Scalar,
}

struct G<'a> {
    rng: &'a mut ChaCha8Rng,
    vars: Vec<(String, Ty)>,
    prog: Vec<Instruction>,
    wit: Vec<(String, IrValue)>,
    next: usize,
    wide: bool,
    /// literal-like names still to be handed out by `fresh`
    lit: Vec<&'static str>,
}

fn q_big() -> BigUint {
    BigUint::parse_bytes(b"73eda753299d7d483339d80809a1d80553bda402fffe5bfeffffffff00000001", 16).unwrap()
}
fn r_big() -> BigUint {
    BigUint::parse_bytes(b"0e7db4ea6533afa906673b0101343b00a6682093ccc81082d0970e5ed6f72cb7", 16).unwrap()
}

impl<'a> G<'a> {
    fn fresh(&mut self) -> String {
        // names that are also well-formed constant literals (`constants.rs: TryFrom<&str>`:
        // "0"/"1" Booleans, even-length hex strings byte arrays): both interpreters must look
        // a name up in memory BEFORE trying to parse it as a constant (seeded change C18-3)
        if !self.lit.is_empty() && self.rng.gen_bool(0.5) {
            return self.lit.pop().unwrap().to_string();
        }
        self.next += 1;
        format!("v{}", self.next)
    }

    fn native_val(&mut self) -> F {
        match self.rng.gen_range(0..8) {
            0 => F::ZERO,
            1 => F::ONE,
            2 => -F::ONE,
            3 => F::from(self.rng.gen_range(0..300u64)),
            4 => {
                let k = self.rng.gen_range(1..32usize);
                f_from_big(&((BigUint::one() << (8 * k)) - BigUint::from(self.rng.gen_range(0..2u32))))
            }
            _ => F::random(&mut *self.rng),
        }
    }

    fn big_val(&mut self, w: u32) -> BigUint {
        if w == 0 {
            return BigUint::zero();
        }
        match self.rng.gen_range(0..7) {
            0 => BigUint::zero(),
            1 => BigUint::one(),
            2 => (BigUint::one() << w) - BigUint::one(),
            3 => BigUint::one() << (w - 1),
            4 => BigUint::from(self.rng.gen_range(0..1000u32)) % (BigUint::one() << w),
            _ => self.rng.gen_biguint(w as u64),
        }
    }

    fn bytes_val(&mut self, n: usize) -> Vec<u8> {
        match self.rng.gen_range(0..5) {
            0 => vec![0; n],
            1 => vec![0xff; n],
            _ => (0..n).map(|_| self.rng.gen()).collect(),
        }
    }

    fn point_val(&mut self) -> JubjubSubgroup {
        match self.rng.gen_range(0..5) {
            0 => JubjubSubgroup::identity(),
            1 => JubjubSubgroup::generator(),
            2 => -JubjubSubgroup::generator(),
            _ => JubjubSubgroup::generator() * JubjubFr::random(&mut *self.rng),
        }
    }

    fn scalar_val(&mut self) -> JubjubFr {
        match self.rng.gen_range(0..6) {
            0 => JubjubFr::ZERO,
            1 => JubjubFr::ONE,
            2 => -JubjubFr::ONE,
            3 => JubjubFr::from(self.rng.gen_range(0..100u64)),
            _ => JubjubFr::random(&mut *self.rng),
        }
    }

    fn bytes_len(&mut self) -> usize {
        let small = [0usize, 1, 2, 3, 4, 8, 11, 12, 13, 16, 24, 25, 31, 32];
        let wide = [33usize, 36, 37, 40, 48, 63, 64, 65, 70];
        if self.wide && self.rng.gen_bool(0.3) {
            *wide.choose(self.rng).unwrap()
        } else {
            *small.choose(self.rng).unwrap()
        }
    }

    fn big_width(&mut self) -> u32 {
        let small = [1u32, 7, 8, 16, 64, 95, 96, 97, 128];
        let wide = [191u32, 192, 193, 256, 300, 384, 512];
        if self.wide && self.rng.gen_bool(0.3) {
            *wide.choose(self.rng).unwrap()
        } else {
            *small.choose(self.rng).unwrap()
        }
    }

    fn load(&mut self, t: IrType, n: usize) -> Vec<String> {
        let names: Vec<String> = (0..n).map(|_| self.fresh()).collect();
        let twin = n >= 2 && self.rng.gen_bool(0.35);
        let mut first: Option<IrValue> = None;
        for name in &names {
            let v: IrValue = match t {
                IrType::Bool => self.rng.gen::<bool>().into(),
                IrType::Bytes(k) => self.bytes_val(k).into(),
                IrType::Native => self.native_val().into(),
                IrType::BigUint(w) => self.big_val(w).into(),
                IrType::JubjubPoint => self.point_val().into(),
                IrType::JubjubScalar => self.scalar_val().into(),
            };
            let v = match (&first, twin) {
                (Some(f), true) => f.clone(),
                _ => v,
            };
            if first.is_none() {
                first = Some(v.clone());
            }
            self.wit.push((name.clone(), v));
            let ty = match t {
                IrType::Bool => Ty::Bool,
                IrType::Bytes(k) => Ty::Bytes(k),
                IrType::Native => Ty::Native,
                IrType::BigUint(_) => Ty::Big,
                IrType::JubjubPoint => Ty::Point,
                IrType::JubjubScalar => Ty::Scalar,
            };
            self.vars.push((name.clone(), ty));
        }
        self.prog.push(Instruction { operation: Operation::Load(t), inputs: vec![], outputs: names.clone() });
        names
    }

    fn constant(&mut self, ty: Ty) -> Option<String> {
        let r = self.rng.gen_range(0..4);
        Some(match ty {
            Ty::Bool => ["0", "1"][r % 2].to_string(),
            Ty::Bytes(n) => {
                let b = self.bytes_val(n);
                if n == 1 {
                    return None; // a single character is parsed as a Bool
                }
                format!("{}{}", if r % 2 == 0 { "0x" } else { "" }, hex_bytes(&b))
            }
            Ty::Native => ["Native:05", "Native:-0x01", "Native:", "Native:0100000000000000000000000000000000"][r].to_string(),
            Ty::Big => ["BigUint:0x1234", "BigUint:0", "BigUint:ffffffffffffffffffffffffffffffff", "BigUint:1"][r].to_string(),
            Ty::Point => ["Jubjub:GENERATOR", "Jubjub:IDENTITY", "Jubjub:GENERATOR", "Jubjub:0xcb550cd538ea0cc1138480408e6eaab9b36c613f0dd3f7784fdb6eea837b13d7"][r].to_string(),
            Ty::Scalar => ["JubjubScalar:FF", "JubjubScalar:00", "JubjubScalar:", "JubjubScalar:0e7db4ea6533afa906673b0101343b00a6682093ccc81082d0970e5ed6f72cb6"][r].to_string(),
        })
    }

    /// A value name of the wanted kind: an existing variable (recent ones preferred), a
    /// constant, or a freshly loaded variable.
    fn pick(&mut self, want: impl Fn(Ty) -> bool, default: IrType) -> String {
        let cands: Vec<(String, Ty)> = self.vars.iter().filter(|(_, t)| want(*t)).cloned().collect();
        let dty = match default {
            IrType::Bool => Ty::Bool,
            IrType::Bytes(k) => Ty::Bytes(k),
            IrType::Native => Ty::Native,
            IrType::BigUint(_) => Ty::Big,
            IrType::JubjubPoint => Ty::Point,
            IrType::JubjubScalar => Ty::Scalar,
        };
        if self.rng.gen_bool(0.12) {
            if let Some(c) = self.constant(dty) {
                return c;
            }
        }
        if cands.is_empty() || self.rng.gen_bool(0.1) {
            return self.load(default, 1)[0].clone();
        }
        // prefer recent
        let n = cands.len();
        let i = if self.rng.gen_bool(0.6) { n - 1 - self.rng.gen_range(0..n.min(3)) } else { self.rng.gen_range(0..n) };
        cands[i].0.clone()
    }

    fn emit(&mut self, op: Operation, ins: Vec<String>, outs: Vec<(String, Ty)>) {
        self.prog.push(Instruction {
            operation: op,
            inputs: ins,
            outputs: outs.iter().map(|(n, _)| n.clone()).collect(),
        });
        self.vars.extend(outs);
    }

    fn arith_kind(&mut self) -> (Ty, IrType) {
        match self.rng.gen_range(0..3) {
            0 => (Ty::Native, IrType::Native),
            1 => {
                let w = self.big_width();
                (Ty::Big, IrType::BigUint(w))
            }
            _ => (Ty::Point, IrType::JubjubPoint),
        }
    }

    fn step(&mut self) {
        use Operation::*;
        let choice = self.rng.gen_range(0..100);
        match choice {
            0..=9 => {
                let t = match self.rng.gen_range(0..6) {
                    0 => IrType::Bool,
                    1 => IrType::Bytes(self.bytes_len()),
                    2 => IrType::Native,
                    3 => IrType::BigUint(self.big_width()),
                    4 => IrType::JubjubPoint,
                    _ => IrType::JubjubScalar,
                };
                let n = self.rng.gen_range(1..=3);
                self.load(t, n);
            }
            10..=21 => {
                let n = self.rng.gen_range(1..=3);
                let ins: Vec<String> = (0..n).map(|_| self.pick(|_| true, IrType::Native)).collect();
                self.emit(Publish, ins, vec![]);
            }
            22..=33 => {
                // comparisons: mostly between values of one type
                let (ty, d) = match self.rng.gen_range(0..5) {
                    0 => (Ty::Bool, IrType::Bool),
                    1 => {
                        let k = self.bytes_len();
                        (Ty::Bytes(k), IrType::Bytes(k))
                    }
                    2 => (Ty::Native, IrType::Native),
                    3 => (Ty::Big, IrType::BigUint(self.big_width())),
                    _ => (Ty::Point, IrType::JubjubPoint),
                };
                let same = move |t: Ty| match (t, ty) {
                    (Ty::Bytes(_), Ty::Bytes(_)) => true,
                    (a, b) => a == b,
                };
                let a = self.pick(same, d);
                let b = if self.rng.gen_bool(0.3) { a.clone() } else { self.pick(same, d) };
                let op = [AssertEqual, AssertNotEqual, IsEqual, IsEqual][self.rng.gen_range(0..4)];
                let outs = if op == IsEqual { vec![(self.fresh(), Ty::Bool)] } else { vec![] };
                self.emit(op, vec![a, b], outs);
            }
            34..=48 => {
                let (ty, d) = self.arith_kind();
                let a = self.pick(move |t| t == ty, d);
                let b = self.pick(move |t| t == ty, d);
                let op = [Add, Sub, Add][self.rng.gen_range(0..3)];
                let o = self.fresh();
                self.emit(op, vec![a, b], vec![(o, ty)]);
            }
            49..=56 => {
                let o = self.fresh();
                match self.rng.gen_range(0..3) {
                    0 => {
                        let a = self.pick(|t| t == Ty::Native, IrType::Native);
                        let b = self.pick(|t| t == Ty::Native, IrType::Native);
                        self.emit(Mul, vec![a, b], vec![(o, Ty::Native)]);
                    }
                    1 => {
                        let w = self.big_width();
                        let a = self.pick(|t| t == Ty::Big, IrType::BigUint(w));
                        let b = self.pick(|t| t == Ty::Big, IrType::BigUint(w));
                        self.emit(Mul, vec![a, b], vec![(o, Ty::Big)]);
                    }
                    _ => {
                        let s = self.pick(|t| t == Ty::Scalar, IrType::JubjubScalar);
                        let p = self.pick(|t| t == Ty::Point, IrType::JubjubPoint);
                        self.emit(Mul, vec![s, p], vec![(o, Ty::Point)]);
                    }
                }
            }
            57..=60 => {
                let (ty, d) = if self.rng.gen_bool(0.5) { (Ty::Native, IrType::Native) } else { (Ty::Point, IrType::JubjubPoint) };
                let a = self.pick(move |t| t == ty, d);
                let o = self.fresh();
                self.emit(Neg, vec![a], vec![(o, ty)]);
            }
            61..=64 => {
                let w = self.big_width();
                let a = self.pick(|t| t == Ty::Big, IrType::BigUint(w));
                let m = self.pick(|t| t == Ty::Big, IrType::BigUint(w));
                let n = [0u64, 1, 2, 3, 5, 16, 17][self.rng.gen_range(0..7)];
                let o = self.fresh();
                self.emit(ModExp(n), vec![a, m], vec![(o, Ty::Big)]);
            }
            65..=69 => {
                let k = self.rng.gen_range(1..=3);
                let o = self.fresh();
                match self.rng.gen_range(0..3) {
                    0 => {
                        let v: Vec<String> = (0..2 * k).map(|_| self.pick(|t| t == Ty::Native, IrType::Native)).collect();
                        self.emit(InnerProduct, v, vec![(o, Ty::Native)]);
                    }
                    1 => {
                        let w = self.big_width();
                        let v: Vec<String> = (0..2 * k).map(|_| self.pick(|t| t == Ty::Big, IrType::BigUint(w))).collect();
                        self.emit(InnerProduct, v, vec![(o, Ty::Big)]);
                    }
                    _ => {
                        let mut v: Vec<String> = (0..k).map(|_| self.pick(|t| t == Ty::Scalar, IrType::JubjubScalar)).collect();
                        v.extend((0..k).map(|_| self.pick(|t| t == Ty::Point, IrType::JubjubPoint)));
                        self.emit(InnerProduct, v, vec![(o, Ty::Point)]);
                    }
                }
            }
            70..=72 => {
                let p = self.pick(|t| t == Ty::Point, IrType::JubjubPoint);
                let (a, b) = (self.fresh(), self.fresh());
                self.emit(AffineCoordinates, vec![p], vec![(a, Ty::Native), (b, Ty::Native)]);
            }
            73..=82 => {
                let o = self.fresh();
                match self.rng.gen_range(0..3) {
                    0 => {
                        let a = self.pick(|t| t == Ty::Native, IrType::Native);
                        let n = if self.rng.gen_bool(0.95) { self.rng.gen_range(0..=32) } else { [33usize, 40][self.rng.gen_range(0..2)] };
                        self.emit(IntoBytes(n), vec![a], vec![(o, Ty::Bytes(n))]);
                    }
                    1 => {
                        let w = self.big_width();
                        let a = self.pick(|t| t == Ty::Big, IrType::BigUint(w));
                        let n = if self.rng.gen_bool(0.5) { (w as usize).div_ceil(8) + self.rng.gen_range(0..3) } else { self.bytes_len() };
                        self.emit(IntoBytes(n), vec![a], vec![(o, Ty::Bytes(n))]);
                    }
                    _ => {
                        let p = self.pick(|t| t == Ty::Point, IrType::JubjubPoint);
                        let n = if self.rng.gen_bool(0.96) { 32 } else { 31 };
                        self.emit(IntoBytes(n), vec![p], vec![(o, Ty::Bytes(n))]);
                    }
                }
            }
            83..=92 => {
                let o = self.fresh();
                let k = self.bytes_len();
                let cands: Vec<(String, usize)> = self
                    .vars
                    .iter()
                    .filter_map(|(n, t)| if let Ty::Bytes(l) = t { Some((n.clone(), *l)) } else { None })
                    .collect();
                let (b, len) = if !cands.is_empty() && self.rng.gen_bool(0.7) {
                    cands[self.rng.gen_range(0..cands.len())].clone()
                } else {
                    (self.load(IrType::Bytes(k), 1)[0].clone(), k)
                };
                let which = if self.rng.gen_bool(0.04) { 4 } else { self.rng.gen_range(0..4) };
                match which {
                    0 => self.emit(FromBytes(IrType::Native), vec![b], vec![(o, Ty::Native)]),
                    1 => {
                        let w = (8 * len) as u32 + [0u32, 0, 1, 8, 100][self.rng.gen_range(0..5)];
                        let w = if self.rng.gen_bool(0.05) { w.saturating_sub(1) } else { w };
                        self.emit(FromBytes(IrType::BigUint(w)), vec![b], vec![(o, Ty::Big)]);
                    }
                    2 => {
                        // a valid encoding most of the time
                        let b = if self.rng.gen_bool(0.8) {
                            let name = self.fresh();
                            let p = self.point_val();
                            self.wit.push((name.clone(), p.to_bytes().to_vec().into()));
                            self.vars.push((name.clone(), Ty::Bytes(32)));
                            self.prog.push(Instruction { operation: Load(IrType::Bytes(32)), inputs: vec![], outputs: vec![name.clone()] });
                            name
                        } else {
                            b
                        };
                        self.emit(FromBytes(IrType::JubjubPoint), vec![b], vec![(o, Ty::Point)]);
                    }
                    3 => {
                        // keep clear of the known N7 class (>= 32 bytes) most of the time
                        let short = self.rng.gen_range(1..32usize);
                        let b = if (len >= 32 || len == 0) && !self.wide { self.load(IrType::Bytes(short), 1)[0].clone() } else { b };
                        self.emit(FromBytes(IrType::JubjubScalar), vec![b], vec![(o, Ty::Scalar)]);
                    }
                    _ => {
                        let t = [IrType::Bool, IrType::Bytes(len)][self.rng.gen_range(0..2)];
                        self.emit(FromBytes(t), vec![b], vec![(o, Ty::Bool)]);
                    }
                }
            }
            93..=95 => {
                let n = self.rng.gen_range(1..=3);
                let ins: Vec<String> = (0..n).map(|_| self.pick(|t| t == Ty::Native, IrType::Native)).collect();
                let o = self.fresh();
                self.emit(Poseidon, ins, vec![(o, Ty::Native)]);
            }
            _ => {
                let k = self.bytes_len();
                let b = self.pick(|t| matches!(t, Ty::Bytes(_)), IrType::Bytes(k));
                let o = self.fresh();
                if self.rng.gen_bool(0.5) {
                    self.emit(Sha256, vec![b], vec![(o, Ty::Bytes(32))]);
                } else {
                    self.emit(Sha512, vec![b], vec![(o, Ty::Bytes(64))]);
                }
            }
        }
    }
}

/// A random straight-line program of roughly `len` instructions with its witness.
pub fn random_case(rng: &mut ChaCha8Rng, len: usize, wide: bool) -> Case {
    // a fixed share of the programs (lengths 1, 5, 9, ... = 7 of every 25) binds variables
    // whose names are valid literals, on the Load side and on the output side of operations
    let mut lit: Vec<&'static str> = if len % 4 == 1 { LITERAL_NAMES.to_vec() } else { vec![] };
    lit.shuffle(rng);
    let mut g = G { rng, vars: vec![], prog: vec![], wit: vec![], next: 0, wide, lit };
    while g.prog.len() < len {
        g.step();
    }
    Case { prog: g.prog, wit: g.wit }
}

/// One deliberate defect: ill-typed input, wrong arity, duplicate / missing name, malformed
/// constant, missing / ill-typed / out-of-range witness.
pub fn mutate(rng: &mut ChaCha8Rng, c: &Case) -> (Case, &'static str) {
    let mut c = c.clone();
    let n = c.prog.len();
    let k = rng.gen_range(0..n);
    let all_names: Vec<String> = c.prog.iter().flat_map(|i| i.outputs.clone()).collect();
    let kind = rng.gen_range(0..9);
    let tag = match kind {
        0 => {
            c.prog[k].inputs.push("extra".into());
            "arity+in"
        }
        1 => {
            if c.prog[k].inputs.pop().is_none() {
                c.prog[k].outputs.pop();
            }
            "arity-"
        }
        2 => {
            c.prog[k].outputs.push("extra_out".into());
            "arity+out"
        }
        3 => {
            // duplicate output name
            if let (Some(o), Some(e)) = (c.prog[k].outputs.first().cloned(), all_names.first().cloned()) {
                if o != e {
                    c.prog[k].outputs[0] = e;
                } else if let Some(l) = all_names.last() {
                    c.prog[k].outputs[0] = l.clone();
                }
            }
            "dup"
        }
        4 => {
            if let Some(i) = c.prog[k].inputs.first_mut() {
                *i = "zz9".into();
            }
            "missing"
        }
        5 => {
            // some other variable (likely of another type)
            if !all_names.is_empty() {
                let other = all_names[rng.gen_range(0..all_names.len())].clone();
                if let Some(i) = c.prog[k].inputs.last_mut() {
                    *i = other;
                }
            }
            "retarget"
        }
        6 => {
            let bad = ["Native:zz", "a:b:c", "0xABC", "Jubjub:1234", "2", "BigUint:", "Foo:12",
                "Jubjub:00000000fffffffffe5bfeff02a4bd5305d8a10908d83933487d9d2953a7ed73",
                "JubjubScalar:0e7db4ea6533afa906673b0101343b00a6682093ccc81082d0970e5ed6f72cb7",
                "Native:73eda753299d7d483339d80809a1d80553bda402fffe5bfeffffffff00000001",
                "Native:000000000000000000000000000000000000000000000000000000000000000001"];
            if let Some(i) = c.prog[k].inputs.first_mut() {
                *i = bad[rng.gen_range(0..bad.len())].into();
            }
            "bad-const"
        }
        7 => {
            if !c.wit.is_empty() {
                let j = rng.gen_range(0..c.wit.len());
                c.wit.remove(j);
            }
            "wit-missing"
        }
        _ => {
            if !c.wit.is_empty() {
                let j = rng.gen_range(0..c.wit.len());
                c.wit[j].1 = match &c.wit[j].1 {
                    IrValue::Bool(_) => IrValue::Native(F::ONE),
                    IrValue::Bytes(b) => IrValue::Bytes([b.clone(), vec![7]].concat()),
                    IrValue::Native(_) => IrValue::Bool(true),
                    IrValue::BigUint(_) => IrValue::BigUint(BigUint::one() << 600),
                    IrValue::JubjubPoint(_) => IrValue::JubjubScalar(JubjubFr::ONE),
                    IrValue::JubjubScalar(_) => IrValue::BigUint(BigUint::one()),
                };
            }
            "wit-type"
        }
    };
    (c, tag)
}

/// Little-endian bytes of `x`, exactly `n` of them (`x < 256^n`).
fn le_bytes(x: &BigUint, n: usize) -> Vec<u8> {
    let mut b = x.to_bytes_le();
    assert!(b.len() <= n || b.iter().skip(n).all(|z| *z == 0));
    b.resize(n, 0);
    b
}

/// Dishonest-witness candidates for every comparison-like operation (AssertEqual,
/// AssertNotEqual, IsEqual + Publish) on every comparable type: pairs of DIFFERENT values that a
/// comparison through a lossy encoding would identify - byte strings / integers congruent modulo
/// the native modulus p, modulo 2^248, 2^256, the BigUint limb base 2^96, first/last byte only -
/// next to equal pairs. `run_case` requires: the circuit is satisfied with the off-circuit public
/// inputs, is NOT satisfied with the published Boolean flipped, and is unsatisfiable when the
/// off-circuit assertion fails.
pub fn wrap_cases(rng: &mut ChaCha8Rng, rounds: usize) -> Vec<Case> {
    let p = q_big();
    let one = BigUint::one();
    let mut pairs_bytes: Vec<(usize, BigUint, BigUint)> = vec![];
    for &n in &[1usize, 2, 31, 32, 33, 64] {
        let cap = BigUint::one() << (8 * n);
        let mut cands: Vec<(BigUint, BigUint)> = vec![
            (BigUint::zero(), BigUint::zero()),
            (&cap - &one, &cap - &one),
            (BigUint::zero(), BigUint::one()),
            (BigUint::zero(), BigUint::one() << (8 * n - 1)),
            (BigUint::zero(), BigUint::one() << (8 * (n - 1))),
            (&cap - &one, &cap - 2u32),
        ];
        if n >= 2 {
            // same first byte, same last byte, same low half
            cands.push((BigUint::from(0x0100u32), BigUint::zero()));
            cands.push((BigUint::one() << (8 * (n / 2)), BigUint::zero()));
        }
        if n >= 32 {
            cands.push((BigUint::zero(), p.clone()));
            cands.push((&p - &one, (&p * 2u32 - &one) % &cap));
            cands.push((BigUint::one(), &p + &one));
            cands.push((BigUint::zero(), BigUint::one() << 248));
            cands.push((BigUint::zero(), BigUint::one() << 255));
            for _ in 0..rounds {
                let room = (&cap - &one) / &p; // multiples of p that fit
                let x = rng.gen_biguint_below(&p);
                let k = if room <= one.clone() { one.clone() } else { rng.gen_biguint_below(&room) + &one };
                let y = &x + &p * &k;
                if y < cap {
                    cands.push((x, y));
                }
            }
        }
        if n >= 33 {
            cands.push((BigUint::zero(), BigUint::one() << 256));
            cands.push((BigUint::zero(), &p << 8));
        }
        if n == 31 {
            cands.push((BigUint::zero(), (&p % (BigUint::one() << 248))));
        }
        for _ in 0..rounds {
            let x = rng.gen_biguint(8 * n as u64);
            let mut y = x.clone();
            y.set_bit(rng.gen_range(0..8 * n as u64), !x.bit(0) || true);
            let j = rng.gen_range(0..8 * n as u64);
            y.set_bit(j, !x.bit(j));
            cands.push((x.clone(), y));
            cands.push((x.clone(), x));
        }
        for (a, b) in cands {
            pairs_bytes.push((n, a, b));
        }
    }
    let mut out: Vec<String> = vec![];
    let ops = |t: &str, a: &str, b: &str, out: &mut Vec<String>| {
        out.push(format!("load.{t};;v,w is_eq;v,w;b publish;b; | v={a} w={b}"));
        out.push(format!("load.{t};;v,w assert_ne;v,w; | v={a} w={b}"));
        out.push(format!("load.{t};;v,w assert_eq;v,w; | v={a} w={b}"));
        out.push(format!("load.{t};;v,w is_eq;w,v;b is_eq;v,v;c assert_ne;b,c; publish;c,b; | v={a} w={b}"));
    };
    for (n, a, b) in &pairs_bytes {
        let (ha, hb) = (hex_bytes(&le_bytes(a, *n)), hex_bytes(&le_bytes(b, *n)));
        ops(&format!("bytes.{n}"), &format!("y:{ha}"), &format!("y:{hb}"), &mut out);
    }
    // BigUint: congruent modulo p, modulo the limb base, modulo 2^(96*limbs)
    for &wd in &[8u32, 96, 97, 192, 256, 300, 400] {
        let cap = BigUint::one() << wd;
        let mut cands: Vec<(BigUint, BigUint)> = vec![(BigUint::zero(), BigUint::zero()), (&cap - &one, &cap - &one), (BigUint::zero(), &cap - &one), (BigUint::zero(), BigUint::one() << (wd - 1))];
        for sh in [96u32, 192, 255, 288] {
            if sh < wd {
                cands.push((BigUint::zero(), BigUint::one() << sh));
                cands.push((BigUint::one(), (BigUint::one() << sh) + &one));
            }
        }
        if wd >= 256 {
            cands.push((BigUint::zero(), p.clone()));
            cands.push((&p - &one, &p * 2u32 - &one));
            cands.push((BigUint::from(5u32), &p * 3u32 + 5u32).clone());
        }
        if wd >= 400 {
            cands.push((BigUint::zero(), &p << 96));
        }
        for (a, b) in cands {
            if a < cap && b < cap {
                ops(&format!("big.{wd}"), &format!("u:{}", a.to_str_radix(16)), &format!("u:{}", b.to_str_radix(16)), &mut out);
            }
        }
    }
    // Native (values are canonical off-circuit: only the extremes), Bool, points
    for (a, b) in [("0", "0"), ("0", "1"), ("0", "73eda753299d7d483339d80809a1d80553bda402fffe5bfeffffffff00000000"), ("73eda753299d7d483339d80809a1d80553bda402fffe5bfeffffffff00000000", "73eda753299d7d483339d80809a1d80553bda402fffe5bfeffffffff00000000"), ("1", "100000000000000000000000000000000")] {
        ops("native", &format!("n:{a}"), &format!("n:{b}"), &mut out);
    }
    for (a, b) in [("0", "0"), ("0", "1"), ("1", "0"), ("1", "1")] {
        ops("bool", &format!("b:{a}"), &format!("b:{b}"), &mut out);
    }
    let g = "p:3ea5c4673a121ca35ed37ee3b172f5ee04315c657fbe375f512dfea318d56fe5/57137b83ea6edb4f78f7d30d3f616cb3b9aa6e8e40808413c10cea38d50c55cb";
    for (a, b) in [("p:0/1", "p:0/1"), ("p:0/1", g), (g, g)] {
        ops("point", a, b, &mut out);
    }
    // -G has the same v coordinate as G
    out.push(format!("load.point;;v neg;v;w is_eq;v,w;b publish;b; | v={g}"));
    out.push(format!("load.point;;v neg;v;w assert_ne;v,w; | v={g}"));
    out.push(format!("load.point;;v neg;v;w assert_eq;v,w; | v={g}"));
    // conversions on byte strings that are not canonical encodings (p, p +- 1, 2^255 +- .., all
    // ones): FromBytes to Native reduces, to a point must reject, to a BigUint keeps the integer;
    // converting back must give the canonical bytes (assertion fails when they differ)
    let two = |k: u32| BigUint::one() << k;
    for x in [p.clone(), &p + &one, &p - &one, two(255) - &one, two(256) - &one, two(255), &p + &one + two(255)] {
        let h = hex_bytes(&le_bytes(&x, 32));
        out.push(format!("load.bytes.32;;b from_bytes.native;b;x publish;x; | b=y:{h}"));
        out.push(format!("load.bytes.32;;b from_bytes.point;b;x publish;x; | b=y:{h}"));
        out.push(format!("load.bytes.32;;b from_bytes.big.256;b;x publish;x; | b=y:{h}"));
        out.push(format!("load.bytes.32;;b from_bytes.native;b;x into_bytes.32;x;c assert_eq;b,c; | b=y:{h}"));
        out.push(format!("load.bytes.32;;b from_bytes.native;b;x into_bytes.32;x;c is_eq;b,c;e publish;e; | b=y:{h}"));
    }
    for x in [p.clone(), two(256), two(264) - &one] {
        let h = hex_bytes(&le_bytes(&x, 33));
        out.push(format!("load.bytes.33;;b from_bytes.native;b;x publish;x; | b=y:{h}"));
        out.push(format!("load.bytes.33;;b from_bytes.big.264;b;x into_bytes.33;x;c assert_eq;b,c; publish;x; | b=y:{h}"));
    }
    out.iter().map(|s| parse_case_body(s).unwrap_or_else(|| panic!("bad wrap case {s}"))).collect()
}

pub fn generated(ctx: &mut Ctx) {
    {
        let mut rng = ctx.rng("c18-wrap-pairs");
        let rounds = if ctx.quick() { 2 } else if ctx.thorough() { 12 } else { 6 };
        let cases = wrap_cases(&mut rng, rounds);
        crate::run_batch(ctx, "compare-wrap", cases, true);
    }
    let (n_valid, n_mut, n_nomock) = if ctx.quick() {
        (1200, 500, 3000)
    } else if ctx.thorough() {
        (15000, 6000, 40000)
    } else {
        (3000, 1500, 8000)
    };
    let wide = !ctx.quick();
    let mut rng = ctx.rng("c18-programs");
    let mut cases = vec![];
    let mut lens = vec![];
    for i in 0..n_valid {
        let len = 1 + (i % 25);
        lens.push(len);
        cases.push(random_case(&mut rng, len, wide && i % 3 == 0));
    }
    for l in &lens {
        ctx.count(&format!("len:{:02}", (l / 5) * 5));
    }
    crate::run_batch(ctx, "random", cases.clone(), true);

    let mut rng = ctx.rng("c18-mutants");
    let mut muts = vec![];
    for i in 0..n_mut {
        let base = &cases[i % cases.len()];
        let (m, tag) = mutate(&mut rng, base);
        ctx.count(&format!("mutant:{tag}"));
        muts.push(m);
    }
    crate::run_batch(ctx, "mutant", muts, true);

    // a wider stream without the (expensive) mock checker: loader, both interpreters'
    // verdicts, shapes, public-input encoding, serialisation
    let mut rng = ctx.rng("c18-nomock");
    let mut more = vec![];
    for i in 0..n_nomock {
        let len = 1 + (i % 25);
        let c = random_case(&mut rng, len, i % 2 == 0);
        if i % 3 == 0 {
            more.push(mutate(&mut rng, &c).0);
        } else {
            more.push(c);
        }
    }
    crate::run_batch(ctx, "random-nomock", more, false);
    let _ = (q_big(), r_big(), fr_from_big(&BigUint::one()));
}
