//! Input generators of the C18 harness: fixed boundary programs and seeded random programs.
use mzkh::Ctx;

use crate::text::{parse_case_body, Case};

pub const FIXED: &[&str] = &[
    // D7 regression: IntoBytes on a small BigUint pads
    "load.big.16;;x into_bytes.40;x;b publish;b; | x=u:12c",
];

pub fn fixed_cases() -> Vec<Case> {
    FIXED.iter().map(|s| parse_case_body(s).unwrap_or_else(|| panic!("bad fixed case {s}"))).collect()
}

pub fn generated(_ctx: &mut Ctx) {}
