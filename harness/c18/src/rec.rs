//! `Rec`: an `Assignment` backend that logs the NAME of every region a synthesis opens (and
//! nothing else). `Assignment` is a public trait and `FloorPlanner::synthesize` accepts any
//! implementation, so no hook is needed. Used to observe HOW an in-circuit operation is
//! carried out (which gadget regions it lays out, how many times), not only its result.
use midnight_curves::Fq as F;
use midnight_proofs::{
    circuit::Value,
    plonk::{
        Advice, Any, Assignment, Challenge, Circuit, Column, ConstraintSystem, Error, Fixed, FloorPlanner,
        Instance, Selector,
    },
    utils::rational::Rational,
};

#[derive(Default)]
pub struct Rec {
    pub regions: Vec<String>,
}

impl Assignment<F> for Rec {
    fn enter_region<NR, N>(&mut self, name_fn: N)
    where
        NR: Into<String>,
        N: FnOnce() -> NR,
    {
        self.regions.push(name_fn().into());
    }
    fn annotate_column<A, AR>(&mut self, _: A, _: Column<Any>)
    where
        A: FnOnce() -> AR,
        AR: Into<String>,
    {
    }
    fn exit_region(&mut self) {}
    fn enable_selector<A, AR>(&mut self, _: A, _: &Selector, _: usize) -> Result<(), Error>
    where
        A: FnOnce() -> AR,
        AR: Into<String>,
    {
        Ok(())
    }
    fn query_instance(&self, _: Column<Instance>, _: usize) -> Result<Value<F>, Error> {
        Ok(Value::unknown())
    }
    fn assign_advice<V, VR, A, AR>(&mut self, _: A, _: Column<Advice>, _: usize, _: V) -> Result<(), Error>
    where
        V: FnOnce() -> Value<VR>,
        VR: Into<Rational<F>>,
        A: FnOnce() -> AR,
        AR: Into<String>,
    {
        Ok(())
    }
    fn assign_fixed<V, VR, A, AR>(&mut self, _: A, _: Column<Fixed>, _: usize, _: V) -> Result<(), Error>
    where
        V: FnOnce() -> Value<VR>,
        VR: Into<Rational<F>>,
        A: FnOnce() -> AR,
        AR: Into<String>,
    {
        Ok(())
    }
    fn copy(&mut self, _: Column<Any>, _: usize, _: Column<Any>, _: usize) -> Result<(), Error> {
        Ok(())
    }
    fn fill_from_row(&mut self, _: Column<Fixed>, _: usize, _: Value<Rational<F>>) -> Result<(), Error> {
        Ok(())
    }
    fn get_challenge(&self, _: Challenge) -> Value<F> {
        Value::unknown()
    }
    fn push_namespace<NR, N>(&mut self, _: N)
    where
        NR: Into<String>,
        N: FnOnce() -> NR,
    {
    }
    fn pop_namespace(&mut self, _: Option<String>) {}
}

/// Names of the regions one witness-free synthesis of `circuit` opens, in order.
pub fn region_names<C: Circuit<F>>(circuit: &C) -> Result<Vec<String>, String> {
    let mut cs = ConstraintSystem::default();
    let config = C::configure_with_params(&mut cs, circuit.params());
    let mut rec = Rec::default();
    C::FloorPlanner::synthesize(&mut rec, circuit, config, cs.constants().clone()).map_err(|e| format!("{e:?}"))?;
    Ok(rec.regions)
}
