//! Correspondence harness of property C20 (recursion and aggregation).
//!
//! Part 1 (`ipa.rs`): the inner-product argument of the light aggregator.
use mzkh::Ctx;

mod acc;
mod aggregator;
mod carry;
mod gadget;
mod ipa;
mod verify;

use mzkh::family::{FamParams, GateKind, LookupKind};

/// Inner-circuit shapes the in-circuit verifier supports (single phase, no challenge).
fn inner_shapes() -> Vec<(FamParams, u32)> {
    let base = FamParams { n_committed: 1, n_plain: 1, ..FamParams::default() };
    vec![
        // no lookup, smallest
        (base.clone(), 0),
        // lookups of both arities and a trash argument, rotations, several permutation sets
        (
            FamParams {
                n_adv0: 4,
                n_committed: 1,
                n_plain: 1,
                gates: vec![GateKind::Mul, GateKind::LinRot, GateKind::Pow(5), GateKind::Additive, GateKind::Complex],
                lookups: vec![LookupKind::Range, LookupKind::Pair],
                const_copies: true,
                steps: 9,
                ..FamParams::default()
            },
            0,
        ),
        // no committed instance column, larger k
        (FamParams { n_committed: 0, n_plain: 1, lookups: vec![LookupKind::Range], ..FamParams::default() }, 2),
        // two plain instance columns, lookup into an instance column, unblinded column
        (
            FamParams {
                n_committed: 1,
                n_plain: 2,
                unblinded: true,
                gates: vec![GateKind::Mul, GateKind::Pow(6)],
                lookups: vec![LookupKind::AnyInstance],
                ..FamParams::default()
            },
            1,
        ),
        (FamParams { n_committed: 0, n_plain: 2, gates: vec![GateKind::Pow(3)], ..FamParams::default() }, 0),
    ]
}

/// A random family member restricted to what the in-circuit verifier supports: one phase, no
/// challenge, at least one instance column.
fn sample_supported(rng: &mut rand_chacha::ChaCha8Rng) -> FamParams {
    let mut fp = mzkh::family::sample_params(rng);
    fp.n_adv1 = 0;
    fp.gates.retain(|g| *g != GateKind::Chal);
    if fp.gates.is_empty() {
        fp.gates.push(GateKind::Mul);
    }
    if fp.n_committed + fp.n_plain == 0 {
        fp.n_plain = 1;
    }
    fp
}

fn run_gadget(ctx: &mut Ctx) {
    use rand::Rng;
    let mut setup = gadget::Setup::new();
    let mut rng = ctx.rng("gadget");
    let shapes = inner_shapes();
    let (n_random, n_mut) = match ctx.tier.as_str() {
        "quick" => (10, 6),
        "thorough" => (60, 16),
        _ => (20, 8),
    };
    for (i, (fp, extra_k)) in shapes.iter().enumerate() {
        gadget::run_light(ctx, &mut setup, fp, *extra_k, 500 + i as u64, n_mut);
    }
    // boundary: an inner circuit without instance columns (no instance query at all)
    gadget::run_light(
        ctx,
        &mut setup,
        &FamParams { n_committed: 0, n_plain: 0, inst_copies: false, ..FamParams::default() },
        0,
        590,
        n_mut,
    );
    // boundary: a plain instance column without any value (the circuit does not constrain it)
    gadget::run_light_opt(
        ctx,
        &mut setup,
        &FamParams { n_committed: 0, n_plain: 1, inst_copies: false, ..FamParams::default() },
        0,
        591,
        n_mut,
        true,
    );
    for i in 0..n_random {
        let fp = sample_supported(&mut rng);
        let extra_k = if rng.gen_bool(0.3) { rng.gen_range(1..=3) } else { 0 };
        gadget::run_light(ctx, &mut setup, &fp, extra_k, 600 + i as u64, n_mut);
    }
    // (H1) altered advice values inside the verifier circuit
    let n_tamper = match ctx.tier.as_str() {
        "quick" => 12,
        "thorough" => 150,
        _ => 40,
    };
    gadget::tamper_light(ctx, &mut setup, &shapes[1].0, 650, n_tamper);
    // foreign-curve back-end (big circuits)
    let n_foreign = match ctx.tier.as_str() {
        "quick" => 2,
        "thorough" => shapes.len(),
        _ => 1,
    };
    for (i, (fp, extra_k)) in shapes.iter().take(n_foreign).enumerate() {
        gadget::run_foreign(ctx, &mut setup, fp, *extra_k, 700 + i as u64, 18, if ctx.quick() { 2 } else { 4 });
    }
}

fn run_ipa(ctx: &mut Ctx) {
    let mut rng = ctx.rng("ipa");
    let (sizes, reps, sweep): (Vec<usize>, usize, usize) = match ctx.tier.as_str() {
        "quick" => (vec![1, 2, 4, 8, 16, 32, 64], 1, 8),
        "thorough" => (vec![1, 2, 4, 8, 16, 32, 64, 128, 256, 512, 1024], 3, 16),
        _ => (vec![1, 2, 4, 8, 16, 32, 64], 1, 32),
    };
    for rep in 0..reps {
        for &n in &sizes {
            for class in ipa::CLASSES {
                if n > 128 && rep > 0 {
                    continue;
                }
                ipa::run_case(ctx, &mut rng, n, class, None, sweep);
            }
        }
    }
    // scripted challenges (special values), small sizes
    for &n in sizes.iter().filter(|n| **n <= 32) {
        let k = n.trailing_zeros() as usize;
        for variant in 0..(if ctx.quick() { 3 } else { 9 }) {
            let script = ipa::special_challenges(&mut rng, k, variant);
            ipa::run_case(ctx, &mut rng, n, ipa::Class::Random, Some(script), sweep);
        }
    }
}

fn main() {
    let mut ctx = Ctx::from_args("C20");
    let only = std::env::var("C20_ONLY").ok();
    if only.as_deref().map_or(true, |o| o == "ipa") {
        run_ipa(&mut ctx);
    }
    if only.as_deref().map_or(true, |o| o == "acc") {
        let n = if ctx.quick() { 60 } else { 400 };
        acc::run(&mut ctx, n);
    }
    if only.as_deref().map_or(true, |o| o == "carry") {
        // accumulators carried into a circuit (AssignedAccumulator::assign) and the IVC step
        carry::run(&mut ctx);
    }
    if only.as_deref().map_or(true, |o| o == "gadget") {
        run_gadget(&mut ctx);
    }
    if only.as_deref().map_or(true, |o| o == "agg") {
        // LightAggregator through its public API, k = 1, 2, 3 inner proofs
        let nc = match ctx.tier.as_str() {
            "quick" => 1,
            "thorough" => 4,
            _ => 2,
        };
        // regression first: one inner proof (the Lagrange-basis slice kept by `init` was too short)
        aggregator::run::<1>(&mut ctx, false, 15, 901, nc);
        aggregator::run::<2>(&mut ctx, false, 15, 902, nc);
        let sha3 = !ctx.quick();
        aggregator::run::<3>(&mut ctx, sha3, 15, 903, nc);
        // layout of the aggregator on the dummy inner circuit: 12 fixed columns (two-digit names),
        // k = 1, 2, 3 inner proofs; then a key with a fixed commitment that is never opened
        aggregator::run_dummy::<1>(&mut ctx, 12, 3, 0, 14, 911, nc);
        aggregator::run_dummy::<2>(&mut ctx, 12, 3, 0, 14, 912, nc);
        aggregator::run_dummy::<3>(&mut ctx, 3, 11, 0, 14, 913, nc);
        aggregator::run_dummy::<1>(&mut ctx, 3, 3, 1, 14, 914, nc);
        if !ctx.quick() {
            aggregator::run::<1>(&mut ctx, true, 15, 904, nc);
            aggregator::run::<2>(&mut ctx, true, 15, 905, nc);
        }
    }
    ctx.finish();
}
