//! Correspondence harness of property C20 (stub).
use mzkh::Ctx;
#[allow(unused_imports)]
use midnight_aggregator::verif_hooks::{ipa_prove, ipa_verify, ipa_log_start, ipa_log_take};
#[allow(unused_imports)]
use midnight_circuits::verifier::verif_hooks::{transcript_log_start, transcript_log_take, TranscriptEvent};

fn main() {
    let ctx = Ctx::from_args("C20");
    ctx.finish();
}
