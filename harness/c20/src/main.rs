//! Correspondence harness of property C20 (recursion and aggregation).
//!
//! Part 1 (`ipa.rs`): the inner-product argument of the light aggregator.
use mzkh::Ctx;

mod ipa;

fn run_ipa(ctx: &mut Ctx) {
    let mut rng = ctx.rng("ipa");
    let (sizes, reps, sweep): (Vec<usize>, usize, usize) = match ctx.tier.as_str() {
        "quick" => (vec![1, 2, 4, 8, 16, 32, 64], 1, 8),
        "thorough" => (vec![1, 2, 4, 8, 16, 32, 64, 128, 256, 512, 1024], 3, 16),
        _ => (vec![1, 2, 4, 8, 16, 32, 64], 2, 64),
    };
    for rep in 0..reps {
        for &n in &sizes {
            for class in ipa::CLASSES {
                if n > 128 && rep > 0 {
                    continue;
                }
                ipa::run_case(ctx, &mut rng, n, class, None, sweep);
            }
        }
    }
    // scripted challenges (special values), small sizes
    for &n in sizes.iter().filter(|n| **n <= 32) {
        let k = n.trailing_zeros() as usize;
        for variant in 0..(if ctx.quick() { 3 } else { 9 }) {
            let script = ipa::special_challenges(&mut rng, k, variant);
            ipa::run_case(ctx, &mut rng, n, ipa::Class::Random, Some(script), sweep);
        }
    }
}

fn main() {
    let mut ctx = Ctx::from_args("C20");
    run_ipa(&mut ctx);
    ctx.finish();
}
