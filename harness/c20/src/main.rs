//! Correspondence harness of property C20 (stub).
use mzkh::Ctx;

fn main() {
    let ctx = Ctx::from_args("C20");
    ctx.finish();
}
