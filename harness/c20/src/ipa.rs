//! Inner-product argument (`aggregator/src/inner_product_argument.rs`) against the Lean model:
//! transcript schedules of prover and verifier, the proof elements the prover writes, the scalar
//! vector of the verifier's final MSM (hooked), verdicts on honest and on element-wise
//! corrupted inputs. Every base point has a known discrete logarithm with respect to the G1
//! generator, so that the model can recompute every group element.

use std::cell::RefCell;

use blake2b_simd::State as Blake2bState;
use ff::{Field, PrimeField};
use group::{prime::PrimeCurveAffine, Curve, Group};
use midnight_aggregator::verif_hooks::{ipa_log_start, ipa_log_take, ipa_prove, ipa_verify};
use midnight_curves::{CurveAffine, Fq as F, G1Affine, G1Projective as C};
use midnight_proofs::transcript::{Hashable, Sampleable, Transcript, TranscriptHash};
use mzkh::{
    fe_hex,
    recording::{take_log, Event, RecordingTranscript},
    Ctx,
};
use rand::{Rng, RngCore};
use rand_chacha::ChaCha8Rng;
use serde_json::json;

// ---------------------------------------------------------------------------------------------
// A transcript hash that behaves exactly like the Blake2b transcript hash of midnight-proofs,
// records every squeezed challenge (as the scalar it samples to) and can be scripted: when a
// script is installed, the next squeeze returns the scripted scalar instead of the hash output.
// ---------------------------------------------------------------------------------------------

thread_local! {
    static SQUEEZED: RefCell<Vec<F>> = const { RefCell::new(Vec::new()) };
    static SCRIPT: RefCell<Option<Vec<F>>> = const { RefCell::new(None) };
}

pub fn take_squeezed() -> Vec<F> {
    SQUEEZED.with(|s| std::mem::take(&mut *s.borrow_mut()))
}

/// Installs the challenges the next squeezes return (in order; when exhausted, real hash).
pub fn set_script(v: Option<Vec<F>>) {
    SCRIPT.with(|s| {
        *s.borrow_mut() = v.map(|mut v| {
            v.reverse();
            v
        })
    });
}

#[derive(Clone)]
pub struct RecHash(Blake2bState);

impl TranscriptHash for RecHash {
    type Input = Vec<u8>;
    type Output = Vec<u8>;

    fn init() -> Self {
        RecHash(<Blake2bState as TranscriptHash>::init())
    }

    fn absorb(&mut self, input: &Vec<u8>) {
        <Blake2bState as TranscriptHash>::absorb(&mut self.0, input)
    }

    fn squeeze(&mut self) -> Vec<u8> {
        let real = <Blake2bState as TranscriptHash>::squeeze(&mut self.0);
        let scripted = SCRIPT.with(|s| s.borrow_mut().as_mut().and_then(|v| v.pop()));
        let out = match scripted {
            Some(f) => {
                let mut b = f.to_repr().as_ref().to_vec();
                b.resize(64, 0);
                b
            }
            None => real,
        };
        let f = <F as Sampleable<Blake2bState>>::sample(out.clone());
        SQUEEZED.with(|s| s.borrow_mut().push(f));
        out
    }
}

impl Hashable<RecHash> for C {
    fn to_input(&self) -> Vec<u8> {
        <C as Hashable<Blake2bState>>::to_input(self)
    }
    fn to_bytes(&self) -> Vec<u8> {
        <C as Hashable<Blake2bState>>::to_bytes(self)
    }
    fn read(buffer: &mut impl std::io::Read) -> std::io::Result<Self> {
        <C as Hashable<Blake2bState>>::read(buffer)
    }
}

impl Hashable<RecHash> for F {
    fn to_input(&self) -> Vec<u8> {
        <F as Hashable<Blake2bState>>::to_input(self)
    }
    fn to_bytes(&self) -> Vec<u8> {
        <F as Hashable<Blake2bState>>::to_bytes(self)
    }
    fn read(buffer: &mut impl std::io::Read) -> std::io::Result<Self> {
        <F as Hashable<Blake2bState>>::read(buffer)
    }
}

impl Sampleable<RecHash> for F {
    fn sample(out: Vec<u8>) -> Self {
        <F as Sampleable<Blake2bState>>::sample(out)
    }
}

type RT = RecordingTranscript<RecHash>;

// ---------------------------------------------------------------------------------------------

pub fn tokens(ev: &[Event]) -> String {
    ev.iter()
        .map(|e| match e.kind {
            'S' => "S".to_string(),
            'C' => format!("C{}", e.ty),
            _ => format!("E{}", e.ty),
        })
        .collect::<Vec<_>>()
        .join(" ")
}

/// The recorded operations with WHAT they carry: every absorbed point is identified by its value
/// among `bases1`, `bases2`, `res1`, `res2` (`None` unless these `2n + 2` points are pairwise
/// distinct, so that the identification is unambiguous); squeezes and proof elements are numbered.
pub fn labels(ev: &[Event], b1: &[C], b2: &[C], res1: &C, res2: &C) -> Option<String> {
    let enc = |p: &C| <C as Hashable<RecHash>>::to_bytes(p);
    let mut table: Vec<(Vec<u8>, String)> = vec![];
    for (i, b) in b1.iter().enumerate() {
        table.push((enc(b), format!("B1.{i}")));
    }
    for (i, b) in b2.iter().enumerate() {
        table.push((enc(b), format!("B2.{i}")));
    }
    table.push((enc(res1), "RES1".into()));
    table.push((enc(res2), "RES2".into()));
    let mut sorted: Vec<&Vec<u8>> = table.iter().map(|t| &t.0).collect();
    sorted.sort();
    if sorted.windows(2).any(|w| w[0] == w[1]) {
        return None;
    }
    let (mut n_sq, mut n_el) = (0usize, 0usize);
    let out: Vec<String> = ev
        .iter()
        .map(|e| match (e.kind, e.ty.as_str()) {
            ('S', _) => {
                n_sq += 1;
                if n_sq == 1 { "r".to_string() } else { format!("u.{}", n_sq - 2) }
            }
            ('C', _) => table.iter().find(|t| t.0 == e.bytes).map_or("?".to_string(), |t| t.1.clone()),
            (_, "G") => {
                n_el += 1;
                format!("{}.{}", if n_el % 2 == 1 { "L" } else { "R" }, (n_el - 1) / 2)
            }
            _ => "s".to_string(),
        })
        .collect();
    Some(out.join(" "))
}

pub fn point_str(p: &C) -> String {
    let a: G1Affine = p.to_affine();
    if bool::from(a.is_identity()) {
        "inf".to_string()
    } else {
        let c = a.coordinates().unwrap();
        format!("{},{}", fe_hex(c.x()), fe_hex(c.y()))
    }
}

fn hexes(v: &[F]) -> String {
    mzkh::join(&v.iter().map(fe_hex).collect::<Vec<_>>())
}

fn g(d: &F) -> C {
    C::generator() * d
}

/// How the scalars / discrete logarithms of a case are drawn.
#[derive(Clone, Copy, Debug, PartialEq)]
pub enum Class {
    Random,
    /// identity bases and zero scalars at the tail (the padding `aggregate_proofs` applies)
    Padded,
    Small,
    ZeroWitness,
    RepeatedBases,
    MaxScalars,
}

pub const CLASSES: [Class; 6] =
    [Class::Random, Class::Padded, Class::Small, Class::ZeroWitness, Class::RepeatedBases, Class::MaxScalars];

pub struct Inputs {
    pub w: Vec<F>,
    pub d1: Vec<F>,
    pub d2: Vec<F>,
}

fn rnd(rng: &mut ChaCha8Rng) -> F {
    F::random(rng)
}

pub fn gen_inputs(rng: &mut ChaCha8Rng, n: usize, class: Class) -> Inputs {
    let mut w: Vec<F> = (0..n).map(|_| rnd(rng)).collect();
    let mut d1: Vec<F> = (0..n).map(|_| rnd(rng)).collect();
    let mut d2: Vec<F> = (0..n).map(|_| rnd(rng)).collect();
    match class {
        Class::Random => {}
        Class::Padded => {
            let keep = if n <= 1 { n } else { n / 2 + 1 + (rng.next_u32() as usize) % (n / 2) };
            for i in keep.min(n)..n {
                w[i] = F::ZERO;
                d1[i] = F::ZERO;
                d2[i] = F::ZERO;
            }
        }
        Class::Small => {
            for v in [&mut w, &mut d1, &mut d2] {
                for x in v.iter_mut() {
                    *x = F::from((rng.next_u32() % 5) as u64);
                }
            }
        }
        Class::ZeroWitness => w.iter_mut().for_each(|x| *x = F::ZERO),
        Class::RepeatedBases => {
            let a = d1[0];
            d1.iter_mut().for_each(|x| *x = a);
            let b = d2[0];
            d2.iter_mut().enumerate().for_each(|(i, x)| *x = if i % 2 == 0 { b } else { -b });
        }
        Class::MaxScalars => w.iter_mut().for_each(|x| *x = -F::ONE),
    }
    Inputs { w, d1, d2 }
}

fn dot(a: &[F], b: &[F]) -> F {
    a.iter().zip(b).map(|(x, y)| *x * y).sum()
}

/// The prover's output, parsed.
#[derive(Clone)]
pub struct Parsed {
    pub lrs: Vec<(C, C)>,
    pub s: F,
}

fn parse_proof(bytes: &[u8], k: usize) -> Option<Parsed> {
    if bytes.len() != k * 96 + 32 {
        return None;
    }
    let mut cur = std::io::Cursor::new(bytes.to_vec());
    let mut lrs = vec![];
    for _ in 0..k {
        let l = <C as Hashable<Blake2bState>>::read(&mut cur).ok()?;
        let r = <C as Hashable<Blake2bState>>::read(&mut cur).ok()?;
        lrs.push((l, r));
    }
    let s = <F as Hashable<Blake2bState>>::read(&mut cur).ok()?;
    Some(Parsed { lrs, s })
}

fn encode_proof(lrs: &[(C, C)], s: &F) -> Vec<u8> {
    let mut out = vec![];
    for (l, r) in lrs {
        out.extend(<C as Hashable<Blake2bState>>::to_bytes(l));
        out.extend(<C as Hashable<Blake2bState>>::to_bytes(r));
    }
    out.extend(<F as Hashable<Blake2bState>>::to_bytes(s));
    out
}

pub struct VerifyRun {
    pub verdict: Result<Result<(), String>, String>,
    pub challenges: Vec<F>,
    pub events: Vec<Event>,
    pub scalars: Vec<Vec<F>>,
}

/// Real `ipa_verify` through the recording transcript, hooks on.
pub fn run_verify(b1: &[C], b2: &[C], res1: &C, res2: &C, proof: &[u8], script: Option<Vec<F>>) -> VerifyRun {
    take_log();
    take_squeezed();
    set_script(script);
    ipa_log_start();
    let verdict = mzkh::catch(|| {
        let mut t = RT::init_from_bytes(proof);
        ipa_verify::<RT, C>(b1, b2, res1, res2, &mut t).map_err(|e| format!("{e:?}"))
    });
    set_script(None);
    let scalars = ipa_log_take()
        .into_iter()
        .map(|v| {
            v.into_iter()
                .map(|b| {
                    let mut r = <F as PrimeField>::Repr::default();
                    r.as_mut().copy_from_slice(&b);
                    F::from_repr(r).unwrap()
                })
                .collect()
        })
        .collect();
    VerifyRun { verdict, challenges: take_squeezed(), events: take_log(), scalars }
}

fn ok(v: &Result<Result<(), String>, String>) -> bool {
    matches!(v, Ok(Ok(())))
}

/// `ipa-verify` request line with everything given by discrete logarithm.
#[allow(clippy::too_many_arguments)]
fn verify_line(d1: &[F], d2: &[F], r1: &F, r2: &F, ch: &[F], lrs: &[(F, F)], s: &F) -> String {
    let lr = if lrs.is_empty() {
        "-".to_string()
    } else {
        lrs.iter().map(|(l, r)| format!("{}:{}", fe_hex(l), fe_hex(r))).collect::<Vec<_>>().join(",")
    };
    format!(
        "ipa-verify {} {} {} {} {} {} {} {}",
        hexes(d1),
        hexes(d2),
        fe_hex(r1),
        fe_hex(r2),
        fe_hex(&ch[0]),
        hexes(&ch[1..]),
        lr,
        fe_hex(s)
    )
}

/// Discrete logarithms of the `(L_j, R_j)` an honest prover writes (recomputed here only to be
/// able to *shift* them by a known amount in the corruption sweep; the model recomputes them
/// independently and the points are compared in `ipa-prove`).
fn honest_lr_logs(w: &[F], d1: &[F], d2: &[F], ch: &[F]) -> Vec<(F, F)> {
    let r = ch[0];
    let mut s = w.to_vec();
    let mut b: Vec<F> = d1.iter().zip(d2).map(|(a, c)| *a + r * c).collect();
    let mut out = vec![];
    for u in &ch[1..] {
        let h = s.len() / 2;
        out.push((dot(&s[..h], &b[h..]), dot(&s[h..], &b[..h])));
        let ui = u.invert().unwrap();
        let s2: Vec<F> = (0..h).map(|i| s[i] * u + s[h + i] * ui).collect();
        let b2: Vec<F> = (0..h).map(|i| b[h + i] * u + b[i] * ui).collect();
        s = s2;
        b = b2;
    }
    out
}

/// One honest run + correspondence lines + corruption sweep. `script`: scripted challenges.
pub fn run_case(ctx: &mut Ctx, rng: &mut ChaCha8Rng, n: usize, class: Class, script: Option<Vec<F>>, sweep: usize) {
    let k = n.trailing_zeros() as usize;
    let inp = gen_inputs(rng, n, class);
    let b1: Vec<C> = inp.d1.iter().map(g).collect();
    let b2: Vec<C> = inp.d2.iter().map(g).collect();
    // claims computed point-wise with the real group operations
    let res1: C = b1.iter().zip(&inp.w).map(|(b, s)| b * s).sum();
    let res2: C = b2.iter().zip(&inp.w).map(|(b, s)| b * s).sum();
    let r1 = dot(&inp.w, &inp.d1);
    let r2 = dot(&inp.w, &inp.d2);
    let tag = format!("{class:?}{}", if script.is_some() { "+scripted" } else { "" });
    ctx.count(&format!("ipa:n={n}"));
    ctx.count(&format!("ipa:class={tag}"));
    let desc = json!({"n": n, "class": tag, "w": hexes(&inp.w), "d1": hexes(&inp.d1), "d2": hexes(&inp.d2),
                      "script": script.as_ref().map(|s| hexes(s))});

    // ---- prover
    take_log();
    take_squeezed();
    set_script(script.clone());
    let mut t = RT::init();
    let pr = mzkh::catch(|| ipa_prove::<RT, C>(&inp.w, &b1, &b2, &res1, &res2, &mut t).map_err(|e| format!("{e:?}")));
    set_script(None);
    let p_events = take_log();
    let p_ch = take_squeezed();
    if !matches!(pr, Ok(Ok(()))) {
        ctx.oracle_fail(&format!("ipa-prove-fails:n={n}:{tag}"), "ipa_prove fails on a true statement", json!({"case": desc, "result": format!("{pr:?}")}));
        return;
    }
    let proof = t.finalize();
    ctx.case("ipa-sched", true, &format!("ipa-sched P {n}"), &tokens(&p_events));
    // what is absorbed when: the claims must precede the batching challenge (ipa_challenges_bind_claims)
    match labels(&p_events, &b1, &b2, &res1, &res2) {
        Some(l) => ctx.case("ipa-labels", true, &format!("ipa-labels {n}"), &l),
        None => ctx.count("ipa-labels:ambiguous-skipped"),
    }
    let parsed = match parse_proof(&proof, k) {
        Some(p) => p,
        None => {
            ctx.oracle_fail(&format!("ipa-proof-shape:n={n}"), "proof written by ipa_prove is not k pairs of points and one scalar", json!({"case": desc, "len": proof.len()}));
            return;
        }
    };
    let mut els: Vec<String> = parsed.lrs.iter().flat_map(|(l, r)| [point_str(l), point_str(r)]).collect();
    els.push(fe_hex(&parsed.s));
    ctx.case(
        "ipa-prove",
        true,
        &format!("ipa-prove {} {} {} {} {}", hexes(&inp.w), hexes(&inp.d1), hexes(&inp.d2), fe_hex(&p_ch[0]), hexes(&p_ch[1..])),
        &els.join(" "),
    );

    // transparency of the recording hash: the plain Blake2b transcript gives the same bytes
    if script.is_none() {
        use midnight_proofs::transcript::CircuitTranscript;
        let mut t2 = CircuitTranscript::<Blake2bState>::init();
        let _ = ipa_prove::<_, C>(&inp.w, &b1, &b2, &res1, &res2, &mut t2);
        let proof2 = t2.finalize();
        let mut t3 = CircuitTranscript::<Blake2bState>::init_from_bytes(&proof2);
        let v = mzkh::catch(|| ipa_verify::<_, C>(&b1, &b2, &res1, &res2, &mut t3).is_ok());
        if proof2 != proof || v != Ok(true) {
            ctx.oracle_fail(&format!("ipa-honest-rejected:blake2b:n={n}:{tag}"), "honest IPA proof rejected (plain Blake2b transcript) or recording hash not transparent", json!({"case": desc, "same_bytes": proof2 == proof, "verdict": format!("{v:?}")}));
        }
    }

    // ---- verifier, honest
    let vr = run_verify(&b1, &b2, &res1, &res2, &proof, script.clone());
    ctx.case("ipa-sched", true, &format!("ipa-sched V {n}"), &tokens(&vr.events));
    if let Some(l) = labels(&vr.events, &b1, &b2, &res1, &res2) {
        ctx.case("ipa-labels-verifier", true, &format!("ipa-labels {n}"), &l);
    }
    if !ok(&vr.verdict) || vr.challenges != p_ch {
        ctx.oracle_fail(&format!("ipa-honest-rejected:n={n}:{tag}"), "honest IPA proof rejected, or prover and verifier derive different challenges", json!({"case": desc, "verdict": format!("{:?}", vr.verdict), "same_challenges": vr.challenges == p_ch}));
    }
    if vr.scalars.len() == 1 && !vr.challenges.is_empty() {
        ctx.case(
            "ipa-vscalars",
            true,
            &format!("ipa-vscalars {} {} {}", fe_hex(&vr.challenges[0]), fe_hex(&parsed.s), hexes(&vr.challenges[1..])),
            &hexes(&vr.scalars[0]),
        );
    } else {
        ctx.oracle_fail(&format!("ipa-hook:n={n}"), "ipa_verify did not reach its final MSM on an honest proof", json!({"case": desc}));
    }
    // ---- adaptive forgery (the class of seeded change C20-1): a prover that could learn the batching
    // challenge `r` before fixing the claims proves the FALSE claims (res1 + D, res2 − D/r) — the
    // final check only sees res1 + r·res2. Tried with the `r` of the honest run: must be rejected,
    // because `r` is derived from the claims (ipa_challenges_bind_claims).
    if script.is_none() {
        if let Some(ri) = Option::<F>::from(p_ch[0].invert()) {
            let d = C::generator() * (F::random(&mut *rng) + F::ONE);
            let (f1, f2) = (res1 + d, res2 - d * ri);
            take_log();
            take_squeezed();
            let mut tf = RT::init();
            let prf = mzkh::catch(|| ipa_prove::<RT, C>(&inp.w, &b1, &b2, &f1, &f2, &mut tf).map_err(|e| format!("{e:?}")));
            take_log();
            take_squeezed();
            if matches!(prf, Ok(Ok(()))) {
                let proof_f = tf.finalize();
                let vf = run_verify(&b1, &b2, &f1, &f2, &proof_f, None);
                if ok(&vf.verdict) {
                    ctx.oracle_fail(
                        &format!("ipa-adaptive-forgery:n={n}"),
                        "ipa_verify accepts FALSE claims (res1 + D, res2 - D/r) chosen after the batching challenge r was known: r does not depend on the claims",
                        json!({"case": desc, "r": fe_hex(&p_ch[0]), "D": point_str(&d), "forged_res1": point_str(&f1), "forged_res2": point_str(&f2)}),
                    );
                } else {
                    ctx.count("ipa:adaptive-forgery-rejected");
                }
            }
        }
    }
    let lr_logs = honest_lr_logs(&inp.w, &inp.d1, &inp.d2, &p_ch);
    ctx.case("ipa-verify", true, &verify_line(&inp.d1, &inp.d2, &r1, &r2, &p_ch, &lr_logs, &parsed.s), "1");

    // ---- corruption sweep: one element altered by a known amount, everything else honest
    #[derive(Clone, Copy, Debug)]
    enum Target {
        L(usize),
        R(usize),
        S,
        B1(usize),
        B2(usize),
        Res1,
        Res2,
        /// `res1 += δ`, `res2 -= δ`: cancels iff the batching challenge is 1
        Pair12,
        /// `L_j += δ`, `R_j -= δ`: cancels iff `u_j² = u_j⁻²`
        PairLR(usize),
    }
    let mut targets: Vec<Target> = vec![Target::S, Target::Res1, Target::Res2];
    targets.extend((0..k).flat_map(|j| [Target::L(j), Target::R(j)]));
    let idx: Vec<usize> = if n <= sweep { (0..n).collect() } else { (0..sweep).map(|_| rng.gen_range(0..n)).collect() };
    targets.extend(idx.iter().flat_map(|&i| [Target::B1(i), Target::B2(i)]));
    if script.is_none() {
        targets.push(Target::Pair12);
        targets.extend((0..k).map(Target::PairLR));
    }
    for tg in targets {
        let delta = match rng.next_u32() % 3 {
            0 => F::ONE,
            1 => -F::ONE,
            _ => rnd(rng),
        };
        let mut d1 = inp.d1.clone();
        let mut d2 = inp.d2.clone();
        let (mut c1, mut c2) = (r1, r2);
        let mut lr = lr_logs.clone();
        let mut s = parsed.s;
        match tg {
            Target::L(j) => lr[j].0 += delta,
            Target::R(j) => lr[j].1 += delta,
            Target::S => s += delta,
            Target::B1(i) => d1[i] += delta,
            Target::B2(i) => d2[i] += delta,
            Target::Res1 => c1 += delta,
            Target::Res2 => c2 += delta,
            Target::Pair12 => {
                c1 += delta;
                c2 -= delta;
            }
            Target::PairLR(j) => {
                lr[j].0 += delta;
                lr[j].1 -= delta;
            }
        }
        let pb1: Vec<C> = d1.iter().map(g).collect();
        let pb2: Vec<C> = d2.iter().map(g).collect();
        let lr_pts: Vec<(C, C)> = match tg {
            Target::L(_) | Target::R(_) | Target::PairLR(_) => lr.iter().map(|(l, r)| (g(l), g(r))).collect(),
            _ => parsed.lrs.clone(),
        };
        let bytes = encode_proof(&lr_pts, &s);
        let vr = run_verify(&pb1, &pb2, &g(&c1), &g(&c2), &bytes, script.clone());
        let kind = format!("{tg:?}").split('(').next().unwrap().to_string();
        ctx.count(&format!("ipa-corrupt:{kind}"));
        // what must be rejected: an altered base changes the statement, which stays true iff the
        // scalar at that position is zero; with a (scripted) batching challenge r = 0 the second
        // relation is not looked at
        let r_zero = vr.challenges.first().map(|c| bool::from(c.is_zero())).unwrap_or(false);
        let must_reject = match tg {
            Target::B1(i) => !bool::from(inp.w[i].is_zero()),
            Target::B2(i) => !bool::from(inp.w[i].is_zero()) && !r_zero,
            Target::Res2 => !r_zero,
            _ => true,
        };
        if ok(&vr.verdict) && must_reject {
            ctx.oracle_fail(
                &format!("ipa-accepts-altered:{kind}"),
                "ipa_verify accepts after one element (proof element, base, or claimed value) was altered",
                json!({"case": desc, "target": format!("{tg:?}"), "delta": fe_hex(&delta)}),
            );
        }
        if vr.challenges.len() == k + 1 {
            ctx.case(
                "ipa-verify-corrupt",
                true,
                &verify_line(&d1, &d2, &c1, &c2, &vr.challenges, &lr, &s),
                if ok(&vr.verdict) { "1" } else { "0" },
            );
        }
    }

    // ---- altered witness vector: proof made for w' against the claims of w
    if n >= 1 {
        let mut w2 = inp.w.clone();
        let i = rng.gen_range(0..n);
        w2[i] += F::ONE;
        let mut t = RT::init();
        set_script(script.clone());
        let _ = mzkh::catch(|| ipa_prove::<RT, C>(&w2, &b1, &b2, &res1, &res2, &mut t));
        set_script(None);
        let bytes = t.finalize();
        let vr = run_verify(&b1, &b2, &res1, &res2, &bytes, script.clone());
        ctx.count("ipa-corrupt:Witness");
        // identity bases make a change of the corresponding scalar invisible (by design of the
        // padding): only a change at a non-identity base must be rejected
        let r_zero = vr.challenges.first().map(|c| bool::from(c.is_zero())).unwrap_or(false);
        let visible = !bool::from(inp.d1[i].is_zero()) || (!bool::from(inp.d2[i].is_zero()) && !r_zero);
        if ok(&vr.verdict) && visible {
            ctx.oracle_fail("ipa-accepts-altered:Witness", "ipa_verify accepts a proof made from a different scalar vector", json!({"case": desc, "index": i}));
        }
        if let (Some(p2), true) = (parse_proof(&bytes, k), vr.challenges.len() == k + 1) {
            let lr2 = honest_lr_logs(&w2, &inp.d1, &inp.d2, &vr.challenges);
            ctx.case(
                "ipa-verify-corrupt",
                true,
                &verify_line(&inp.d1, &inp.d2, &r1, &r2, &vr.challenges, &lr2, &p2.s),
                if ok(&vr.verdict) { "1" } else { "0" },
            );
        }
    }

    // ---- byte-level damage of the proof: must be rejected, never panic
    for _ in 0..(if n <= 8 { 6 } else { 3 }) {
        let mut bytes = proof.clone();
        let what = match rng.next_u32() % 3 {
            0 => {
                let i = rng.gen_range(0..bytes.len());
                bytes[i] ^= 1 << (rng.next_u32() % 8);
                "flip"
            }
            1 => {
                let l = rng.gen_range(0..bytes.len());
                bytes.truncate(l);
                "truncate"
            }
            _ => {
                // swap L_0 and R_0 (or negate s when there is no round)
                if k > 0 {
                    let (a, b) = bytes.split_at_mut(48);
                    a.swap_with_slice(&mut b[..48]);
                    "swapLR"
                } else {
                    let s = -parsed.s;
                    bytes = encode_proof(&[], &s);
                    "negS"
                }
            }
        };
        if bytes == proof {
            continue;
        }
        let vr = run_verify(&b1, &b2, &res1, &res2, &bytes, None);
        ctx.count(&format!("ipa-bytes:{what}"));
        match &vr.verdict {
            Ok(Err(_)) => {}
            Ok(Ok(())) => ctx.oracle_fail(&format!("ipa-accepts-bytes:{what}"), "ipa_verify accepts a damaged proof", json!({"case": desc, "what": what, "proof": format!("{:?}", bytes)})),
            Err(msg) => ctx.oracle_fail(&format!("ipa-panics-bytes:{what}"), "ipa_verify panics on a damaged proof", json!({"case": desc, "what": what, "panic": msg, "proof": format!("{:?}", bytes)})),
        }
    }
}

/// Special challenge values for the scripted runs.
pub fn special_challenges(rng: &mut ChaCha8Rng, k: usize, variant: usize) -> Vec<F> {
    let pick = |rng: &mut ChaCha8Rng, v: usize| match v % 5 {
        0 => F::ONE,
        1 => -F::ONE,
        2 => F::from(2),
        3 => F::from((rng.next_u32() % 7 + 1) as u64),
        _ => F::random(&mut *rng),
    };
    let mut out = vec![match variant % 3 {
        0 => F::ZERO, // batching challenge r = 0: second relation dropped, must still be complete
        1 => F::ONE,
        _ => F::random(&mut *rng),
    }];
    for j in 0..k {
        out.push(pick(rng, variant + j));
    }
    out
}
