//! The in-circuit verifier (`circuits/src/verifier`) against the off-circuit verifier and the
//! Lean schedule model, on inner circuits of the generated family (with/without lookups, trash
//! arguments, different k, 0/1 committed and 1/2 plain instance columns), through both
//! self-emulation back-ends:
//!  * light (`LightBlstrsEmulation`: fake curve chip, points exposed as public inputs),
//!  * foreign (`BlstrsEmulation`: foreign-curve chip, accumulator collapsed in-circuit).
//!
//! Per inner circuit: real keygen, real inner proof (Poseidon transcript of the back-end), real
//! off-circuit `prepare` → accumulator; the verifier circuit is run under `MockProver` with
//! instance = encode(vk identity, inner public inputs, off-circuit accumulator):
//!  * must be satisfied (both verifiers derive the same accumulator),
//!  * must be unsatisfied for any other claimed accumulator / vk identity / public input,
//!  * the hooked in-circuit transcript log must equal the model's `gadgetSchedule` and the
//!    off-circuit verifier's recorded events,
//!  * a corrupted inner proof yields (off-circuit and in-circuit alike) an accumulator that
//!    fails the pairing check, and is not accepted with the honest accumulator.

use std::collections::HashMap;

use ff::Field;
use midnight_aggregator::verif_hooks::{FakeCurveChip, FakePoint, LightBlstrsEmulation, LightPoseidonFS};
use midnight_circuits::{
    field::{
        native::{NB_ARITH_COLS, NB_ARITH_FIXED_COLS},
        AssignedNative, NativeChip, NativeConfig,
    },
    hash::poseidon::{PoseidonChip, PoseidonConfig, NB_POSEIDON_ADVICE_COLS, NB_POSEIDON_FIXED_COLS},
    instructions::{AssignmentInstructions, PublicInputInstructions},
    types::{ComposableChip, InnerValue, Instantiable},
    verifier::{
        fixed_bases,
        verif_hooks::{arith_log_start, arith_log_take, transcript_log_start, transcript_log_take, TranscriptEvent},
        Accumulator, AssignedAccumulator, AssignedVk, VerifierGadget,
    },
};
use midnight_curves::{Bls12, Fq as F, G1Projective as C};
use midnight_proofs::{
    circuit::{Layouter, SimpleFloorPlanner, Value},
    dev::MockProver,
    plonk::{
        commit_to_instances, create_proof, keygen_pk, keygen_vk_with_k, prepare, Circuit, ConstraintSystem, Error,
        ProvingKey, VerifyingKey,
    },
    poly::{
        kzg::{msm::DualMSM, params::ParamsKZG, KZGCommitmentScheme},
        EvaluationDomain,
    },
    transcript::{CircuitTranscript, Hashable, Sampleable, Transcript, TranscriptHash},
};
use mzkh::{
    family::{FamCircuit, FamParams},
    recording::{take_log, RecordingTranscript},
    shape::shape_string,
    Ctx,
};
use rand::{Rng, SeedableRng};
use rand_chacha::ChaCha8Rng;
use serde_json::json;

type Scheme = KZGCommitmentScheme<Bls12>;
type Light = LightBlstrsEmulation;

pub struct Setup {
    params: HashMap<u32, ParamsKZG<Bls12>>,
}

impl Setup {
    pub fn new() -> Self {
        Setup { params: HashMap::new() }
    }
    pub fn get(&mut self, k: u32) -> &ParamsKZG<Bls12> {
        self.params
            .entry(k)
            .or_insert_with(|| ParamsKZG::<Bls12>::unsafe_setup(k, ChaCha8Rng::seed_from_u64(k as u64 + 99)))
    }
}

/// In-circuit transcript log → the tokens of the schedule model (`CF CG EF EG S`), and the
/// number of field elements a point is absorbed as.
pub fn gadget_tokens(log: &[TranscriptEvent]) -> Result<(String, Vec<usize>), String> {
    let mut out = vec![];
    let mut pieces = vec![];
    let mut i = 0;
    while i < log.len() {
        match log[i] {
            TranscriptEvent::CommonScalar => out.push("CF"),
            TranscriptEvent::CommonPoint(n) => {
                pieces.push(n);
                out.push("CG")
            }
            TranscriptEvent::Squeeze => out.push("S"),
            TranscriptEvent::ReadPoint => match log.get(i + 1) {
                Some(TranscriptEvent::CommonPoint(n)) => {
                    pieces.push(*n);
                    out.push("EG");
                    i += 1;
                }
                other => return Err(format!("read_point not followed by common_point at {i}: {other:?}")),
            },
            TranscriptEvent::ReadScalar => match log.get(i + 1) {
                Some(TranscriptEvent::CommonScalar) => {
                    out.push("EF");
                    i += 1;
                }
                other => return Err(format!("read_scalar not followed by common_scalar at {i}: {other:?}")),
            },
        }
        i += 1;
    }
    pieces.sort();
    pieces.dedup();
    Ok((out.join(" "), pieces))
}

// ---------------------------------------------------------------------------------------------
// The verifier circuit over the light back-end (same layout as the aggregator's circuit, one
// proof, accumulator exposed in plain form).
// ---------------------------------------------------------------------------------------------

#[derive(Clone, Debug)]
pub struct LightVerifierCircuit {
    pub inner_vk: (EvaluationDomain<F>, ConstraintSystem<F>, Value<F>),
    pub committed: Vec<Value<C>>,
    pub instances: Vec<Vec<Value<F>>>,
    pub proof: Value<Vec<u8>>,
}

impl Circuit<F> for LightVerifierCircuit {
    type Config = (NativeConfig, PoseidonConfig<F>);
    type FloorPlanner = SimpleFloorPlanner;
    type Params = ();

    fn without_witnesses(&self) -> Self {
        unreachable!()
    }

    fn configure(meta: &mut ConstraintSystem<F>) -> Self::Config {
        let nb_advice_cols = std::cmp::max(NB_ARITH_COLS, NB_POSEIDON_ADVICE_COLS);
        let nb_fixed_cols = std::cmp::max(NB_ARITH_FIXED_COLS, NB_POSEIDON_FIXED_COLS);
        let advice_columns: Vec<_> = (0..nb_advice_cols).map(|_| meta.advice_column()).collect();
        let fixed_columns: Vec<_> = (0..nb_fixed_cols).map(|_| meta.fixed_column()).collect();
        let committed_instance_column = meta.instance_column();
        let instance_column = meta.instance_column();
        let native_config = NativeChip::configure(
            meta,
            &(
                advice_columns[..NB_ARITH_COLS].try_into().unwrap(),
                fixed_columns[..NB_ARITH_FIXED_COLS].try_into().unwrap(),
                [committed_instance_column, instance_column],
            ),
        );
        let poseidon_config = PoseidonChip::configure(
            meta,
            &(
                advice_columns[..NB_POSEIDON_ADVICE_COLS].try_into().unwrap(),
                fixed_columns[..NB_POSEIDON_FIXED_COLS].try_into().unwrap(),
            ),
        );
        (native_config, poseidon_config)
    }

    fn synthesize(&self, config: Self::Config, mut layouter: impl Layouter<F>) -> Result<(), Error> {
        let scalar_chip = NativeChip::new(&config.0, &());
        let sponge_chip = PoseidonChip::new(&config.1, &scalar_chip);
        let curve_chip = FakeCurveChip::<C>::new(&scalar_chip);
        let verifier = VerifierGadget::<Light>::new(&curve_chip, &scalar_chip, &sponge_chip);

        let vk: AssignedVk<Light> =
            verifier.assign_vk_as_public_input(&mut layouter, "inner_vk", &self.inner_vk.0, &self.inner_vk.1, self.inner_vk.2)?;
        let committed: Vec<FakePoint<C>> = self
            .committed
            .iter()
            .map(|p| curve_chip.assign_as_public_input(&mut layouter, *p))
            .collect::<Result<_, Error>>()?;
        let instances: Vec<Vec<AssignedNative<F>>> = self
            .instances
            .iter()
            .map(|col| col.iter().map(|v| scalar_chip.assign_as_public_input(&mut layouter, *v)).collect::<Result<Vec<_>, Error>>())
            .collect::<Result<_, Error>>()?;
        let inst_refs: Vec<&[AssignedNative<F>]> = instances.iter().map(|c| &c[..]).collect();

        let acc = verifier.prepare(&mut layouter, &vk, &committed, &inst_refs, self.proof.clone())?;
        {
            // the value of the accumulator as the gadget itself serialises it (no side effect for the
            // fake curve chip: `as_public_input` returns the pieces)
            let cells = PublicInputInstructions::<F, AssignedAccumulator<Light>>::as_public_input(&verifier, &mut layouter, &acc)?;
            let vals: Value<Vec<F>> = Value::from_iter(cells.iter().map(|c| c.value().copied()));
            vals.map(crate::verify::stash_light_pi);
        }
        verifier.constrain_as_public_input(&mut layouter, &acc)?;

        scalar_chip.load(&mut layouter)?;
        sponge_chip.load(&mut layouter)?;
        curve_chip.finalize()
    }
}

/// Everything about one inner circuit and its honest proof.
pub struct Inner {
    pub fp: FamParams,
    pub k: u32,
    pub shape: String,
    pub pk: ProvingKey<F, Scheme>,
    pub insts: Vec<Vec<F>>,
    pub commitments: Vec<C>,
    pub proof: Vec<u8>,
}

impl Inner {
    pub fn vk(&self) -> &VerifyingKey<F, Scheme> {
        self.pk.get_vk()
    }
    pub fn cfg(&self) -> String {
        let nc = self.fp.n_committed;
        format!("nc={} lens={}", nc, mzkh::join(&self.insts[nc..].iter().map(|c| c.len()).collect::<Vec<_>>()))
    }
}

/// Key generation and an honest proof of a family member with transcript hash `H`.
pub fn make_inner<H: TranscriptHash>(setup: &mut Setup, fp: &FamParams, extra_k: u32, seed: u64) -> Result<Inner, String>
where
    F: Hashable<H> + Sampleable<H>,
    C: Hashable<H>,
{
    make_inner_opt::<H>(setup, fp, extra_k, seed, false)
}

/// As `make_inner`; with `empty_plain` the plain instance columns are given NO value (legal when the
/// circuit does not constrain its instance cells: the columns are then all-zero polynomials).
pub fn make_inner_opt<H: TranscriptHash>(
    setup: &mut Setup,
    fp: &FamParams,
    extra_k: u32,
    seed: u64,
    empty_plain: bool,
) -> Result<Inner, String>
where
    F: Hashable<H> + Sampleable<H>,
    C: Hashable<H>,
{
    let circuit = FamCircuit::new(fp.clone(), seed);
    let mut k = 4;
    let (pk, k) = loop {
        let params = setup.get(k).clone();
        match keygen_vk_with_k::<F, Scheme, _>(&params, &circuit, k) {
            Ok(vk) => {
                if extra_k > 0 {
                    let k2 = k + extra_k;
                    let params2 = setup.get(k2).clone();
                    let vk2 = keygen_vk_with_k::<F, Scheme, _>(&params2, &circuit, k2).map_err(|e| format!("{e:?}"))?;
                    break (keygen_pk(vk2, &circuit).map_err(|e| format!("{e:?}"))?, k2);
                }
                break (keygen_pk(vk, &circuit).map_err(|e| format!("{e:?}"))?, k);
            }
            Err(_) if k < 10 => k += 1,
            Err(e) => return Err(format!("keygen failed: {e:?}")),
        }
    };
    let params = setup.get(k).clone();
    let shape = shape_string(&pk, k);
    let mut insts = circuit.instances();
    if empty_plain {
        for col in insts[fp.n_committed..].iter_mut() {
            col.clear();
        }
    }
    let inst_refs: Vec<&[F]> = insts.iter().map(|c| &c[..]).collect();
    let mut tr = CircuitTranscript::<H>::init();
    create_proof::<F, Scheme, _, _>(
        &params,
        &pk,
        &[circuit.clone()],
        fp.n_committed,
        &[&inst_refs[..]],
        ChaCha8Rng::seed_from_u64(seed ^ 0xbeef),
        &mut tr,
    )
    .map_err(|e| format!("create_proof: {e:?}"))?;
    let proof = tr.finalize();
    let domain = pk.get_vk().get_domain();
    let commitments: Vec<C> =
        insts[..fp.n_committed].iter().map(|c| commit_to_instances::<F, Scheme>(&params, domain, c)).collect();
    Ok(Inner { fp: fp.clone(), k, shape, pk, insts, commitments, proof })
}

/// Off-circuit `prepare` through a recording transcript: the dual MSM and the event tokens.
pub fn off_circuit<H: TranscriptHash>(
    inner: &Inner,
    insts: &[Vec<F>],
    commitments: &[C],
    proof: &[u8],
) -> Result<(DualMSM<Bls12>, String), String>
where
    F: Hashable<H> + Sampleable<H>,
    C: Hashable<H>,
{
    let nc = inner.fp.n_committed;
    let plain: Vec<&[F]> = insts[nc..].iter().map(|c| &c[..]).collect();
    take_log();
    let mut vt = RecordingTranscript::<H>::init_from_bytes(proof);
    let r = mzkh::catch(|| prepare::<F, Scheme, _>(inner.vk(), &[commitments], &[&plain[..]], &mut vt).map_err(|e| format!("{e:?}")));
    let ev = take_log();
    match r {
        Ok(Ok(g)) => Ok((g, crate::ipa::tokens(&ev))),
        Ok(Err(e)) => Err(e),
        Err(p) => Err(format!("panic: {p}")),
    }
}

/// Off-circuit `prepare` through the value-recording transcript, with the identity log of the
/// off-circuit vanishing argument: dual MSM, recorded stream, identity fold.
#[allow(clippy::type_complexity)]
pub fn off_circuit_values<H: TranscriptHash>(
    inner: &Inner,
    insts: &[Vec<F>],
    commitments: &[C],
    proof: &[u8],
) -> Result<(DualMSM<Bls12>, Vec<(char, String)>, Option<midnight_proofs::plonk::verif_hooks::IdentityFold>), String>
where
    F: Hashable<H> + Sampleable<H>,
    C: Hashable<H>,
    CircuitTranscript<H>: Clone,
{
    use midnight_proofs::plonk::verif_hooks::{clear_identity_log, take_identity_log};
    let nc = inner.fp.n_committed;
    let plain: Vec<&[F]> = insts[nc..].iter().map(|c| &c[..]).collect();
    clear_identity_log();
    crate::verify::take_stream();
    let mut vt = crate::verify::ValTranscript::<H>::init_from_bytes(proof);
    let r = mzkh::catch(|| prepare::<F, Scheme, _>(inner.vk(), &[commitments], &[&plain[..]], &mut vt).map_err(|e| format!("{e:?}")));
    let stream = crate::verify::take_stream();
    let mut folds = take_identity_log();
    match r {
        Ok(Ok(g)) => Ok((g, stream, if folds.len() == 1 { folds.pop() } else { None })),
        Ok(Err(e)) => Err(e),
        Err(p) => Err(format!("panic: {p}")),
    }
}

/// The `gadget-verify` correspondence line of one `MockProver` run of a verifier circuit (whose
/// arithmetic log and accumulator value have just been recorded), and the in-circuit vs
/// off-circuit oracle.
#[allow(clippy::too_many_arguments)]
pub fn verify_case<H: TranscriptHash, S: midnight_circuits::verifier::SelfEmulation<F = F, C = C, Engine = Bls12>>(
    ctx: &mut Ctx,
    kind: &str,
    key: &str,
    desc: &serde_json::Value,
    inner: &Inner,
    insts: &[Vec<F>],
    commitments: &[C],
    proof: &[u8],
) where
    F: Hashable<H> + Sampleable<H>,
    C: Hashable<H>,
    CircuitTranscript<H>: Clone,
{
    let arith = crate::verify::take_arith();
    let in_acc = crate::verify::take_acc();
    let light_pi = crate::verify::take_light_pi();
    let (g, stream, fold) = match off_circuit_values::<H>(inner, insts, commitments, proof) {
        Ok(x) => x,
        Err(_) => {
            ctx.count(&format!("{kind}:off-circuit-error"));
            return;
        }
    };
    let fb = fixed_bases::<S>("inner_vk", inner.vk());
    let off_acc = crate::verify::acc_view::<S>(&Accumulator::<S>::from_dual_msm(g, "inner_vk", &fb));
    let in_acc = match in_acc.or_else(|| light_pi.and_then(|v| crate::verify::acc_of_light_pi(&v, &off_acc))) {
        Some(a) => a,
        None => {
            ctx.oracle_fail(&format!("verify-no-acc:{key}"), "the verifier circuit returned no accumulator value (or one of another shape than the off-circuit accumulator)", json!({"case": desc}));
            return;
        }
    };
    let ids_cs = crate::verify::ids_cs_string(inner.vk(), &inner.shape);
    let nc = inner.fp.n_committed;
    match crate::verify::build_lines::<H>(&ids_cs, nc, &insts[nc..], commitments, &stream, fold.as_ref(), &off_acc, &arith, &in_acc, "inner_vk") {
        Ok(l) => {
            ctx.case(kind, true, &l.op, &l.ans);
            ctx.count_n(&format!("{kind}:identity-values"), crate::verify::entry(&arith, "ids").map_or(0, |v| v.len()) as u64);
            ctx.count_n(&format!("{kind}:rhs-terms"), in_acc.rhs.terms.len() as u64);
            ctx.count_n(&format!("{kind}:rhs-fixed"), in_acc.rhs.fixed.len() as u64);
            if !l.diffs.is_empty() {
                ctx.oracle_fail(
                    &format!("in-vs-off:{key}"),
                    "the in-circuit verifier and the off-circuit verifier compute different values on the same proof",
                    json!({"case": desc, "kind": kind, "differences": l.diffs}),
                );
            }
        }
        Err(e) => ctx.oracle_fail(&format!("verify-log:{key}"), "incomplete in-circuit arithmetic log", json!({"case": desc, "error": e})),
    }
}

/// The instance vector of the light verifier circuit for a claimed accumulator.
pub fn light_instance(inner: &Inner, insts: &[Vec<F>], commitments: &[C], acc: &Accumulator<Light>) -> Vec<F> {
    let mut pi = AssignedVk::<Light>::as_public_input(inner.vk());
    for c in commitments {
        pi.extend(<FakePoint<C> as Instantiable<F>>::as_public_input(c));
    }
    for col in &insts[inner.fp.n_committed..] {
        pi.extend(col.iter().copied());
    }
    pi.extend(AssignedAccumulator::<Light>::as_public_input(acc));
    pi
}

pub fn light_circuit(inner: &Inner, insts: &[Vec<F>], commitments: &[C], proof: &[u8]) -> LightVerifierCircuit {
    LightVerifierCircuit {
        inner_vk: (inner.vk().get_domain().clone(), inner.vk().cs().clone(), Value::known(inner.vk().transcript_repr())),
        committed: commitments.iter().map(|c| Value::known(*c)).collect(),
        instances: insts[inner.fp.n_committed..].iter().map(|c| c.iter().map(|v| Value::known(*v)).collect()).collect(),
        proof: Value::known(proof.to_vec()),
    }
}

/// `MockProver::run` + `verify`; returns (satisfied, in-circuit transcript log) or an error text.
pub fn mock<Ci: Circuit<F>>(k: u32, circuit: &Ci, pi: Vec<F>) -> Result<(bool, Vec<TranscriptEvent>), String> {
    transcript_log_start();
    arith_log_start();
    let r = mzkh::catch(|| MockProver::run(k, circuit, vec![vec![], pi]).map_err(|e| format!("{e:?}")));
    let log = transcript_log_take();
    crate::verify::set_arith(arith_log_take());
    match r {
        Ok(Ok(p)) => {
            let ok = mzkh::catch(|| p.verify().is_ok()).map_err(|e| format!("verify panic: {e}"))?;
            Ok((ok, log))
        }
        Ok(Err(e)) => Err(e),
        Err(p) => Err(format!("panic: {p}")),
    }
}

/// Smallest `k` at which the circuit synthesises.
pub fn find_k<Ci: Circuit<F>>(from: u32, to: u32, circuit: &Ci, pi: &[F]) -> Option<u32> {
    (from..=to).find(|&k| matches!(mock(k, circuit, pi.to_vec()), Ok(_)))
}

fn acc_of(inner: &Inner, g: &DualMSM<Bls12>) -> Accumulator<Light> {
    let fb = fixed_bases::<Light>("inner_vk", inner.vk());
    Accumulator::<Light>::from_dual_msm(g.clone(), "inner_vk", &fb)
}

/// One inner circuit through the light back-end. `n_mut`: number of claimed-accumulator /
/// proof / public-input alterations tried (each costs one mock run).
pub fn run_light(ctx: &mut Ctx, setup: &mut Setup, fp: &FamParams, extra_k: u32, seed: u64, n_mut: usize) {
    run_light_opt(ctx, setup, fp, extra_k, seed, n_mut, false)
}

/// As `run_light`; `empty_plain`: see `make_inner_opt`.
pub fn run_light_opt(ctx: &mut Ctx, setup: &mut Setup, fp: &FamParams, extra_k: u32, seed: u64, n_mut: usize, empty_plain: bool) {
    type H = LightPoseidonFS<F>;
    let mut rng = ChaCha8Rng::seed_from_u64(seed ^ 0x5eed);
    let desc = json!({"backend": "light", "params": format!("{fp:?}"), "extra_k": extra_k, "seed": seed, "empty_plain": empty_plain});
    let key = format!("light:nc={},npl={},nl={}{}", fp.n_committed, fp.n_plain, fp.lookups.len(), if empty_plain { ",empty-plain" } else { "" });
    let inner = match make_inner_opt::<H>(setup, fp, extra_k, seed, empty_plain) {
        Ok(i) => i,
        Err(e) => {
            ctx.oracle_fail(&format!("inner-proof:{key}"), "key generation or honest inner proof failed", json!({"case": desc, "error": e}));
            return;
        }
    };
    ctx.count(&format!("light:inner_k={}", inner.k));
    ctx.count(&format!("light:lookups={}", fp.lookups.len()));
    ctx.count(&format!("light:nc={}", fp.n_committed));
    ctx.count(&format!("light:npl={}", fp.n_plain));
    let params = setup.get(inner.k).clone();
    let (g, off_tokens) = match off_circuit::<H>(&inner, &inner.insts, &inner.commitments, &inner.proof) {
        Ok(x) => x,
        Err(e) => {
            ctx.oracle_fail(&format!("inner-rejected:{key}"), "off-circuit prepare fails on an honest inner proof", json!({"case": desc, "error": e}));
            return;
        }
    };
    if !g.clone().check(&params.verifier_params()) {
        ctx.oracle_fail(&format!("inner-rejected:{key}"), "honest inner proof fails the pairing check", json!({"case": desc}));
        return;
    }
    let acc = acc_of(&inner, &g);
    let pi = light_instance(&inner, &inner.insts, &inner.commitments, &acc);
    let circuit = light_circuit(&inner, &inner.insts, &inner.commitments, &inner.proof);
    let outer_k = match find_k(10, 17, &circuit, &pi) {
        Some(k) => k,
        None => {
            let e = mock(17, &circuit, pi.clone()).err();
            // Known limitation of the light back-end (findings/C20.json): a commitment that is read from the
            // proof but never opened (an advice column without any query) never enters the accumulator, so
            // `FakeCurveChip::finalize` panics. Keyed by the condition, not by the family member.
            let cs = inner.vk().cs();
            let unqueried = (0..cs.num_advice_columns()).any(|i| !cs.advice_queries().iter().any(|(c, _)| c.index() == i));
            if unqueried && e.as_deref().unwrap_or("").contains("FakePoint") {
                ctx.oracle_fail("gadget-fails:light:unqueried-advice-column", "light back-end: the verifier circuit panics (FakeCurveChip::finalize) for an inner circuit with an advice column that is never queried", json!({"case": desc, "error": e, "shape": inner.shape}));
                return;
            }
            // Regression cases of a repaired defect (findings/C20.json, `fixed`): `verify_algebraic_constraints`
            // took `.min().unwrap()` / `.max().unwrap()` over the instance queries and `inner_product` of an
            // instance column without values, so an inner constraint system without any instance query, or a
            // plain instance column without values, panicked, while the off-circuit verifier accepts such
            // proofs. Stable keys, so that a reappearance is reported under the same name.
            if cs.instance_queries().is_empty() && e.as_deref().unwrap_or("").contains("unwrap()") {
                ctx.oracle_fail("gadget-fails:no-instance-query", "the verifier circuit panics (Option::unwrap on None) for an inner circuit without instance queries, which the off-circuit verifier accepts", json!({"case": desc, "error": e, "shape": inner.shape}));
                return;
            }
            if empty_plain && e.as_deref().unwrap_or("").contains("inner_product received an empty input") {
                ctx.oracle_fail("gadget-fails:empty-plain-column", "the verifier circuit panics (inner_product of an empty input) for a plain instance column without values, which the off-circuit verifier accepts", json!({"case": desc, "error": e, "shape": inner.shape}));
                return;
            }
            ctx.oracle_fail(&format!("gadget-fails:{key}"), "the verifier circuit cannot be synthesised on an honest inner proof", json!({"case": desc, "error": e, "shape": inner.shape}));
            return;
        }
    };
    ctx.count(&format!("light:outer_k={outer_k}"));
    let (ok, log) = mock(outer_k, &circuit, pi.clone()).unwrap();
    // (1) schedule
    match gadget_tokens(&log) {
        Ok((tokens, pieces)) => {
            ctx.case("gadget-sched", true, &format!("gadget-sched {} {}", inner.shape, inner.cfg()), &tokens);
            ctx.case("gadget-prooflen", true, &format!("gadget-prooflen {} {}", inner.shape, inner.cfg()), &inner.proof.len().to_string());
            if pieces != vec![1] {
                ctx.oracle_fail("light:pieces", "a fake point is not absorbed as exactly one field element", json!({"case": desc, "pieces": pieces}));
            }
            if tokens != off_tokens {
                ctx.oracle_fail(&format!("sched-differs:{key}"), "in-circuit and off-circuit verifiers perform different transcript operations", json!({"case": desc, "in": tokens, "off": off_tokens}));
            }
        }
        Err(e) => ctx.oracle_fail("gadget-log", "malformed in-circuit transcript log", json!({"case": desc, "error": e})),
    }
    // (2a) arithmetic of the gadget: in-circuit log vs off-circuit log vs Lean model (also when the
    // circuit is unsatisfied: the line then says where the two verifiers part)
    verify_case::<H, Light>(ctx, "gadget-verify", &key, &desc, &inner, &inner.insts, &inner.commitments, &inner.proof);
    // (2) same accumulator
    if !ok {
        ctx.oracle_fail(&format!("acc-differs:{key}"), "verifier circuit unsatisfied with the off-circuit accumulator of an honest proof", json!({"case": desc, "shape": inner.shape}));
        return;
    }
    ctx.count("light:honest-accepted");
    // (3) any other claimed instance is rejected
    let acc_start = pi.len() - AssignedAccumulator::<Light>::as_public_input(&acc).len();
    ctx.count_n("light:pi_len", pi.len() as u64);
    for m in 0..n_mut {
        // first the vk identity and one inner public input, then accumulator entries
        let idx = match m {
            0 => 0,
            1 => 1.min(pi.len() - 1),
            _ => rng.gen_range(acc_start..pi.len()),
        };
        let mut pi2 = pi.clone();
        pi2[idx] += if m % 2 == 0 { F::ONE } else { F::random(&mut rng) + F::ONE };
        if pi2 == pi {
            continue;
        }
        ctx.count(if idx >= acc_start { "light:claimed-acc-altered" } else { "light:claimed-vk-or-pi-altered" });
        match mock(outer_k, &circuit, pi2) {
            Ok((false, _)) => {}
            Ok((true, _)) => ctx.oracle_fail(&format!("accepts-other-instance:{key}"), "verifier circuit satisfied with an altered claimed accumulator / vk identity / public input", json!({"case": desc, "index": idx, "acc_start": acc_start})),
            Err(e) => ctx.oracle_fail(&format!("gadget-fails:{key}"), "verifier circuit fails to synthesise", json!({"case": desc, "error": e})),
        }
    }
    // (4) corrupted inner proof / inner public input: both verifiers derive the same (invalid)
    // accumulator; the honest accumulator is not accepted for it
    for m in 0..n_mut.min(3) {
        let mut proof2 = inner.proof.clone();
        let mut insts2 = inner.insts.clone();
        let what = if m == 1 && insts2[fp.n_committed..].first().is_some_and(|c| !c.is_empty()) {
            let c = fp.n_committed;
            insts2[c][0] += F::ONE;
            "public-input"
        } else {
            // alter one scalar of the proof (the last 48+32·sets+… bytes hold evaluations): pick a
            // 32-byte window that decodes as a scalar, add one
            let nscalars = 3usize;
            let off = proof2.len() - 48 - 32 * (1 + rng.gen_range(0..nscalars));
            let mut repr = <F as ff::PrimeField>::Repr::default();
            repr.as_mut().copy_from_slice(&proof2[off..off + 32]);
            match Option::<F>::from(<F as ff::PrimeField>::from_repr(repr)) {
                Some(v) => {
                    let b = <F as ff::PrimeField>::to_repr(&(v + F::ONE));
                    proof2[off..off + 32].copy_from_slice(b.as_ref());
                    "proof-scalar"
                }
                None => continue,
            }
        };
        ctx.count(&format!("light:corrupt:{what}"));
        let circuit2 = light_circuit(&inner, &insts2, &inner.commitments, &proof2);
        match off_circuit::<H>(&inner, &insts2, &inner.commitments, &proof2) {
            Ok((g2, _)) => {
                let valid = g2.clone().check(&params.verifier_params());
                if valid {
                    ctx.oracle_fail(&format!("inner-accepts-corrupt:{what}"), "off-circuit verifier accepts a corrupted inner proof / public input", json!({"case": desc, "what": what}));
                }
                let acc2 = acc_of(&inner, &g2);
                let pi2 = light_instance(&inner, &insts2, &inner.commitments, &acc2);
                match mock(outer_k, &circuit2, pi2) {
                    Ok((true, _)) => {
                        ctx.count("light:corrupt:same-invalid-acc");
                        verify_case::<H, Light>(ctx, "gadget-verify-corrupt", &key, &desc, &inner, &insts2, &inner.commitments, &proof2);
                    }
                    other => ctx.oracle_fail(&format!("acc-differs-corrupt:{what}"), "in-circuit and off-circuit accumulators differ on a corrupted inner proof", json!({"case": desc, "what": what, "result": format!("{other:?}")})),
                }
                // claimed: the honest accumulator (with the instance the circuit is given)
                let pi3 = light_instance(&inner, &insts2, &inner.commitments, &acc);
                match mock(outer_k, &circuit2, pi3) {
                    Ok((false, _)) => {}
                    other => ctx.oracle_fail(&format!("accepts-honest-acc-for-corrupt:{what}"), "verifier circuit accepts the accumulator of the honest proof for a corrupted proof / public input", json!({"case": desc, "what": what, "result": format!("{:?}", other.map(|x| x.0))})),
                }
            }
            Err(e) => {
                ctx.count("light:corrupt:off-circuit-error");
                let _ = e;
            }
        }
    }
}


/// (H1) tamper sweep inside the light verifier circuit: the `i`-th advice value handed to the
/// backend is replaced (`+1`); with the honest instance the circuit must become unsatisfied,
/// i.e. every advice cell of the verifier circuit is constrained. Returns (tried, rejected).
pub fn tamper_light(ctx: &mut Ctx, setup: &mut Setup, fp: &FamParams, seed: u64, n: usize) {
    use midnight_proofs::circuit::verif_hooks::{counter, set_plan, take_plan, TamperPlan};
    type H = LightPoseidonFS<F>;
    let mut rng = ChaCha8Rng::seed_from_u64(seed ^ 0x7a3b);
    let inner = match make_inner::<H>(setup, fp, 0, seed) {
        Ok(i) => i,
        Err(_) => return,
    };
    let (g, _) = match off_circuit::<H>(&inner, &inner.insts, &inner.commitments, &inner.proof) {
        Ok(x) => x,
        Err(_) => return,
    };
    let acc = acc_of(&inner, &g);
    let pi = light_instance(&inner, &inner.insts, &inner.commitments, &acc);
    let circuit = light_circuit(&inner, &inner.insts, &inner.commitments, &inner.proof);
    let outer_k = match find_k(10, 17, &circuit, &pi) {
        Some(k) => k,
        None => return,
    };
    // number of advice assignments of one synthesis
    set_plan::<F>(TamperPlan::new(vec![]));
    let _ = mock(outer_k, &circuit, pi.clone());
    let total = counter::<F>();
    let _ = take_plan::<F>();
    ctx.set_extra("light_verifier_advice_assignments", json!(total));
    if total == 0 {
        return;
    }
    for _ in 0..n {
        let idx = rng.gen_range(0..total);
        set_plan::<F>(TamperPlan::new(vec![(idx, Box::new(|v: F| v + F::ONE))]));
        let r = mock(outer_k, &circuit, pi.clone());
        let hits = take_plan::<F>().map(|p| p.hits.len()).unwrap_or(0);
        if hits != 1 {
            continue;
        }
        ctx.count("light:tamper");
        match r {
            Ok((false, _)) => ctx.count("light:tamper:rejected"),
            Ok((true, _)) => {
                ctx.count("light:tamper:accepted");
                ctx.oracle_fail(
                    "light:tamper-accepted",
                    "verifier circuit (light back-end) satisfied although one advice value was altered: unconstrained cell",
                    json!({"params": format!("{fp:?}"), "seed": seed, "advice_index": idx, "total": total}),
                );
            }
            Err(_) => ctx.count("light:tamper:synthesis-error"),
        }
    }
}

// ---------------------------------------------------------------------------------------------
// The verifier circuit over the foreign-curve back-end (layout of the repository's
// `test_verify_proof`): accumulator collapsed in-circuit, instance = (vk identity, accumulator).
// ---------------------------------------------------------------------------------------------

use midnight_circuits::{
    ecc::{
        curves::CircuitCurve,
        foreign::{nb_foreign_ecc_chip_columns, ForeignEccChip, ForeignEccConfig},
    },
    field::{
        decomposition::{
            chip::{P2RDecompositionChip, P2RDecompositionConfig},
            pow2range::Pow2RangeChip,
        },
        foreign::FieldChip,
        NativeGadget,
    },
    hash::poseidon::PoseidonState,
    verifier::BlstrsEmulation,
};

type Foreign = BlstrsEmulation;
type CBase = <C as CircuitCurve>::Base;
type NG = NativeGadget<F, P2RDecompositionChip<F>, NativeChip<F>>;

#[derive(Clone, Debug)]
pub struct ForeignVerifierCircuit {
    pub inner_vk: (EvaluationDomain<F>, ConstraintSystem<F>, Value<F>),
    pub committed: Vec<Value<C>>,
    pub instances: Vec<Vec<Value<F>>>,
    pub proof: Value<Vec<u8>>,
}

impl Circuit<F> for ForeignVerifierCircuit {
    type Config = (NativeConfig, P2RDecompositionConfig, ForeignEccConfig<C>, PoseidonConfig<F>);
    type FloorPlanner = SimpleFloorPlanner;
    type Params = ();

    fn without_witnesses(&self) -> Self {
        unreachable!()
    }

    fn configure(meta: &mut ConstraintSystem<F>) -> Self::Config {
        let nb_advice_cols = nb_foreign_ecc_chip_columns::<F, C, C, NG>();
        let nb_fixed_cols = NB_ARITH_COLS + 4;
        let advice_columns: Vec<_> = (0..nb_advice_cols).map(|_| meta.advice_column()).collect();
        let fixed_columns: Vec<_> = (0..nb_fixed_cols).map(|_| meta.fixed_column()).collect();
        let committed_instance_column = meta.instance_column();
        let instance_column = meta.instance_column();
        let native_config = NativeChip::configure(
            meta,
            &(
                advice_columns[..NB_ARITH_COLS].try_into().unwrap(),
                fixed_columns[..NB_ARITH_COLS + 4].try_into().unwrap(),
                [committed_instance_column, instance_column],
            ),
        );
        let core_decomp_config = {
            let pow2_config = Pow2RangeChip::configure(meta, &advice_columns[1..NB_ARITH_COLS]);
            P2RDecompositionChip::configure(meta, &(native_config.clone(), pow2_config))
        };
        let base_config = FieldChip::<F, CBase, C, NG>::configure(meta, &advice_columns);
        let curve_config = ForeignEccChip::<F, C, C, NG, NG>::configure(meta, &base_config, &advice_columns);
        let poseidon_config = PoseidonChip::configure(
            meta,
            &(
                advice_columns[..NB_POSEIDON_ADVICE_COLS].try_into().unwrap(),
                fixed_columns[..NB_POSEIDON_FIXED_COLS].try_into().unwrap(),
            ),
        );
        (native_config, core_decomp_config, curve_config, poseidon_config)
    }

    fn synthesize(&self, config: Self::Config, mut layouter: impl Layouter<F>) -> Result<(), Error> {
        let native_chip = <NativeChip<F> as ComposableChip<F>>::new(&config.0, &());
        let core_decomp_chip = P2RDecompositionChip::new(&config.1, &16);
        let native_gadget = NativeGadget::new(core_decomp_chip.clone(), native_chip.clone());
        let curve_chip = ForeignEccChip::new(&config.2, &native_gadget, &native_gadget);
        let poseidon_chip = PoseidonChip::new(&config.3, &native_chip);
        let verifier = VerifierGadget::<Foreign>::new(&curve_chip, &native_gadget, &poseidon_chip);

        let vk: AssignedVk<Foreign> =
            verifier.assign_vk_as_public_input(&mut layouter, "inner_vk", &self.inner_vk.0, &self.inner_vk.1, self.inner_vk.2)?;
        let committed = self
            .committed
            .iter()
            .map(|p| curve_chip.assign(&mut layouter, *p))
            .collect::<Result<Vec<_>, Error>>()?;
        let instances: Vec<Vec<AssignedNative<F>>> = self
            .instances
            .iter()
            .map(|col| native_gadget.assign_many(&mut layouter, col))
            .collect::<Result<_, Error>>()?;
        let inst_refs: Vec<&[AssignedNative<F>]> = instances.iter().map(|c| &c[..]).collect();

        let mut acc = verifier.prepare(&mut layouter, &vk, &committed, &inst_refs, self.proof.clone())?;
        acc.value().map(|a| crate::verify::stash_acc(Some(crate::verify::acc_view::<Foreign>(&a))));
        acc.collapse(&mut layouter, &curve_chip, &native_gadget)?;
        verifier.constrain_as_public_input(&mut layouter, &acc)?;
        core_decomp_chip.load(&mut layouter)
    }
}

pub fn foreign_instance(inner: &Inner, acc: &Accumulator<Foreign>) -> Vec<F> {
    let mut pi = AssignedVk::<Foreign>::as_public_input(inner.vk());
    pi.extend(AssignedAccumulator::<Foreign>::as_public_input(acc));
    pi
}

/// One inner circuit through the foreign-curve back-end at outer `k`.
pub fn run_foreign(ctx: &mut Ctx, setup: &mut Setup, fp: &FamParams, extra_k: u32, seed: u64, outer_k: u32, n_mut: usize) {
    type H = PoseidonState<F>;
    let t0 = std::time::Instant::now();
    let mut rng = ChaCha8Rng::seed_from_u64(seed ^ 0xf0e1);
    let desc = json!({"backend": "foreign", "params": format!("{fp:?}"), "extra_k": extra_k, "seed": seed, "outer_k": outer_k});
    let key = format!("foreign:nc={},npl={},nl={}", fp.n_committed, fp.n_plain, fp.lookups.len());
    let inner = match make_inner::<H>(setup, fp, extra_k, seed) {
        Ok(i) => i,
        Err(e) => {
            ctx.oracle_fail(&format!("inner-proof:{key}"), "key generation or honest inner proof failed", json!({"case": desc, "error": e}));
            return;
        }
    };
    ctx.count(&format!("foreign:inner_k={}", inner.k));
    ctx.count(&format!("foreign:lookups={}", fp.lookups.len()));
    let params = setup.get(inner.k).clone();
    let (g, off_tokens) = match off_circuit::<H>(&inner, &inner.insts, &inner.commitments, &inner.proof) {
        Ok(x) => x,
        Err(e) => {
            ctx.oracle_fail(&format!("inner-rejected:{key}"), "off-circuit prepare fails on an honest inner proof", json!({"case": desc, "error": e}));
            return;
        }
    };
    if !g.clone().check(&params.verifier_params()) {
        ctx.oracle_fail(&format!("inner-rejected:{key}"), "honest inner proof fails the pairing check", json!({"case": desc}));
        return;
    }
    let fb = fixed_bases::<Foreign>("inner_vk", inner.vk());
    let mut acc = Accumulator::<Foreign>::from_dual_msm(g.clone(), "inner_vk", &fb);
    if !acc.check(&params.s_g2().into(), &fb) {
        ctx.oracle_fail(&format!("acc-check:{key}"), "accumulator of an honest proof fails Accumulator::check", json!({"case": desc}));
    }
    acc.collapse();
    let pi = foreign_instance(&inner, &acc);
    let nc = fp.n_committed;
    let circuit = ForeignVerifierCircuit {
        inner_vk: (inner.vk().get_domain().clone(), inner.vk().cs().clone(), Value::known(inner.vk().transcript_repr())),
        committed: inner.commitments.iter().map(|c| Value::known(*c)).collect(),
        instances: inner.insts[nc..].iter().map(|c| c.iter().map(|v| Value::known(*v)).collect()).collect(),
        proof: Value::known(inner.proof.clone()),
    };
    let (ok, log) = match mock(outer_k, &circuit, pi.clone()) {
        Ok(x) => x,
        Err(e) => {
            ctx.oracle_fail(&format!("gadget-fails:{key}"), "the verifier circuit cannot be synthesised on an honest inner proof", json!({"case": desc, "error": e, "shape": inner.shape}));
            return;
        }
    };
    match gadget_tokens(&log) {
        Ok((tokens, pieces)) => {
            ctx.case("gadget-sched", true, &format!("gadget-sched {} {}", inner.shape, inner.cfg()), &tokens);
            ctx.set_extra("foreign_point_pieces", json!(pieces));
            if tokens != off_tokens {
                ctx.oracle_fail(&format!("sched-differs:{key}"), "in-circuit and off-circuit verifiers perform different transcript operations", json!({"case": desc, "in": tokens, "off": off_tokens}));
            }
        }
        Err(e) => ctx.oracle_fail("gadget-log", "malformed in-circuit transcript log", json!({"case": desc, "error": e})),
    }
    verify_case::<H, Foreign>(ctx, "gadget-verify-foreign", &key, &desc, &inner, &inner.insts, &inner.commitments, &inner.proof);
    if !ok {
        ctx.oracle_fail(&format!("acc-differs:{key}"), "verifier circuit unsatisfied with the off-circuit accumulator of an honest proof", json!({"case": desc, "shape": inner.shape}));
        return;
    }
    ctx.count("foreign:honest-accepted");
    ctx.count_n("foreign:pi_len", pi.len() as u64);
    for m in 0..n_mut {
        let idx = if m == 0 { 0 } else { rng.gen_range(1..pi.len()) };
        let mut pi2 = pi.clone();
        pi2[idx] += F::ONE;
        ctx.count(if idx > 0 { "foreign:claimed-acc-altered" } else { "foreign:claimed-vk-altered" });
        match mock(outer_k, &circuit, pi2) {
            Ok((false, _)) => {}
            Ok((true, _)) => ctx.oracle_fail(&format!("accepts-other-instance:{key}"), "verifier circuit satisfied with an altered claimed accumulator / vk identity", json!({"case": desc, "index": idx})),
            Err(e) => ctx.oracle_fail(&format!("gadget-fails:{key}"), "verifier circuit fails to synthesise", json!({"case": desc, "error": e})),
        }
    }
    ctx.set_extra(&format!("foreign_seconds_seed{seed}"), json!(t0.elapsed().as_secs()));
}
