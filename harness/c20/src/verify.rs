//! Three-way tie of the arithmetic of the in-circuit verifier (`gadget-verify` lines):
//!
//!  * IN-CIRCUIT: the hooked log of the intermediate scalars of a `MockProver` run of the verifier
//!    circuit (`midnight_circuits::verifier::verif_hooks::arith_log_*`: challenges, instance
//!    evaluations, `l_0 / l_last / l_blind`, every identity value, `x^n`, `expected_h_eval`, the
//!    `x1`-combined evaluation sets, `f_eval`, `v`) and the value of the accumulator the gadget
//!    returns (bases, scalars in order, named fixed-base scalars);
//!  * OFF-CIRCUIT: the real `plonk::prepare` on the same proof through a transcript that records
//!    every scalar read / challenge squeezed / point read, with the hooked identity log of
//!    `vanishing::verifier::PartiallyEvaluated::verify`, and `Accumulator::from_dual_msm`;
//!  * MODEL: the Lean model of the gadget (`Model/C20/Verify*.lean`, `MultiOpen.lean`) fed with
//!    the constraint system and the recorded scalar stream.
//!
//! In-circuit vs off-circuit differences are oracle failures (the property statement: same
//! accumulator, same intermediate values); in-circuit vs model is the `gadget-verify` line.

use std::cell::RefCell;
use std::io;

use midnight_circuits::verifier::{Accumulator, Msm, SelfEmulation};
use midnight_curves::{Fq as F, G1Projective as C};
use midnight_proofs::{
    plonk::{verif_hooks::IdentityFold, Any, VerifyingKey},
    poly::kzg::KZGCommitmentScheme,
    transcript::{CircuitTranscript, Hashable, Sampleable, Transcript, TranscriptHash},
};
use mzkh::csdump::expr_string;

type Scheme = KZGCommitmentScheme<midnight_curves::Bls12>;

thread_local! {
    /// ('R' | 'S' | 'G', canonical hex without prefix / hex of the encoding)
    static STREAM: RefCell<Vec<(char, String)>> = const { RefCell::new(Vec::new()) };
    /// Accumulator value stashed by the verifier circuit of the harness during synthesis.
    static ACC: RefCell<Option<AccView>> = const { RefCell::new(None) };
    /// Arithmetic log of the last `mock` run.
    static ARITH: RefCell<Vec<(String, Vec<Vec<u8>>)>> = const { RefCell::new(Vec::new()) };
}

pub fn take_stream() -> Vec<(char, String)> {
    STREAM.with(|l| std::mem::take(&mut *l.borrow_mut()))
}

pub fn set_arith(v: Vec<(String, Vec<Vec<u8>>)>) {
    ARITH.with(|l| *l.borrow_mut() = v);
}

pub fn take_arith() -> Vec<(String, Vec<Vec<u8>>)> {
    ARITH.with(|l| std::mem::take(&mut *l.borrow_mut()))
}

fn is_scalar<T>() -> bool {
    let n = std::any::type_name::<T>();
    let base = n.split('<').next().unwrap_or(n);
    matches!(base.rsplit("::").next().unwrap_or(base), "Fq" | "Scalar" | "Fr")
}

fn push(kind: char, hex: String) {
    STREAM.with(|l| l.borrow_mut().push((kind, hex)));
}

/// A `Transcript` delegating to `CircuitTranscript<H>` that records the value of every scalar
/// read from the proof ('R'), of every squeezed challenge ('S', learnt by squeezing a clone
/// first) and the encoding of every point read ('G'), in order.
#[derive(Clone, Debug)]
pub struct ValTranscript<H: TranscriptHash> {
    inner: CircuitTranscript<H>,
}

impl<H: TranscriptHash> Transcript for ValTranscript<H>
where
    F: Sampleable<H>,
    CircuitTranscript<H>: Clone,
{
    type Hash = H;

    fn init() -> Self {
        Self { inner: CircuitTranscript::<H>::init() }
    }

    fn init_from_bytes(bytes: &[u8]) -> Self {
        Self { inner: CircuitTranscript::<H>::init_from_bytes(bytes) }
    }

    fn squeeze_challenge<T: Sampleable<H>>(&mut self) -> T {
        if is_scalar::<T>() {
            let mut c = self.inner.clone();
            let v: F = c.squeeze_challenge();
            push('S', mzkh::fe_hex(&v)[2..].to_string());
        } else {
            push('S', "?".to_string());
        }
        self.inner.squeeze_challenge()
    }

    fn common<T: Hashable<H>>(&mut self, input: &T) -> io::Result<()> {
        self.inner.common(input)
    }

    fn read<T: Hashable<H>>(&mut self) -> io::Result<T> {
        let v: T = self.inner.read()?;
        if is_scalar::<T>() {
            push('R', mzkh::le_bytes_hex(&v.to_bytes())[2..].to_string());
        } else {
            push('G', v.to_bytes().iter().map(|b| format!("{b:02x}")).collect());
        }
        Ok(v)
    }

    fn write<T: Hashable<H>>(&mut self, input: &T) -> io::Result<()> {
        self.inner.write(input)
    }

    fn finalize(self) -> Vec<u8> {
        self.inner.finalize()
    }

    fn assert_empty(&mut self) -> io::Result<()> {
        self.inner.assert_empty()
    }
}

fn list(v: Vec<String>, sep: &str) -> String {
    if v.is_empty() {
        "-".to_string()
    } else {
        v.join(sep)
    }
}

/// What the verifier reads of `vk`: `shape_string` followed by the polynomials of every gate
/// (`gp` = polynomials per gate), the lookup and trash arguments and the permutation columns.
pub fn ids_cs_string(vk: &VerifyingKey<F, Scheme>, shape: &str) -> String {
    let cs = vk.cs();
    let gp: Vec<String> = cs.gates().iter().map(|g| g.polynomials().len().to_string()).collect();
    let gates: Vec<String> = cs.gates().iter().flat_map(|g| g.polynomials().iter().map(expr_string)).collect();
    let lookups: Vec<String> = cs
        .lookups()
        .iter()
        .map(|l| {
            format!(
                "{}>{}",
                list(l.input_expressions().iter().map(expr_string).collect(), "|"),
                list(l.table_expressions().iter().map(expr_string).collect(), "|")
            )
        })
        .collect();
    let trash: Vec<String> = cs
        .trashcans()
        .iter()
        .map(|t| {
            format!(
                "{}>{}",
                expr_string(t.selector()),
                list(t.constraint_expressions().iter().map(expr_string).collect(), "|")
            )
        })
        .collect();
    let pcols: Vec<String> = cs
        .permutation()
        .get_columns()
        .iter()
        .map(|c| {
            let kind = match c.column_type() {
                Any::Advice(_) => "a",
                Any::Fixed => "f",
                Any::Instance => "i",
            };
            format!("{kind}{}", c.index())
        })
        .collect();
    format!(
        "{} gp={} gates={} lookups={} trash={} pcols={}",
        shape,
        list(gp, ","),
        list(gates, ";"),
        list(lookups, ";"),
        list(trash, ";"),
        list(pcols, ",")
    )
}

/// Plain view of an accumulator: per side the variable terms (encoded base, scalar) in order and
/// the fixed-base scalars in key order.
#[derive(Clone, Debug, PartialEq)]
pub struct AccView {
    pub lhs: MsmView,
    pub rhs: MsmView,
}

#[derive(Clone, Debug, PartialEq)]
pub struct MsmView {
    /// (key of the base: `base_key`, scalar)
    pub terms: Vec<(String, String)>,
    pub fixed: Vec<(String, String)>,
}

/// Canonical identity of a base: the single field element a point is absorbed / exposed as by the
/// light back-end (`FakePoint::as_public_input` = SHA-512 of the encoding, reduced), which is
/// all the light verifier circuit ever sees of a point.
pub fn base_key(p: &C) -> String {
    let v = <C as Hashable<midnight_aggregator::verif_hooks::LightPoseidonFS<F>>>::to_input(p);
    mzkh::fe_hex(&v[0])
}

/// Decodes the encoding recorded by `ValTranscript::read` for a point.
fn point_of_hex<H: TranscriptHash>(h: &str) -> Result<C, String>
where
    C: Hashable<H>,
{
    let bytes: Vec<u8> = (0..h.len() / 2).map(|i| u8::from_str_radix(&h[2 * i..2 * i + 2], 16).unwrap()).collect();
    <C as Hashable<H>>::read(&mut &bytes[..]).map_err(|e| format!("cannot decode a recorded point: {e:?}"))
}

pub fn msm_view<S: SelfEmulation<F = F, C = C>>(m: &Msm<S>) -> MsmView {
    MsmView {
        terms: m.bases().iter().zip(m.scalars().iter()).map(|(b, s)| (base_key(b), mzkh::fe_hex(s))).collect(),
        fixed: m.fixed_base_scalars().iter().map(|(k, s)| (k.clone(), mzkh::fe_hex(s))).collect(),
    }
}

pub fn acc_view<S: SelfEmulation<F = F, C = C>>(a: &Accumulator<S>) -> AccView {
    AccView { lhs: msm_view::<S>(&a.lhs()), rhs: msm_view::<S>(&a.rhs()) }
}

/// The accumulator of the light verifier circuit from its public-input vector
/// (`VerifierGadget::as_public_input`: per side the pieces of every base — one per point for the
/// light back-end —, the scalars, the fixed-base scalars in key order), split with the shape
/// (numbers of terms, fixed-base names) of `shape`.
pub fn acc_of_light_pi(v: &[F], shape: &AccView) -> Option<AccView> {
    let mut it = v.iter();
    let mut side = |sh: &MsmView| -> Option<MsmView> {
        let n = sh.terms.len();
        let bases: Vec<String> = (0..n).map(|_| it.next().map(mzkh::fe_hex)).collect::<Option<_>>()?;
        let scalars: Vec<String> = (0..n).map(|_| it.next().map(mzkh::fe_hex)).collect::<Option<_>>()?;
        let fixed: Vec<(String, String)> =
            sh.fixed.iter().map(|(k, _)| it.next().map(|s| (k.clone(), mzkh::fe_hex(s)))).collect::<Option<_>>()?;
        Some(MsmView { terms: bases.into_iter().zip(scalars).collect(), fixed })
    };
    let lhs = side(&shape.lhs)?;
    let rhs = side(&shape.rhs)?;
    if it.next().is_some() {
        return None;
    }
    Some(AccView { lhs, rhs })
}

thread_local! {
    static LIGHT_PI: RefCell<Option<Vec<F>>> = const { RefCell::new(None) };
}

/// Called by the light verifier circuit with the values of `VerifierGadget::as_public_input(acc)`.
pub fn stash_light_pi(v: Vec<F>) {
    LIGHT_PI.with(|a| *a.borrow_mut() = Some(v));
}

pub fn take_light_pi() -> Option<Vec<F>> {
    LIGHT_PI.with(|a| a.borrow_mut().take())
}

/// Called by the verifier circuits of the harness with the value of the accumulator returned by
/// `VerifierGadget::prepare` (before any `collapse`).
pub fn stash_acc(v: Option<AccView>) {
    ACC.with(|a| *a.borrow_mut() = v);
}

pub fn take_acc() -> Option<AccView> {
    ACC.with(|a| a.borrow_mut().take())
}

/// Class of every point of `ic ++ read points`: first position with an equal encoding.
pub fn classes(points: &[String]) -> Vec<usize> {
    points.iter().map(|p| points.iter().position(|q| q == p).unwrap()).collect()
}

fn label(points: &[String], p: &str) -> String {
    match points.iter().position(|q| q == p) {
        Some(i) => format!("B{i}"),
        None => "B?".to_string(),
    }
}

pub fn fmt_msm(points: &[String], m: &MsmView) -> String {
    let terms: Vec<String> = m.terms.iter().map(|(b, s)| format!("{}:{}", label(points, b), s)).collect();
    let fixed: Vec<String> = m.fixed.iter().map(|(k, s)| format!("{k}={s}")).collect();
    format!("{}|{}", list(terms, ","), list(fixed, ","))
}

pub fn hexes(v: &[Vec<u8>]) -> String {
    list(v.iter().map(|b| mzkh::le_bytes_hex(b)).collect(), ",")
}

pub fn entry<'a>(log: &'a [(String, Vec<Vec<u8>>)], label: &str) -> Option<&'a Vec<Vec<u8>>> {
    log.iter().find(|(l, _)| l == label).map(|(_, v)| v)
}

pub fn entries<'a>(log: &'a [(String, Vec<Vec<u8>>)], label: &str) -> Vec<&'a Vec<Vec<u8>>> {
    log.iter().filter(|(l, _)| l == label).map(|(_, v)| v).collect()
}

/// The `gadget-verify` request line and the implementation's answer (from the in-circuit log and
/// the in-circuit accumulator), plus the list of differences between the in-circuit values and the
/// off-circuit ones (stream challenges, identity log, accumulator).
pub struct VerifyLines {
    pub op: String,
    pub ans: String,
    pub diffs: Vec<String>,
}

#[allow(clippy::too_many_arguments)]
pub fn build_lines<H: TranscriptHash>(
    ids_cs: &str,
    nc: usize,
    plain: &[Vec<F>],
    committed: &[C],
    stream: &[(char, String)],
    fold: Option<&IdentityFold>,
    off_acc: &AccView,
    arith: &[(String, Vec<Vec<u8>>)],
    in_acc: &AccView,
    prefix: &str,
) -> Result<VerifyLines, String>
where
    C: Hashable<H>,
{
    let mut points: Vec<String> = committed.iter().map(base_key).collect();
    for (_, h) in stream.iter().filter(|(k, _)| *k == 'G') {
        points.push(base_key(&point_of_hex::<H>(h)?));
    }
    let cls = classes(&points);
    let inst_s = if plain.is_empty() {
        "_".to_string()
    } else {
        plain
            .iter()
            .map(|c| list(c.iter().map(|v| mzkh::fe_hex(v)[2..].to_string()).collect(), ","))
            .collect::<Vec<_>>()
            .join("/")
    };
    let tr_s = list(stream.iter().filter(|(k, _)| *k != 'G').map(|(k, h)| format!("{k}{h}")).collect(), ",");
    let op = format!(
        "gadget-verify p=73eda753299d7d483339d80809a1d80553bda402fffe5bfeffffffff00000001 {} nc={} inst={} tr={} cls={} pfx={}",
        ids_cs,
        nc,
        inst_s,
        tr_s,
        mzkh::join(&cls),
        prefix
    );
    let get = |l: &str| entry(arith, l).ok_or_else(|| format!("in-circuit log has no entry {l}"));
    let ie = get("instance_evals")?;
    let lag = get("lagrange")?;
    let ids = get("ids")?;
    let xn = get("xn")?;
    let h = get("expected_h")?;
    let qes = entries(arith, "q_eval_set");
    let x34f = get("x3x4_f_eval")?;
    let v = get("v")?;
    let ans = format!(
        "ie={} lag={} n={} ids={} xn={} h={} qes={} fe={} v={} lhs={} rhs={} off=1 offv=1 inj=1 wf=1",
        hexes(ie),
        hexes(lag),
        ids.len(),
        hexes(ids),
        hexes(xn),
        hexes(h),
        qes.iter().map(|s| hexes(s)).collect::<Vec<_>>().join(";"),
        mzkh::le_bytes_hex(&x34f[2]),
        hexes(v),
        fmt_msm(&points, &in_acc.lhs),
        fmt_msm(&points, &in_acc.rhs)
    );
    // in-circuit vs off-circuit
    let mut diffs = vec![];
    let sq: Vec<String> = stream.iter().filter(|(k, _)| *k == 'S').map(|(_, h)| format!("0x{h}")).collect();
    let ch = get("challenges")?;
    let x12 = get("x1x2")?;
    let mut in_ch: Vec<String> = ch.iter().map(|b| mzkh::le_bytes_hex(b)).collect();
    in_ch.extend(x12.iter().map(|b| mzkh::le_bytes_hex(b)));
    in_ch.push(mzkh::le_bytes_hex(&x34f[0]));
    in_ch.push(mzkh::le_bytes_hex(&x34f[1]));
    if in_ch != sq {
        diffs.push(format!("challenges: in-circuit {in_ch:?} off-circuit {sq:?}"));
    }
    match fold {
        Some(f) => {
            if &f.values != ids {
                let pos = f.values.iter().zip(ids.iter()).position(|(a, b)| a != b);
                diffs.push(format!(
                    "identity values: off-circuit {} values, in-circuit {}, first difference at {:?}",
                    f.values.len(),
                    ids.len(),
                    pos
                ));
            }
            if f.xn != xn[0] {
                diffs.push("xn differs".to_string());
            }
            if f.expected_h_eval != h[0] {
                diffs.push("expected_h_eval differs".to_string());
            }
        }
        None => diffs.push("off-circuit verifier logged no identity fold".to_string()),
    }
    if in_acc != off_acc {
        diffs.push(format!(
            "accumulator: in-circuit lhs={} rhs={} ; off-circuit lhs={} rhs={}",
            fmt_msm(&points, &in_acc.lhs),
            fmt_msm(&points, &in_acc.rhs),
            fmt_msm(&points, &off_acc.lhs),
            fmt_msm(&points, &off_acc.rhs)
        ));
    }
    Ok(VerifyLines { op, ans, diffs })
}
