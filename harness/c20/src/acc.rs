//! The off-circuit accumulator types (`circuits/src/verifier/{msm,accumulator}.rs`) against the
//! Lean model: `Msm::accumulate_with_r`, `Msm::eval`, `Msm::collapse`,
//! `Accumulator::accumulate` (with the hash-derived `r` recomputed here from the public-input
//! encoding, as the implementation does) on MSMs whose bases have known discrete logarithms.

use std::collections::BTreeMap;

use ff::Field;
use midnight_circuits::{
    hash::poseidon::PoseidonChip,
    instructions::hash::HashCPU,
    types::Instantiable,
    verifier::{Accumulator, AssignedAccumulator, BlstrsEmulation, Msm},
};
use midnight_curves::{Fq as F, G1Projective as C};
use mzkh::{fe_hex, Ctx};
use rand::{Rng, RngCore};
use rand_chacha::ChaCha8Rng;
use serde_json::json;

use crate::ipa::point_str;

type S = BlstrsEmulation;

/// Names in the style of `fixed_base_names`, chosen so that the key order matters
/// (`"-G"` first, `com_10` before `com_2`).
const NAMES: [&str; 7] =
    ["-G", "inner_vk_fixed_com_0", "inner_vk_fixed_com_10", "inner_vk_fixed_com_2", "inner_vk_perm_com_0", "inner_vk_perm_com_1", "zz"];

struct Pool {
    logs: Vec<F>,
    pts: Vec<C>,
}

impl Pool {
    fn new(rng: &mut ChaCha8Rng, n: usize) -> Self {
        use group::Group;
        let mut logs: Vec<F> = (0..n).map(|_| F::random(&mut *rng)).collect();
        logs[0] = F::ZERO; // the identity as a base
        logs[1] = F::ONE;
        let pts = logs.iter().map(|d| C::generator() * d).collect();
        Pool { logs, pts }
    }
    fn log_of(&self, p: &C) -> Option<F> {
        self.pts.iter().position(|q| q == p).map(|i| self.logs[i])
    }
}

fn small_or_random(rng: &mut ChaCha8Rng) -> F {
    match rng.next_u32() % 4 {
        0 => F::ZERO,
        1 => F::from((rng.next_u32() % 5) as u64),
        2 => -F::ONE,
        _ => F::random(&mut *rng),
    }
}

fn gen_msm(rng: &mut ChaCha8Rng, pool: &Pool, max_terms: usize) -> (Msm<S>, Vec<F>) {
    let n = rng.gen_range(0..=max_terms);
    let idx: Vec<usize> = (0..n).map(|_| rng.gen_range(0..pool.pts.len())).collect();
    let bases: Vec<C> = idx.iter().map(|&i| pool.pts[i]).collect();
    let logs: Vec<F> = idx.iter().map(|&i| pool.logs[i]).collect();
    let scalars: Vec<F> = (0..n).map(|_| small_or_random(rng)).collect();
    let mut fixed = BTreeMap::new();
    for name in NAMES {
        if rng.gen_bool(0.4) {
            fixed.insert(name.to_string(), small_or_random(rng));
        }
    }
    (Msm::new(&bases, &scalars, &fixed), logs)
}

fn hexes(v: &[F]) -> String {
    mzkh::join(&v.iter().map(fe_hex).collect::<Vec<_>>())
}

fn msm_str(pool: &Pool, m: &Msm<S>) -> Option<String> {
    let logs: Option<Vec<F>> = m.bases().iter().map(|b| pool.log_of(b)).collect();
    let fixed = m.fixed_base_scalars();
    let f = if fixed.is_empty() {
        "-".to_string()
    } else {
        fixed.iter().map(|(k, v)| format!("{k}={}", fe_hex(v))).collect::<Vec<_>>().join(",")
    };
    Some(format!("{};{};{}", hexes(&logs?), hexes(&m.scalars()), f))
}

fn acc_str(pool: &Pool, a: &Accumulator<S>) -> Option<String> {
    Some(format!("{}/{}", msm_str(pool, &a.lhs())?, msm_str(pool, &a.rhs())?))
}

pub fn run(ctx: &mut Ctx, n_cases: usize) {
    let mut rng = ctx.rng("acc");
    let pool = Pool::new(&mut rng, 12);
    // fixed bases: every name gets a base with a known discrete logarithm
    let fb_logs: Vec<(String, F)> = NAMES.iter().map(|n| (n.to_string(), F::random(&mut rng))).collect();
    let fb: BTreeMap<String, C> = {
        use group::Group;
        fb_logs.iter().map(|(n, d)| (n.clone(), C::generator() * d)).collect()
    };
    let fb_str = fb_logs.iter().map(|(n, d)| format!("{n}={}", fe_hex(d))).collect::<Vec<_>>().join(",");

    for case in 0..n_cases {
        // ---- Msm::accumulate_with_r, eval, collapse
        let (a, _) = gen_msm(&mut rng, &pool, 4);
        let (b, _) = gen_msm(&mut rng, &pool, 4);
        let r = small_or_random(&mut rng);
        let awr = a.accumulate_with_r(&b, r);
        let (sa, sb, sr) = (msm_str(&pool, &a).unwrap(), msm_str(&pool, &b).unwrap(), msm_str(&pool, &awr));
        match sr {
            Some(sr) => ctx.case("msm-awr", true, &format!("msm-awr {} {} {}", fe_hex(&r), sa, sb), &sr),
            None => ctx.oracle_fail("msm-awr:foreign-base", "accumulate_with_r produced a base that is none of the inputs", json!({"a": sa, "b": sb})),
        }
        // eval (panics on an empty MSM through msm_best? observed as a value)
        let ev = mzkh::catch(|| a.eval(&fb));
        ctx.case("msm-eval", true, &format!("msm-eval {fb_str} {sa}"), &match &ev {
            Ok(p) => point_str(p),
            Err(_) => "panic".to_string(),
        });
        // linearity oracle, computed with the real group operations
        if let (Ok(ea), Ok(eb), Ok(er)) = (&ev, mzkh::catch(|| b.eval(&fb)), mzkh::catch(|| awr.eval(&fb))) {
            if *ea + eb * r != er {
                ctx.oracle_fail("msm-awr:value", "eval(accumulate_with_r(a, b, r)) != eval(a) + r·eval(b)", json!({"a": sa, "b": sb, "r": fe_hex(&r)}));
            }
        }
        if !a.bases().is_empty() {
            let mut c = a.clone();
            let res = mzkh::catch(|| {
                c.collapse();
                c
            });
            if let Ok(c) = res {
                ctx.case(
                    "msm-collapse",
                    true,
                    &format!("msm-collapse {sa}"),
                    &format!("{};{}", c.bases().iter().map(point_str).collect::<Vec<_>>().join(","), hexes(&c.scalars())),
                );
                if let (Ok(e1), Ok(e2)) = (&ev, mzkh::catch(|| c.eval(&fb))) {
                    if *e1 != e2 {
                        ctx.oracle_fail("msm-collapse:value", "collapse changes the value of an MSM", json!({"a": sa}));
                    }
                }
            }
        }
        // ---- Accumulator::accumulate
        let n_acc = 1 + case % 4;
        let accs: Vec<Accumulator<S>> = (0..n_acc)
            .map(|_| Accumulator::new(gen_msm(&mut rng, &pool, 3).0, gen_msm(&mut rng, &pool, 3).0))
            .collect();
        let hash_input: Vec<F> = accs.iter().flat_map(AssignedAccumulator::<S>::as_public_input).collect();
        let r = <PoseidonChip<F> as HashCPU<F, F>>::hash(&hash_input);
        let out = Accumulator::<S>::accumulate(&accs);
        let strs: Vec<String> = accs.iter().map(|a| acc_str(&pool, a).unwrap()).collect();
        match acc_str(&pool, &out) {
            Some(o) => ctx.case("acc-accumulate", true, &format!("acc-accumulate {} {}", fe_hex(&r), strs.join(" ")), &o),
            None => ctx.oracle_fail("acc-accumulate:foreign-base", "accumulate produced a base that is none of the inputs", json!({"accs": strs})),
        }
        ctx.count(&format!("acc:n={n_acc}"));
    }
}
