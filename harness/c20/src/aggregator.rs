//! `LightAggregator` through its public API (`init`, `aggregate_proofs`, `verify`): k = 1, 2, 3
//! inner proofs of a zk_stdlib relation with two public inputs (the shape the aggregator
//! supports); honest round trip; altered inner public inputs; corrupted inner proofs; every
//! section of the aggregated proof corrupted; the inner-product section element by element.

use blake2b_simd::State as Blake2bState;
use ff::Field;
use midnight_aggregator::{light_aggregator::LightAggregator, verif_hooks::LightPoseidonFS};
use midnight_circuits::{
    hash::poseidon::PoseidonChip,
    instructions::{hash::HashCPU, AssignmentInstructions, PublicInputInstructions},
};
use midnight_curves::{Bls12, Fq as F};
use midnight_proofs::{
    circuit::{Layouter, Value},
    plonk::Error,
    poly::kzg::params::ParamsKZG,
    transcript::{CircuitTranscript, Transcript},
};
use midnight_zk_stdlib::{Relation, ZkStdLib, ZkStdLibArch};
use mzkh::Ctx;
use rand::{Rng, SeedableRng};
use rand_chacha::ChaCha8Rng;
use serde_json::json;

/// Poseidon of two witnesses (and of the second alone) as the two public inputs; `lookups`
/// switches on chips that add lookup arguments to the inner constraint system.
#[derive(Clone, Default)]
pub struct InnerRel {
    pub with_sha: bool,
}

impl Relation for InnerRel {
    type Instance = [F; 2];
    type Witness = [F; 2];

    fn format_instance(instance: &Self::Instance) -> Result<Vec<F>, Error> {
        Ok(instance.to_vec())
    }

    fn circuit(
        &self,
        std_lib: &ZkStdLib,
        layouter: &mut impl Layouter<F>,
        _instance: Value<Self::Instance>,
        witness: Value<Self::Witness>,
    ) -> Result<(), Error> {
        let assigned_message = std_lib.assign_many(layouter, &witness.transpose_array())?;
        let output1 = std_lib.poseidon(layouter, &assigned_message)?;
        let output2 = std_lib.poseidon(layouter, &assigned_message[1..])?;
        std_lib.constrain_as_public_input(layouter, &output1)?;
        std_lib.constrain_as_public_input(layouter, &output2)
    }

    fn used_chips(&self) -> ZkStdLibArch {
        ZkStdLibArch {
            jubjub: self.with_sha,
            poseidon: true,
            sha2_256: self.with_sha,
            nr_pow2range_cols: if self.with_sha { 4 } else { 1 },
            ..ZkStdLibArch::default()
        }
    }

    fn write_relation<W: std::io::Write>(&self, writer: &mut W) -> std::io::Result<()> {
        writer.write_all(&[self.with_sha as u8])
    }

    fn read_relation<R: std::io::Read>(reader: &mut R) -> std::io::Result<Self> {
        let mut b = [0u8; 1];
        reader.read_exact(&mut b)?;
        Ok(InnerRel { with_sha: b[0] != 0 })
    }
}

fn verdict<const N: usize>(
    agg: &LightAggregator<N>,
    srs: &ParamsKZG<Bls12>,
    instances: &[Vec<F>; N],
    bytes: &[u8],
) -> Result<Result<(), String>, String> {
    mzkh::catch(|| {
        let mut t = CircuitTranscript::<Blake2bState>::init_from_bytes(bytes);
        agg.verify(&srs.verifier_params(), instances, &mut t).map_err(|e| format!("{e:?}"))
    })
}

pub fn run<const N: usize>(ctx: &mut Ctx, with_sha: bool, srs_k: u32, seed: u64, n_corrupt: usize) {
    let t0 = std::time::Instant::now();
    let rel = InnerRel { with_sha };
    let mut rng = ChaCha8Rng::seed_from_u64(seed);
    let desc = json!({"nb_proofs": N, "with_sha": with_sha, "seed": seed});
    let key = format!("agg:n={N}:sha={with_sha}");
    let mut srs = ParamsKZG::<Bls12>::unsafe_setup(srs_k, ChaCha8Rng::seed_from_u64(seed + 1));
    let mut inner_srs = srs.clone();
    midnight_zk_stdlib::downsize_srs_for_relation(&mut inner_srs, &rel);
    let inner_vk = midnight_zk_stdlib::setup_vk(&inner_srs, &rel);
    let inner_pk = midnight_zk_stdlib::setup_pk(&rel, &inner_vk);
    let agg = match mzkh::catch(|| LightAggregator::<N>::init(&mut srs, inner_vk.vk()).map_err(|e| format!("{e:?}"))) {
        Ok(Ok(a)) => a,
        other => {
            ctx.oracle_fail(&format!("{key}:init"), "LightAggregator::init fails", json!({"case": desc, "result": format!("{:?}", other.err())}));
            return;
        }
    };
    let witnesses: [[F; 2]; N] = core::array::from_fn(|_| [F::random(&mut rng), F::random(&mut rng)]);
    let instances: [[F; 2]; N] = witnesses.map(|w| {
        [<PoseidonChip<F> as HashCPU<F, F>>::hash(&w), <PoseidonChip<F> as HashCPU<F, F>>::hash(&w[1..])]
    });
    let proofs: [Vec<u8>; N] = core::array::from_fn(|i| {
        midnight_zk_stdlib::prove::<InnerRel, LightPoseidonFS<F>>(&inner_srs, &inner_pk, &rel, &instances[i], witnesses[i], &mut rng)
            .expect("inner proof")
    });
    let all_instances: [Vec<F>; N] = instances.map(|i| i.to_vec());
    let aggregate = |proofs: &[Vec<u8>; N], insts: &[Vec<F>; N], rng: &mut ChaCha8Rng| {
        mzkh::catch(|| {
            let mut t = CircuitTranscript::<Blake2bState>::init();
            agg.aggregate_proofs(&srs, insts, proofs, rng, &mut t).map(|_| t.finalize()).map_err(|e| format!("{e:?}"))
        })
    };
    let meta = match aggregate(&proofs, &all_instances, &mut rng) {
        Ok(Ok(m)) => m,
        other => {
            ctx.oracle_fail(&format!("{key}:aggregate"), "aggregate_proofs fails on valid inner proofs", json!({"case": desc, "result": format!("{:?}", other.err())}));
            return;
        }
    };
    ctx.count(&format!("agg:n={N}"));
    ctx.count_n("agg:meta_proof_bytes", meta.len() as u64);
    // honest
    match verdict(&agg, &srs, &all_instances, &meta) {
        Ok(Ok(())) => ctx.count("agg:honest-accepted"),
        other => {
            ctx.oracle_fail(&format!("{key}:honest-rejected"), "aggregated proof over valid inner proofs is rejected", json!({"case": desc, "result": format!("{other:?}")}));
            return;
        }
    }
    let expect_reject = |ctx: &mut Ctx, what: &str, insts: &[Vec<F>; N], bytes: &[u8], detail: serde_json::Value| {
        ctx.count(&format!("agg:{what}"));
        match verdict(&agg, &srs, insts, bytes) {
            Ok(Err(_)) => {}
            Ok(Ok(())) => ctx.oracle_fail(&format!("agg-accepts:{what}"), "LightAggregator::verify accepts after an alteration", json!({"case": desc, "what": what, "detail": detail})),
            Err(p) => ctx.oracle_fail(&format!("agg-panics:{what}"), "LightAggregator::verify panics on an altered input", json!({"case": desc, "what": what, "detail": detail, "panic": p})),
        }
    };
    // altered inner public inputs, one at a time
    for i in 0..N {
        for j in 0..2 {
            let mut insts = all_instances.clone();
            insts[i][j] += F::ONE;
            expect_reject(ctx, "inner-public-input", &insts, &meta, json!({"proof": i, "input": j}));
        }
    }
    if N > 1 {
        let mut insts = all_instances.clone();
        insts.swap(0, 1);
        expect_reject(ctx, "inner-public-inputs-swapped", &insts, &meta, json!({}));
    }
    // layout of the aggregated proof: [n][n G][n F][m][m G][σ][C][PLONK proof][IPA: 2k G, 1 F]
    let n = u32::from_le_bytes(meta[0..4].try_into().unwrap()) as usize;
    let o_rhs = 4 + n * 48 + n * 32;
    let m = u32::from_le_bytes(meta[o_rhs..o_rhs + 4].try_into().unwrap()) as usize;
    let o_sigma = o_rhs + 4 + m * 48;
    let o_plonk = o_sigma + 96;
    let nb_fixed = inner_vk.vk().fixed_commitments().len() + inner_vk.vk().permutation().commitments().len() + 1;
    let ipa_k = (m + nb_fixed).next_power_of_two().trailing_zeros() as usize;
    let o_ipa = meta.len() - (ipa_k * 96 + 32);
    ctx.set_extra(&format!("agg_layout_n{N}"), json!({"lhs": n, "rhs_bases": m, "fixed": nb_fixed, "ipa_rounds": ipa_k, "plonk_bytes": o_ipa - o_plonk, "total": meta.len()}));
    let sections: Vec<(&str, usize, usize)> = vec![
        ("lhs-count", 0, 4),
        ("lhs-bases", 4, 4 + n * 48),
        ("lhs-scalars", 4 + n * 48, o_rhs),
        ("rhs-count", o_rhs, o_rhs + 4),
        ("rhs-bases", o_rhs + 4, o_sigma),
        ("sigma", o_sigma, o_sigma + 48),
        ("rhs-evaluated", o_sigma + 48, o_plonk),
        ("plonk-proof", o_plonk, o_ipa),
        ("ipa", o_ipa, meta.len()),
    ];
    for (name, a, b) in &sections {
        for rep in 0..n_corrupt {
            let mut bytes = meta.clone();
            let i = if rep == 0 { *a } else { rng.gen_range(*a..*b) };
            // low bit of a byte: keeps most encodings decodable (different scalar / x-coordinate)
            bytes[i] ^= 1 << (rep % 3);
            expect_reject(ctx, &format!("section:{name}"), &all_instances, &bytes, json!({"offset": i}));
        }
    }
    // the inner-product section element by element: each L_j / R_j replaced by another valid
    // point (taken from elsewhere in the proof), the final scalar incremented
    for e in 0..(2 * ipa_k) {
        let mut bytes = meta.clone();
        let src = if e == 0 { o_ipa + 48 } else { o_ipa };
        let other: Vec<u8> = meta[src..src + 48].to_vec();
        bytes[o_ipa + e * 48..o_ipa + (e + 1) * 48].copy_from_slice(&other);
        if bytes != meta {
            expect_reject(ctx, "ipa-element", &all_instances, &bytes, json!({"element": e}));
        }
    }
    {
        let mut bytes = meta.clone();
        let l = bytes.len();
        bytes[l - 32] ^= 1;
        expect_reject(ctx, "ipa-final-scalar", &all_instances, &bytes, json!({}));
        // swap σ and C
        let mut bytes = meta.clone();
        let (x, y) = bytes[o_sigma..o_sigma + 96].split_at_mut(48);
        x.swap_with_slice(y);
        expect_reject(ctx, "sigma-C-swapped", &all_instances, &bytes, json!({}));
        // truncated / extended
        let mut bytes = meta.clone();
        bytes.truncate(l - 1);
        expect_reject(ctx, "truncated", &all_instances, &bytes, json!({}));
    }
    // corrupted inner proof: the aggregator must not produce an accepted aggregated proof
    for i in 0..N {
        let mut ps = proofs.clone();
        let l = ps[i].len();
        ps[i][l - 48 - 32] ^= 1; // an evaluation of the multi-opening
        ctx.count("agg:inner-proof-corrupted");
        match aggregate(&ps, &all_instances, &mut rng) {
            Ok(Ok(bytes)) => {
                if let Ok(Ok(())) = verdict(&agg, &srs, &all_instances, &bytes) {
                    ctx.oracle_fail("agg-accepts:inner-proof-corrupted", "an aggregated proof over a corrupted inner proof verifies", json!({"case": desc, "proof": i}));
                }
            }
            Ok(Err(_)) => ctx.count("agg:inner-proof-corrupted:error"),
            Err(_) => ctx.count("agg:inner-proof-corrupted:panic"),
        }
    }
    ctx.set_extra(&format!("agg_seconds_n{N}_sha{with_sha}"), json!(t0.elapsed().as_secs()));
}
