//! `LightAggregator` through its public API (`init`, `aggregate_proofs`, `verify`): k = 1, 2, 3
//! inner proofs of a zk_stdlib relation with two public inputs (the shape the aggregator
//! supports); honest round trip; altered inner public inputs; corrupted inner proofs; every
//! section of the aggregated proof corrupted; the inner-product section element by element.

use blake2b_simd::State as Blake2bState;
use ff::Field;
use midnight_aggregator::{light_aggregator::LightAggregator, verif_hooks::LightPoseidonFS};
use midnight_circuits::{
    hash::poseidon::PoseidonChip,
    instructions::{hash::HashCPU, AssignmentInstructions, PublicInputInstructions},
};
use midnight_curves::{Bls12, Fq as F};
use midnight_proofs::{
    circuit::{Layouter, Value},
    plonk::Error,
    poly::kzg::params::ParamsKZG,
    transcript::{CircuitTranscript, Transcript},
};
use midnight_zk_stdlib::{Relation, ZkStdLib, ZkStdLibArch};
use mzkh::Ctx;
use rand::{Rng, SeedableRng};
use rand_chacha::ChaCha8Rng;
use serde_json::json;

/// Poseidon of two witnesses (and of the second alone) as the two public inputs; `lookups`
/// switches on chips that add lookup arguments to the inner constraint system.
#[derive(Clone, Default)]
pub struct InnerRel {
    pub with_sha: bool,
}

impl Relation for InnerRel {
    type Instance = [F; 2];
    type Witness = [F; 2];

    fn format_instance(instance: &Self::Instance) -> Result<Vec<F>, Error> {
        Ok(instance.to_vec())
    }

    fn circuit(
        &self,
        std_lib: &ZkStdLib,
        layouter: &mut impl Layouter<F>,
        _instance: Value<Self::Instance>,
        witness: Value<Self::Witness>,
    ) -> Result<(), Error> {
        let assigned_message = std_lib.assign_many(layouter, &witness.transpose_array())?;
        let output1 = std_lib.poseidon(layouter, &assigned_message)?;
        let output2 = std_lib.poseidon(layouter, &assigned_message[1..])?;
        std_lib.constrain_as_public_input(layouter, &output1)?;
        std_lib.constrain_as_public_input(layouter, &output2)
    }

    fn used_chips(&self) -> ZkStdLibArch {
        ZkStdLibArch {
            jubjub: self.with_sha,
            poseidon: true,
            sha2_256: self.with_sha,
            nr_pow2range_cols: if self.with_sha { 4 } else { 1 },
            ..ZkStdLibArch::default()
        }
    }

    fn write_relation<W: std::io::Write>(&self, writer: &mut W) -> std::io::Result<()> {
        writer.write_all(&[self.with_sha as u8])
    }

    fn read_relation<R: std::io::Read>(reader: &mut R) -> std::io::Result<Self> {
        let mut b = [0u8; 1];
        reader.read_exact(&mut b)?;
        Ok(InnerRel { with_sha: b[0] != 0 })
    }
}

fn verdict<const N: usize>(
    agg: &LightAggregator<N>,
    srs: &ParamsKZG<Bls12>,
    instances: &[Vec<F>; N],
    bytes: &[u8],
) -> Result<Result<(), String>, String> {
    mzkh::catch(|| {
        let mut t = CircuitTranscript::<Blake2bState>::init_from_bytes(bytes);
        agg.verify(&srs.verifier_params(), instances, &mut t).map_err(|e| format!("{e:?}"))
    })
}

pub fn run<const N: usize>(ctx: &mut Ctx, with_sha: bool, srs_k: u32, seed: u64, n_corrupt: usize) {
    let t0 = std::time::Instant::now();
    let rel = InnerRel { with_sha };
    let mut rng = ChaCha8Rng::seed_from_u64(seed);
    let desc = json!({"nb_proofs": N, "with_sha": with_sha, "seed": seed});
    let key = format!("agg:n={N}:sha={with_sha}");
    let mut srs = ParamsKZG::<Bls12>::unsafe_setup(srs_k, ChaCha8Rng::seed_from_u64(seed + 1));
    let mut inner_srs = srs.clone();
    midnight_zk_stdlib::downsize_srs_for_relation(&mut inner_srs, &rel);
    let inner_vk = midnight_zk_stdlib::setup_vk(&inner_srs, &rel);
    let inner_pk = midnight_zk_stdlib::setup_pk(&rel, &inner_vk);
    let agg = match mzkh::catch(|| LightAggregator::<N>::init(&mut srs, inner_vk.vk()).map_err(|e| format!("{e:?}"))) {
        Ok(Ok(a)) => a,
        other => {
            ctx.oracle_fail(&format!("{key}:init"), "LightAggregator::init fails", json!({"case": desc, "result": format!("{:?}", other.err())}));
            return;
        }
    };
    let witnesses: [[F; 2]; N] = core::array::from_fn(|_| [F::random(&mut rng), F::random(&mut rng)]);
    let instances: [[F; 2]; N] = witnesses.map(|w| {
        [<PoseidonChip<F> as HashCPU<F, F>>::hash(&w), <PoseidonChip<F> as HashCPU<F, F>>::hash(&w[1..])]
    });
    let proofs: [Vec<u8>; N] = core::array::from_fn(|i| {
        midnight_zk_stdlib::prove::<InnerRel, LightPoseidonFS<F>>(&inner_srs, &inner_pk, &rel, &instances[i], witnesses[i], &mut rng)
            .expect("inner proof")
    });
    let all_instances: [Vec<F>; N] = instances.map(|i| i.to_vec());
    let aggregate = |proofs: &[Vec<u8>; N], insts: &[Vec<F>; N], rng: &mut ChaCha8Rng| {
        mzkh::catch(|| {
            let mut t = CircuitTranscript::<Blake2bState>::init();
            agg.aggregate_proofs(&srs, insts, proofs, rng, &mut t).map(|_| t.finalize()).map_err(|e| format!("{e:?}"))
        })
    };
    let meta = match aggregate(&proofs, &all_instances, &mut rng) {
        Ok(Ok(m)) => m,
        other => {
            ctx.oracle_fail(&format!("{key}:aggregate"), "aggregate_proofs fails on valid inner proofs", json!({"case": desc, "result": format!("{:?}", other.err())}));
            return;
        }
    };
    ctx.count(&format!("agg:n={N}"));
    ctx.count_n("agg:meta_proof_bytes", meta.len() as u64);
    // honest
    match verdict(&agg, &srs, &all_instances, &meta) {
        Ok(Ok(())) => ctx.count("agg:honest-accepted"),
        other => {
            ctx.oracle_fail(&format!("{key}:honest-rejected"), "aggregated proof over valid inner proofs is rejected", json!({"case": desc, "result": format!("{other:?}")}));
            return;
        }
    }
    let expect_reject = |ctx: &mut Ctx, what: &str, insts: &[Vec<F>; N], bytes: &[u8], detail: serde_json::Value| {
        ctx.count(&format!("agg:{what}"));
        match verdict(&agg, &srs, insts, bytes) {
            Ok(Err(_)) => {}
            Ok(Ok(())) => ctx.oracle_fail(&format!("agg-accepts:{what}"), "LightAggregator::verify accepts after an alteration", json!({"case": desc, "what": what, "detail": detail})),
            Err(p) => ctx.oracle_fail(&format!("agg-panics:{what}"), "LightAggregator::verify panics on an altered input", json!({"case": desc, "what": what, "detail": detail, "panic": p})),
        }
    };
    // altered inner public inputs, one at a time
    for i in 0..N {
        for j in 0..2 {
            let mut insts = all_instances.clone();
            insts[i][j] += F::ONE;
            expect_reject(ctx, "inner-public-input", &insts, &meta, json!({"proof": i, "input": j}));
        }
    }
    if N > 1 {
        let mut insts = all_instances.clone();
        insts.swap(0, 1);
        expect_reject(ctx, "inner-public-inputs-swapped", &insts, &meta, json!({}));
    }
    // layout of the aggregated proof: [n][n G][n F][m][m G][σ][C][PLONK proof][IPA: 2k G, 1 F]
    let n = u32::from_le_bytes(meta[0..4].try_into().unwrap()) as usize;
    let o_rhs = 4 + n * 48 + n * 32;
    let m = u32::from_le_bytes(meta[o_rhs..o_rhs + 4].try_into().unwrap()) as usize;
    let o_sigma = o_rhs + 4 + m * 48;
    let o_plonk = o_sigma + 96;
    let nb_fixed = inner_vk.vk().fixed_commitments().len() + inner_vk.vk().permutation().commitments().len() + 1;
    let ipa_k = (m + nb_fixed).next_power_of_two().trailing_zeros() as usize;
    let o_ipa = meta.len() - (ipa_k * 96 + 32);
    ctx.set_extra(&format!("agg_layout_n{N}"), json!({"lhs": n, "rhs_bases": m, "fixed": nb_fixed, "ipa_rounds": ipa_k, "plonk_bytes": o_ipa - o_plonk, "total": meta.len()}));
    let sections: Vec<(&str, usize, usize)> = vec![
        ("lhs-count", 0, 4),
        ("lhs-bases", 4, 4 + n * 48),
        ("lhs-scalars", 4 + n * 48, o_rhs),
        ("rhs-count", o_rhs, o_rhs + 4),
        ("rhs-bases", o_rhs + 4, o_sigma),
        ("sigma", o_sigma, o_sigma + 48),
        ("rhs-evaluated", o_sigma + 48, o_plonk),
        ("plonk-proof", o_plonk, o_ipa),
        ("ipa", o_ipa, meta.len()),
    ];
    for (name, a, b) in &sections {
        for rep in 0..n_corrupt {
            let mut bytes = meta.clone();
            let i = if rep == 0 { *a } else { rng.gen_range(*a..*b) };
            // low bit of a byte: keeps most encodings decodable (different scalar / x-coordinate)
            bytes[i] ^= 1 << (rep % 3);
            expect_reject(ctx, &format!("section:{name}"), &all_instances, &bytes, json!({"offset": i}));
        }
    }
    // the inner-product section element by element: each L_j / R_j replaced by another valid
    // point (taken from elsewhere in the proof), the final scalar incremented
    for e in 0..(2 * ipa_k) {
        let mut bytes = meta.clone();
        let src = if e == 0 { o_ipa + 48 } else { o_ipa };
        let other: Vec<u8> = meta[src..src + 48].to_vec();
        bytes[o_ipa + e * 48..o_ipa + (e + 1) * 48].copy_from_slice(&other);
        if bytes != meta {
            expect_reject(ctx, "ipa-element", &all_instances, &bytes, json!({"element": e}));
        }
    }
    {
        let mut bytes = meta.clone();
        let l = bytes.len();
        bytes[l - 32] ^= 1;
        expect_reject(ctx, "ipa-final-scalar", &all_instances, &bytes, json!({}));
        // swap σ and C
        let mut bytes = meta.clone();
        let (x, y) = bytes[o_sigma..o_sigma + 96].split_at_mut(48);
        x.swap_with_slice(y);
        expect_reject(ctx, "sigma-C-swapped", &all_instances, &bytes, json!({}));
        // truncated / extended
        let mut bytes = meta.clone();
        bytes.truncate(l - 1);
        expect_reject(ctx, "truncated", &all_instances, &bytes, json!({}));
    }
    // corrupted inner proof: the aggregator must not produce an accepted aggregated proof
    for i in 0..N {
        let mut ps = proofs.clone();
        let l = ps[i].len();
        ps[i][l - 48 - 32] ^= 1; // an evaluation of the multi-opening
        ctx.count("agg:inner-proof-corrupted");
        match aggregate(&ps, &all_instances, &mut rng) {
            Ok(Ok(bytes)) => {
                if let Ok(Ok(())) = verdict(&agg, &srs, &all_instances, &bytes) {
                    ctx.oracle_fail("agg-accepts:inner-proof-corrupted", "an aggregated proof over a corrupted inner proof verifies", json!({"case": desc, "proof": i}));
                }
            }
            Ok(Err(_)) => ctx.count("agg:inner-proof-corrupted:error"),
            Err(_) => ctx.count("agg:inner-proof-corrupted:panic"),
        }
    }
    ctx.set_extra(&format!("agg_seconds_n{N}_sha{with_sha}"), json!(t0.elapsed().as_secs()));
}

// ---------------------------------------------------------------------------------------------
// Layout of the aggregator: sections of the aggregated proof, instance vectors of prover and
// verifier, the vectors of the inner-product argument — on inner proofs of the configurable dummy
// circuit (`carry.rs`), recomputed here with the repository's public functions and compared with
// the Lean model (`agg-layout` line) and with the real aggregated proof bytes.
// ---------------------------------------------------------------------------------------------

/// `N` inner proofs of the dummy circuit with `nf` queried + `n_unqueried` never-queried fixed
/// columns and `na` advice columns; `expect_ok`: whether a key for which every fixed commitment is
/// opened (the aggregator pairs committed scalars with ALL fixed bases of the key).
pub fn run_dummy<const N: usize>(ctx: &mut Ctx, nf: usize, na: usize, n_unqueried: usize, srs_k: u32, seed: u64, n_corrupt: usize) {
    use crate::carry::{acc_text, names_text, DummyCircuit};
    use crate::verify::{acc_view, base_key};
    use group::Group;
    use midnight_aggregator::verif_hooks::LightBlstrsEmulation as Light;
    use midnight_circuits::{
        types::Instantiable,
        verifier::{fixed_bases, Accumulator, AssignedAccumulator, AssignedMsm, AssignedVk, Msm},
    };
    use midnight_curves::G1Projective as C;
    use midnight_proofs::{
        plonk::{create_proof, keygen_pk, keygen_vk_with_k, prepare},
        poly::kzg::KZGCommitmentScheme,
        transcript::Hashable,
    };
    type Scheme = KZGCommitmentScheme<Bls12>;
    type H = LightPoseidonFS<F>;

    let mut rng = ChaCha8Rng::seed_from_u64(seed);
    let key = format!("agg-dummy:n={N}:nf={nf}:na={na}:unqueried={n_unqueried}");
    let desc = json!({"nb_proofs": N, "fixed_columns": nf, "advice_columns": na, "unqueried_fixed_columns": n_unqueried, "seed": seed,
        "inner": "harness/c20/src/carry.rs DummyCircuit (committed + plain instance column, two public inputs)"});
    let mut srs = ParamsKZG::<Bls12>::unsafe_setup(srs_k, ChaCha8Rng::seed_from_u64(seed + 1));
    let circuits: Vec<DummyCircuit> = (0..N).map(|i| DummyCircuit::new_opt(nf, na, n_unqueried, true, seed, seed + 10 + i as u64)).collect();
    let mut inner_k = 4;
    let (inner_srs, pk) = loop {
        let mut p = srs.clone();
        p.downsize(inner_k);
        match keygen_vk_with_k::<F, Scheme, _>(&p, &circuits[0], inner_k) {
            Ok(vk) => break (p, keygen_pk(vk, &circuits[0]).expect("keygen_pk")),
            Err(_) if inner_k < 8 => inner_k += 1,
            Err(e) => {
                ctx.oracle_fail(&format!("{key}:keygen"), "key generation of the dummy circuit failed", json!({"case": desc, "error": format!("{e:?}")}));
                return;
            }
        }
    };
    let vk = pk.get_vk().clone();
    let all_instances: [Vec<F>; N] = core::array::from_fn(|i| circuits[i].instances()[1].clone());
    let proofs: [Vec<u8>; N] = core::array::from_fn(|i| {
        let mut tr = CircuitTranscript::<H>::init();
        create_proof::<F, Scheme, _, _>(&inner_srs, &pk, &[circuits[i].clone()], 1, &[&[&[], &all_instances[i][..]]], ChaCha8Rng::seed_from_u64(seed + 100 + i as u64), &mut tr)
            .expect("inner proof of the dummy circuit");
        tr.finalize()
    });
    // what `aggregate_proofs` computes first, with the same public functions
    let fb = fixed_bases::<Light>("inner_vk", &vk);
    let mut accs: Vec<Accumulator<Light>> = vec![];
    for i in 0..N {
        let mut tr = CircuitTranscript::<H>::init_from_bytes(&proofs[i]);
        match prepare::<F, Scheme, _>(&vk, &[&[C::identity()]], &[&[&all_instances[i][..]]], &mut tr) {
            Ok(g) if g.clone().check(&inner_srs.verifier_params()) => accs.push(Accumulator::<Light>::from_dual_msm(g, "inner_vk", &fb)),
            other => {
                ctx.oracle_fail(&format!("{key}:inner-rejected"), "the off-circuit verifier rejects an honest proof of the dummy circuit", json!({"case": desc, "error": format!("{:?}", other.err())}));
                return;
            }
        }
    }
    let acc = Accumulator::<Light>::accumulate(&accs);
    let hash_input: Vec<F> = accs.iter().flat_map(AssignedAccumulator::<Light>::as_public_input).collect();
    let r = <PoseidonChip<F> as HashCPU<F, F>>::hash(&hash_input);
    let (normal, committed) = AssignedAccumulator::<Light>::as_public_input_with_committed_scalars(&acc);
    let bases1_all: Vec<C> = [acc.rhs().bases(), fb.values().cloned().collect()].concat();
    let rhs_value = acc.rhs().eval(&fb);
    // is the pairing (committed scalars, bases1) the value of the right-hand side?  (real group operations)
    let paired_all: C = committed.iter().zip(bases1_all.iter()).map(|(s, b)| b * s).sum();
    let aligned_all = committed.len() == bases1_all.len() && paired_all == rhs_value;
    let names: Vec<String> = fb.keys().cloned().collect();
    // columns of the fixed queries (what `ipa_fixed_bases` of the repaired aggregator looks at)
    let nb_fixed = vk.fixed_commitments().len();
    let mut queried: Vec<usize> = vk.cs().fixed_queries().iter().map(|(c, _)| c.index()).collect();
    queried.sort();
    queried.dedup();
    ctx.count(&format!("agg-dummy:fixed-names={}", names.len()));
    ctx.count(&format!("agg-dummy:rhs-fixed-scalars={}", acc.rhs().fixed_base_scalars().len()));

    let agg = match mzkh::catch(|| LightAggregator::<N>::init(&mut srs, &vk).map_err(|e| format!("{e:?}"))) {
        Ok(Ok(a)) => a,
        other => {
            ctx.oracle_fail(&format!("{key}:init"), "LightAggregator::init fails", json!({"case": desc, "result": format!("{:?}", other.err())}));
            return;
        }
    };
    // the fixed bases the REAL aggregator pairs with the committed fixed-base scalars: the private
    // `ipa_fixed_bases` run on a map with the key's names and distinct marker points, so that the
    // kept names can be read off the kept values
    let gen = C::generator();
    let markers: std::collections::BTreeMap<String, C> = names.iter().enumerate().map(|(i, n)| (n.clone(), gen * F::from(i as u64 + 1))).collect();
    let kept_markers = agg.verif_ipa_fixed_bases(&markers);
    let ipa_names: Vec<String> = kept_markers.iter().filter_map(|m| markers.iter().find(|(_, v)| *v == m).map(|(n, _)| n.clone())).collect();
    let ipa_fixed = agg.verif_ipa_fixed_bases(&fb);
    if ipa_names.len() != kept_markers.len() || ipa_fixed != ipa_names.iter().map(|n| fb[n]).collect::<Vec<_>>() {
        ctx.oracle_fail(&format!("{key}:ipa-fixed-bases"), "ipa_fixed_bases does not return a sub-list of the given map's values by name", json!({"case": desc}));
        return;
    }
    let bases1: Vec<C> = [acc.rhs().bases(), ipa_fixed].concat();
    let paired: C = committed.iter().zip(bases1.iter()).map(|(s, b)| b * s).sum();
    let aligned = committed.len() == bases1.len() && paired == rhs_value;
    ctx.count(&format!("agg-dummy:ipa-fixed-bases={}", ipa_names.len()));
    let aggregate = |ps: &[Vec<u8>; N], rng: &mut ChaCha8Rng| {
        mzkh::catch(|| {
            let mut t = CircuitTranscript::<Blake2bState>::init();
            agg.aggregate_proofs(&srs, &all_instances, ps, rng, &mut t).map(|_| t.finalize()).map_err(|e| format!("{e:?}"))
        })
    };
    let meta = match aggregate(&proofs, &mut rng) {
        Ok(Ok(m)) => m,
        other => {
            ctx.oracle_fail(&format!("{key}:aggregate"), "aggregate_proofs fails on valid inner proofs", json!({"case": desc, "result": format!("{:?}", other.err())}));
            return;
        }
    };
    // ---- sections of the real aggregated proof
    let rd_pt = |b: &[u8]| <C as Hashable<Blake2bState>>::read(&mut &b[..]).ok();
    let rd_fe = |b: &[u8]| <F as Hashable<Blake2bState>>::read(&mut &b[..]).ok();
    let parse = || -> Option<(Vec<C>, Vec<F>, Vec<C>, C, C)> {
        let n = u32::from_le_bytes(meta.get(0..4)?.try_into().ok()?) as usize;
        let mut o = 4;
        let lb: Vec<C> = (0..n).map(|i| rd_pt(meta.get(o + 48 * i..o + 48 * (i + 1))?)).collect::<Option<_>>()?;
        o += 48 * n;
        let ls: Vec<F> = (0..n).map(|i| rd_fe(meta.get(o + 32 * i..o + 32 * (i + 1))?)).collect::<Option<_>>()?;
        o += 32 * n;
        let m = u32::from_le_bytes(meta.get(o..o + 4)?.try_into().ok()?) as usize;
        o += 4;
        let rb: Vec<C> = (0..m).map(|i| rd_pt(meta.get(o + 48 * i..o + 48 * (i + 1))?)).collect::<Option<_>>()?;
        o += 48 * m;
        Some((lb, ls, rb, rd_pt(meta.get(o..o + 48)?)?, rd_pt(meta.get(o + 48..o + 96)?)?))
    };
    let Some((lb, ls, rb, _sigma, c_read)) = parse() else {
        ctx.oracle_fail(&format!("{key}:sections"), "the aggregated proof does not start with [n][n G][n F][m][m G][sigma][C]", json!({"case": desc, "len": meta.len()}));
        return;
    };
    let hx = |v: &[F]| mzkh::join(&v.iter().map(mzkh::fe_hex).collect::<Vec<_>>());
    let keys = |v: &[C]| mzkh::join(&v.iter().map(base_key).collect::<Vec<_>>());
    let line = format!(
        "agg-layout {} {} {} {} {}",
        names_text(&names),
        nb_fixed,
        names_text(&queried.iter().map(|q| q.to_string()).collect::<Vec<_>>()),
        mzkh::fe_hex(&r),
        accs.iter().map(|a| acc_text(&acc_view::<Light>(a))).collect::<Vec<_>>().join(" ")
    );
    let ans = format!("n={} lhs={};{} m={} rhs={} committed={} aligned_all={} ipa_fixed={} aligned={}", lb.len(), keys(&lb), hx(&ls), rb.len(), keys(&rb), hx(&committed), aligned_all as u8, names_text(&ipa_names), aligned as u8);
    ctx.case("agg-layout", true, &line, &ans);
    if c_read != rhs_value {
        ctx.oracle_fail(&format!("{key}:rhs-evaluated"), "the point C of the aggregated proof is not the value of the accumulated right-hand side", json!({"case": desc}));
    }
    // instance vectors: prover (from the accumulator) = verifier (from the sections read)
    let mut pi_prover = AssignedVk::<Light>::as_public_input(&vk);
    all_instances.iter().for_each(|i| pi_prover.extend(i));
    let mut pi_verifier = pi_prover.clone();
    pi_prover.extend(normal);
    pi_verifier.extend(AssignedMsm::<Light>::as_public_input(&Msm::new(&lb, &ls, &std::collections::BTreeMap::new())));
    pi_verifier.extend(rb.iter().flat_map(<midnight_aggregator::verif_hooks::FakePoint<C> as Instantiable<F>>::as_public_input));
    ctx.count_n("agg-dummy:instance-len", pi_prover.len() as u64);
    if pi_prover != pi_verifier {
        ctx.oracle_fail(&format!("{key}:instances-differ"), "the instance vector of aggregate_proofs differs from the one verify rebuilds from the aggregated proof", json!({"case": desc}));
    }
    // ---- verdicts
    let honest = verdict(&agg, &srs, &all_instances, &meta);
    match (&honest, aligned) {
        (Ok(Ok(())), _) => ctx.count("agg-dummy:honest-accepted"),
        (other, false) => {
            // keyed by the condition (not by the sizes): see findings/C20.json
            ctx.oracle_fail(
                "agg:unopened-fixed-commitment",
                "LightAggregator: the aggregated proof over VALID inner proofs is rejected when the inner verifying key has a fixed commitment that no query opens: aggregate_proofs pairs the committed scalars (one per name PRESENT in the accumulator) with the fixed bases of the WHOLE key, so the inner-product argument is run on a false claim",
                json!({"case": desc, "result": format!("{other:?}"), "fixed_bases": names.len(), "fixed_base_scalars_of_acc": acc.rhs().fixed_base_scalars().len()}),
            );
            return;
        }
        (other, true) => {
            ctx.oracle_fail(&format!("{key}:honest-rejected"), "aggregated proof over valid inner proofs is rejected", json!({"case": desc, "result": format!("{other:?}")}));
            return;
        }
    }
    // an inner proof followed by junk bytes: `aggregate_proofs` builds the inner transcript itself,
    // so it is the only place where "the whole byte string is the proof" can be checked
    {
        let mut ps = proofs.clone();
        ps[N - 1].extend_from_slice(&[0x5a, 0, 1]);
        ctx.count("agg-dummy:inner-proof-trailing-bytes");
        match aggregate(&ps, &mut rng) {
            Ok(Ok(bytes)) => {
                ctx.count("agg-dummy:inner-proof-trailing-bytes:aggregated");
                if let Ok(Ok(())) = verdict(&agg, &srs, &all_instances, &bytes) {
                    ctx.oracle_fail(
                        "agg-accepts:inner-proof-trailing-bytes",
                        "LightAggregator::aggregate_proofs aggregates an inner proof followed by junk bytes (plonk::prepare without assert_empty on the inner transcript) and the aggregated proof verifies",
                        json!({"case": desc, "proof": N - 1, "appended": "5a0001"}),
                    );
                }
            }
            Ok(Err(_)) => ctx.count("agg-dummy:inner-proof-trailing-bytes:error"),
            Err(_) => ctx.count("agg-dummy:inner-proof-trailing-bytes:panic"),
        }
        // the aggregated proof itself followed by junk: `verify` leaves the transcript to its caller,
        // who (as with plonk::prepare) must call assert_empty afterwards
        let mut bytes = meta.clone();
        bytes.push(0);
        let r = mzkh::catch(|| {
            let mut t = CircuitTranscript::<Blake2bState>::init_from_bytes(&bytes);
            agg.verify(&srs.verifier_params(), &all_instances, &mut t).is_ok() && t.assert_empty().is_ok()
        });
        ctx.count("agg-dummy:extended");
        if !matches!(r, Ok(false)) {
            ctx.oracle_fail("agg-accepts:extended", "verify + assert_empty accepts an aggregated proof followed by a junk byte", json!({"case": desc, "result": format!("{r:?}")}));
        }
        let r = mzkh::catch(|| {
            let mut t = CircuitTranscript::<Blake2bState>::init_from_bytes(&meta);
            agg.verify(&srs.verifier_params(), &all_instances, &mut t).is_ok() && t.assert_empty().is_ok()
        });
        if !matches!(r, Ok(true)) {
            ctx.oracle_fail(&format!("{key}:not-consumed"), "verify does not consume the whole honest aggregated proof", json!({"case": desc, "result": format!("{r:?}")}));
        }
    }
    // corrupted sections (first byte of each + random ones)
    let n = lb.len();
    let o_rhs = 4 + n * 80;
    let o_sigma = o_rhs + 4 + rb.len() * 48;
    let sections: Vec<(&str, usize, usize)> = vec![
        ("lhs-count", 0, 4),
        ("lhs-bases", 4, 4 + n * 48),
        ("lhs-scalars", 4 + n * 48, o_rhs),
        ("rhs-count", o_rhs, o_rhs + 4),
        ("rhs-bases", o_rhs + 4, o_sigma),
        ("sigma", o_sigma, o_sigma + 48),
        ("rhs-evaluated", o_sigma + 48, o_sigma + 96),
    ];
    for (name, a, b) in &sections {
        for rep in 0..n_corrupt {
            let mut bytes = meta.clone();
            let i = if rep == 0 { *a } else { rng.gen_range(*a..*b) };
            bytes[i] ^= 1 << (rep % 3);
            ctx.count(&format!("agg-dummy:section:{name}"));
            match verdict(&agg, &srs, &all_instances, &bytes) {
                Ok(Err(_)) => {}
                Ok(Ok(())) => ctx.oracle_fail(&format!("agg-accepts:section:{name}"), "LightAggregator::verify accepts after an alteration", json!({"case": desc, "offset": i})),
                Err(p) => ctx.oracle_fail(&format!("agg-panics:section:{name}"), "LightAggregator::verify panics on an altered input", json!({"case": desc, "offset": i, "panic": p})),
            }
        }
    }
    for i in 0..N {
        let mut insts = all_instances.clone();
        insts[i][1] += F::ONE;
        ctx.count("agg-dummy:inner-public-input");
        if let Ok(Ok(())) = verdict(&agg, &srs, &insts, &meta) {
            ctx.oracle_fail("agg-accepts:inner-public-input", "LightAggregator::verify accepts an altered inner public input", json!({"case": desc, "proof": i}));
        }
    }
}
