//! An accumulator CARRIED into a circuit as a witness (`AssignedAccumulator::assign` →
//! `AssignedMsm::assign`, `circuits/src/verifier/{accumulator,msm}.rs`) and the IVC step built on it
//! (`zk_stdlib/examples/ivc.rs`: witness the previous accumulator, verify a proof in-circuit,
//! `AssignedAccumulator::accumulate(&[proof_acc, prev_acc])`, expose the result).
//!
//! Inner circuits: a configurable dummy circuit with `nf` fixed columns and `np` permutation columns
//! (`np − 1` equality-enabled advice columns + one instance column), so that the verifying key has 3,
//! 10, 11, 12, 25 fixed and permutation commitments: from 11 on the numeric order of
//! `verifier::fixed_base_names` differs from the `BTreeMap` order of the off-circuit accumulator.
//! Everything is real: key generation, inner proofs, off-circuit `prepare` → `from_dual_msm`,
//! `Accumulator::accumulate` with the trivial accumulator of the IVC example (all names, zero scalars).
//!
//! Per configuration and back-end:
//!  * `fbnames` line: `fixed_base_names(vk, nf, np)` and the key order of `fixed_bases(vk)` vs the model;
//!  * carry circuit: witnesses the accumulator, exposes it; must be satisfied by
//!    `as_public_input(acc)` and by no other instance (incl. the instance the code WITHOUT the sort
//!    of the names would expose); the value held in-circuit is compared with the witnessed one and
//!    with the Lean model (`acc-assign` line);
//!  * IVC-step circuit (light back-end; foreign back-end in the thorough tier): in-circuit
//!    verification of a second proof + carried accumulator → `accumulate`; instance = off-circuit
//!    `Accumulator::accumulate(&[proof_acc, carried])`; three-way with the model (`ivc-step` line).

use std::collections::BTreeMap;

use ff::Field;
use midnight_aggregator::verif_hooks::{FakeCurveChip, FakePoint, LightBlstrsEmulation, LightPoseidonFS};
use midnight_circuits::{
    ecc::{
        curves::CircuitCurve,
        foreign::{nb_foreign_ecc_chip_columns, ForeignEccChip, ForeignEccConfig},
    },
    field::{
        decomposition::{
            chip::{P2RDecompositionChip, P2RDecompositionConfig},
            pow2range::Pow2RangeChip,
        },
        foreign::FieldChip,
        native::{NB_ARITH_COLS, NB_ARITH_FIXED_COLS},
        AssignedNative, NativeChip, NativeConfig, NativeGadget,
    },
    hash::poseidon::{PoseidonChip, PoseidonConfig, PoseidonState, NB_POSEIDON_ADVICE_COLS, NB_POSEIDON_FIXED_COLS},
    instructions::{hash::HashCPU, AssignmentInstructions, PublicInputInstructions},
    types::{ComposableChip, InnerValue, Instantiable},
    verifier::{
        self, fixed_bases, Accumulator, AssignedAccumulator, AssignedVk, BlstrsEmulation, Msm, SelfEmulation, VerifierGadget,
    },
};
use midnight_curves::{Bls12, Fq as F, G1Projective as C};
use midnight_proofs::{
    circuit::{Layouter, SimpleFloorPlanner, Value},
    plonk::{
        commit_to_instances, create_proof, keygen_pk, keygen_vk_with_k, Advice, Circuit, Column, ConstraintSystem, Constraints,
        Error, Expression, Fixed, Instance,
    },
    poly::{kzg::KZGCommitmentScheme, EvaluationDomain, Rotation},
    transcript::{CircuitTranscript, Hashable, Sampleable, Transcript, TranscriptHash},
};
use mzkh::{family::FamParams, fe_hex, shape::shape_string, Ctx};
use rand::{Rng, SeedableRng};
use rand_chacha::ChaCha8Rng;
use serde_json::json;

use crate::{
    gadget::{find_k, light_instance, mock, off_circuit, Inner, Setup},
    verify::{acc_of_light_pi, acc_view, base_key, AccView, MsmView},
};

type Scheme = KZGCommitmentScheme<Bls12>;
type Light = LightBlstrsEmulation;
type Foreign = BlstrsEmulation;
type CBase = <C as CircuitCurve>::Base;
type NG = NativeGadget<F, P2RDecompositionChip<F>, NativeChip<F>>;

const VK_NAME: &str = "inner_vk";

// ---------------------------------------------------------------------------------------------
// The inner circuit: `nf` fixed columns, `na` equality-enabled advice columns, one instance column.
// Gate (no selector): Σ_{i < max(nf, na)} f_{i mod nf} · a_{i mod na} = 0 (every column queried).
// ---------------------------------------------------------------------------------------------

#[derive(Clone, Debug)]
pub struct DummyCircuit {
    nf: usize,
    na: usize,
    /// additional fixed columns that no gate queries (they get a commitment, but never an opening)
    n_unqueried: usize,
    /// a committed instance column before the plain one (the shape `LightAggregator` expects)
    committed: bool,
    fixed: Vec<F>,
    advice: Vec<F>,
}

#[derive(Clone, Debug)]
pub struct DummyConfig {
    unqueried: Vec<Column<Fixed>>,
    fixed: Vec<Column<Fixed>>,
    advice: Vec<Column<Advice>>,
    instance: Column<Instance>,
}

impl DummyCircuit {
    /// Fixed values from `vk_seed` (the verifying key depends on them only), advice values from
    /// `w_seed`, `a_0` solved so that the gate holds on row 0.
    pub fn new(nf: usize, na: usize, vk_seed: u64, w_seed: u64) -> Self {
        Self::new_opt(nf, na, 0, false, vk_seed, w_seed)
    }

    pub fn new_opt(nf: usize, na: usize, n_unqueried: usize, committed: bool, vk_seed: u64, w_seed: u64) -> Self {
        assert!(nf >= 1 && na >= 2);
        let mut rf = ChaCha8Rng::seed_from_u64(vk_seed ^ 0xf1);
        let mut rw = ChaCha8Rng::seed_from_u64(w_seed ^ 0xa1);
        let fixed: Vec<F> = (0..nf).map(|_| F::random(&mut rf) + F::ONE).collect();
        let mut advice: Vec<F> = (0..na).map(|_| F::random(&mut rw)).collect();
        let n = nf.max(na);
        let mut c0 = F::ZERO;
        let mut rest = F::ZERO;
        for i in 0..n {
            if i % na == 0 {
                c0 += fixed[i % nf];
            } else {
                rest += fixed[i % nf] * advice[i % na];
            }
        }
        advice[0] = -rest * c0.invert().expect("coefficient of a_0 is zero (change the seed)");
        DummyCircuit { nf, na, n_unqueried, committed, fixed, advice }
    }
    /// Two public inputs (`a_0`, `a_1`) in the plain instance column; the committed column is empty.
    pub fn instances(&self) -> Vec<Vec<F>> {
        let plain = vec![self.advice[0], self.advice[1]];
        if self.committed {
            vec![vec![], plain]
        } else {
            vec![plain]
        }
    }
    pub fn n_committed(&self) -> usize {
        self.committed as usize
    }
}

impl Circuit<F> for DummyCircuit {
    type Config = DummyConfig;
    type FloorPlanner = SimpleFloorPlanner;
    type Params = (usize, usize, usize, bool);

    fn without_witnesses(&self) -> Self {
        self.clone()
    }

    fn params(&self) -> Self::Params {
        (self.nf, self.na, self.n_unqueried, self.committed)
    }

    fn configure(_meta: &mut ConstraintSystem<F>) -> Self::Config {
        unreachable!("configure_with_params is used")
    }

    fn configure_with_params(meta: &mut ConstraintSystem<F>, (nf, na, n_unqueried, committed): (usize, usize, usize, bool)) -> DummyConfig {
        let advice: Vec<_> = (0..na).map(|_| meta.advice_column()).collect();
        // the unqueried columns come FIRST, so that the queried ones do not start at index 0
        let unqueried: Vec<_> = (0..n_unqueried).map(|_| meta.fixed_column()).collect();
        let fixed: Vec<_> = (0..nf).map(|_| meta.fixed_column()).collect();
        if committed {
            let _committed_instance = meta.instance_column();
        }
        let instance = meta.instance_column();
        for c in &advice {
            meta.enable_equality(*c);
        }
        meta.enable_equality(instance);
        meta.create_gate("lin", |m| {
            let mut e: Option<Expression<F>> = None;
            for i in 0..nf.max(na) {
                let t = m.query_fixed(fixed[i % nf], Rotation::cur()) * m.query_advice(advice[i % na], Rotation::cur());
                e = Some(match e {
                    None => t,
                    Some(e) => e + t,
                });
            }
            Constraints::without_selector(vec![e.unwrap()])
        });
        DummyConfig { unqueried, fixed, advice, instance }
    }

    fn synthesize(&self, config: DummyConfig, mut layouter: impl Layouter<F>) -> Result<(), Error> {
        let cells = layouter.assign_region(
            || "dummy",
            |mut region| {
                for (i, col) in config.fixed.iter().enumerate() {
                    region.assign_fixed(|| "f", *col, 0, || Value::known(self.fixed[i]))?;
                }
                for (i, col) in config.unqueried.iter().enumerate() {
                    region.assign_fixed(|| "u", *col, 0, || Value::known(F::from(7 + i as u64)))?;
                }
                let mut first = vec![];
                for (j, col) in config.advice.iter().enumerate() {
                    let cell = region.assign_advice(|| "a", *col, 0, || Value::known(self.advice[j]))?;
                    // row 1: a copy of row 0 (all fixed values are zero there, so the gate holds)
                    cell.copy_advice(|| "copy", &mut region, *col, 1)?;
                    if j < 2 {
                        first.push(cell);
                    }
                }
                Ok(first)
            },
        )?;
        layouter.constrain_instance(cells[0].cell(), config.instance, 0)?;
        layouter.constrain_instance(cells[1].cell(), config.instance, 1)
    }
}

/// Key generation and one honest proof of the dummy circuit, packaged as `gadget::Inner`.
fn make_dummy<H: TranscriptHash>(setup: &mut Setup, nf: usize, na: usize, vk_seed: u64, w_seed: u64) -> Result<Inner, String>
where
    F: Hashable<H> + Sampleable<H>,
    C: Hashable<H>,
{
    make_dummy_opt::<H>(setup, DummyCircuit::new(nf, na, vk_seed, w_seed), w_seed)
}

/// As `make_dummy` for any variant of the dummy circuit.
pub fn make_dummy_opt<H: TranscriptHash>(setup: &mut Setup, circuit: DummyCircuit, w_seed: u64) -> Result<Inner, String>
where
    F: Hashable<H> + Sampleable<H>,
    C: Hashable<H>,
{
    let mut k = 4;
    let pk = loop {
        let params = setup.get(k).clone();
        match keygen_vk_with_k::<F, Scheme, _>(&params, &circuit, k) {
            Ok(vk) => break keygen_pk(vk, &circuit).map_err(|e| format!("{e:?}"))?,
            Err(_) if k < 8 => k += 1,
            Err(e) => return Err(format!("keygen failed: {e:?}")),
        }
    };
    let params = setup.get(k).clone();
    let shape = shape_string(&pk, k);
    let insts = circuit.instances();
    let inst_refs: Vec<&[F]> = insts.iter().map(|c| &c[..]).collect();
    let mut tr = CircuitTranscript::<H>::init();
    let nc = circuit.n_committed();
    create_proof::<F, Scheme, _, _>(&params, &pk, &[circuit.clone()], nc, &[&inst_refs[..]], ChaCha8Rng::seed_from_u64(w_seed ^ 0xbeef), &mut tr)
        .map_err(|e| format!("create_proof: {e:?}"))?;
    let proof = tr.finalize();
    let domain = pk.get_vk().get_domain();
    let commitments: Vec<C> = insts[..nc].iter().map(|c| commit_to_instances::<F, Scheme>(&params, domain, c)).collect();
    let fp = FamParams { n_committed: nc, n_plain: 1, ..FamParams::default() };
    Ok(Inner { fp, k, shape, pk, insts, commitments, proof })
}

// ---------------------------------------------------------------------------------------------
// Text form of accumulators (bases as the single field element of `base_key`: opaque labels)
// ---------------------------------------------------------------------------------------------

fn msm_text(m: &MsmView) -> String {
    let b: Vec<String> = m.terms.iter().map(|t| t.0.clone()).collect();
    let s: Vec<String> = m.terms.iter().map(|t| t.1.clone()).collect();
    let f = if m.fixed.is_empty() { "-".to_string() } else { m.fixed.iter().map(|(k, v)| format!("{k}={v}")).collect::<Vec<_>>().join(",") };
    format!("{};{};{}", mzkh::join(&b), mzkh::join(&s), f)
}

pub fn acc_text(a: &AccView) -> String {
    format!("{}/{}", msm_text(&a.lhs), msm_text(&a.rhs))
}

pub fn names_text(n: &[String]) -> String {
    if n.is_empty() {
        "-".into()
    } else {
        n.join(",")
    }
}

thread_local! {
    static CARRY_VAL: std::cell::RefCell<Vec<(String, AccView)>> = const { std::cell::RefCell::new(Vec::new()) };
    static CARRY_PI: std::cell::RefCell<Vec<(String, Vec<F>)>> = const { std::cell::RefCell::new(Vec::new()) };
}

fn stash_val(tag: &str, v: AccView) {
    CARRY_VAL.with(|l| l.borrow_mut().push((tag.to_string(), v)));
}
fn stash_pi(tag: &str, v: Vec<F>) {
    CARRY_PI.with(|l| l.borrow_mut().push((tag.to_string(), v)));
}
fn take_val(tag: &str) -> Option<AccView> {
    CARRY_VAL.with(|l| {
        let mut l = l.borrow_mut();
        let r = l.iter().rev().find(|(t, _)| t == tag).map(|(_, v)| v.clone());
        l.clear();
        r
    })
}
fn take_pi(tag: &str) -> Option<Vec<F>> {
    CARRY_PI.with(|l| {
        let mut l = l.borrow_mut();
        let r = l.iter().rev().find(|(t, _)| t == tag).map(|(_, v)| v.clone());
        l.clear();
        r
    })
}

/// Shape of a carried accumulator as the circuit is told it.
#[derive(Clone, Debug)]
pub struct CarryShape {
    lhs_len: usize,
    rhs_len: usize,
    lhs_names: Vec<String>,
    rhs_names: Vec<String>,
}

// ---------------------------------------------------------------------------------------------
// Light back-end: carry circuit and IVC-step circuit
// ---------------------------------------------------------------------------------------------

fn light_configure(meta: &mut ConstraintSystem<F>) -> (NativeConfig, PoseidonConfig<F>) {
    let nb_advice_cols = std::cmp::max(NB_ARITH_COLS, NB_POSEIDON_ADVICE_COLS);
    let nb_fixed_cols = std::cmp::max(NB_ARITH_FIXED_COLS, NB_POSEIDON_FIXED_COLS);
    let advice_columns: Vec<_> = (0..nb_advice_cols).map(|_| meta.advice_column()).collect();
    let fixed_columns: Vec<_> = (0..nb_fixed_cols).map(|_| meta.fixed_column()).collect();
    let committed_instance_column = meta.instance_column();
    let instance_column = meta.instance_column();
    let native_config = NativeChip::configure(
        meta,
        &(
            advice_columns[..NB_ARITH_COLS].try_into().unwrap(),
            fixed_columns[..NB_ARITH_FIXED_COLS].try_into().unwrap(),
            [committed_instance_column, instance_column],
        ),
    );
    let poseidon_config = PoseidonChip::configure(
        meta,
        &(
            advice_columns[..NB_POSEIDON_ADVICE_COLS].try_into().unwrap(),
            fixed_columns[..NB_POSEIDON_FIXED_COLS].try_into().unwrap(),
        ),
    );
    (native_config, poseidon_config)
}

/// With `inner = Some(..)`: the IVC step (verify the proof, accumulate with the carried
/// accumulator); with `None`: the carried accumulator alone.
#[derive(Clone, Debug)]
pub struct LightCarryCircuit {
    pub inner: Option<crate::gadget::LightVerifierCircuit>,
    pub shape: CarryShape,
    pub carried: Value<Accumulator<Light>>,
    /// `Some(b)`: after witnessing the carried accumulator, `AssignedAccumulator::scale_by_bit`
    /// with a witnessed bit `b` (the genesis switch of `zk_stdlib/examples/ivc.rs`).
    pub scale_bit: Option<bool>,
}

impl Circuit<F> for LightCarryCircuit {
    type Config = (NativeConfig, PoseidonConfig<F>);
    type FloorPlanner = SimpleFloorPlanner;
    type Params = ();

    fn without_witnesses(&self) -> Self {
        unreachable!()
    }

    fn configure(meta: &mut ConstraintSystem<F>) -> Self::Config {
        light_configure(meta)
    }

    fn synthesize(&self, config: Self::Config, mut layouter: impl Layouter<F>) -> Result<(), Error> {
        let scalar_chip = NativeChip::new(&config.0, &());
        let sponge_chip = PoseidonChip::new(&config.1, &scalar_chip);
        let curve_chip = FakeCurveChip::<C>::new(&scalar_chip);
        let verifier = VerifierGadget::<Light>::new(&curve_chip, &scalar_chip, &sponge_chip);

        let proof_acc = match &self.inner {
            Some(v) => {
                let vk: AssignedVk<Light> =
                    verifier.assign_vk_as_public_input(&mut layouter, VK_NAME, &v.inner_vk.0, &v.inner_vk.1, v.inner_vk.2)?;
                let committed: Vec<FakePoint<C>> = v
                    .committed
                    .iter()
                    .map(|p| curve_chip.assign_as_public_input(&mut layouter, *p))
                    .collect::<Result<_, Error>>()?;
                let instances: Vec<Vec<AssignedNative<F>>> = v
                    .instances
                    .iter()
                    .map(|col| col.iter().map(|x| scalar_chip.assign_as_public_input(&mut layouter, *x)).collect::<Result<Vec<_>, Error>>())
                    .collect::<Result<_, Error>>()?;
                let inst_refs: Vec<&[AssignedNative<F>]> = instances.iter().map(|c| &c[..]).collect();
                Some(verifier.prepare(&mut layouter, &vk, &committed, &inst_refs, v.proof.clone())?)
            }
            None => None,
        };

        // exactly what the IVC example does to carry the accumulator of the previous step
        let mut carried = AssignedAccumulator::<Light>::assign(
            &mut layouter,
            &curve_chip,
            &scalar_chip,
            self.shape.lhs_len,
            self.shape.rhs_len,
            &self.shape.lhs_names,
            &self.shape.rhs_names,
            self.carried.clone(),
        )?;
        if let Some(b) = self.scale_bit {
            let bit: midnight_circuits::types::AssignedBit<F> = scalar_chip.assign(&mut layouter, Value::known(b))?;
            AssignedAccumulator::<Light>::scale_by_bit(&mut layouter, &scalar_chip, &bit, &mut carried)?;
        }
        {
            let cells = PublicInputInstructions::<F, AssignedAccumulator<Light>>::as_public_input(&verifier, &mut layouter, &carried)?;
            let vals: Value<Vec<F>> = Value::from_iter(cells.iter().map(|c| c.value().copied()));
            vals.map(|v| stash_pi("carried", v));
        }
        let out = match proof_acc {
            Some(proof_acc) => {
                let next = AssignedAccumulator::<Light>::accumulate(&mut layouter, &verifier, &scalar_chip, &sponge_chip, &[proof_acc, carried])?;
                let cells = PublicInputInstructions::<F, AssignedAccumulator<Light>>::as_public_input(&verifier, &mut layouter, &next)?;
                let vals: Value<Vec<F>> = Value::from_iter(cells.iter().map(|c| c.value().copied()));
                vals.map(|v| stash_pi("next", v));
                next
            }
            None => carried,
        };
        verifier.constrain_as_public_input(&mut layouter, &out)?;

        scalar_chip.load(&mut layouter)?;
        sponge_chip.load(&mut layouter)?;
        curve_chip.finalize()
    }
}

// ---------------------------------------------------------------------------------------------
// Foreign back-end: carry circuit (the layout of the IVC example, MockProver at K = 12)
// ---------------------------------------------------------------------------------------------

#[derive(Clone, Debug)]
pub struct ForeignCarryCircuit {
    pub shape: CarryShape,
    pub carried: Value<Accumulator<Foreign>>,
}

impl Circuit<F> for ForeignCarryCircuit {
    type Config = (NativeConfig, P2RDecompositionConfig, ForeignEccConfig<C>, PoseidonConfig<F>);
    type FloorPlanner = SimpleFloorPlanner;
    type Params = ();

    fn without_witnesses(&self) -> Self {
        unreachable!()
    }

    fn configure(meta: &mut ConstraintSystem<F>) -> Self::Config {
        let nb_advice_cols = nb_foreign_ecc_chip_columns::<F, C, C, NG>();
        let nb_fixed_cols = NB_ARITH_COLS + 4;
        let advice_columns: Vec<_> = (0..nb_advice_cols).map(|_| meta.advice_column()).collect();
        let fixed_columns: Vec<_> = (0..nb_fixed_cols).map(|_| meta.fixed_column()).collect();
        let committed_instance_column = meta.instance_column();
        let instance_column = meta.instance_column();
        let native_config = NativeChip::configure(
            meta,
            &(
                advice_columns[..NB_ARITH_COLS].try_into().unwrap(),
                fixed_columns[..NB_ARITH_COLS + 4].try_into().unwrap(),
                [committed_instance_column, instance_column],
            ),
        );
        let core_decomp_config = {
            let pow2_config = Pow2RangeChip::configure(meta, &advice_columns[1..NB_ARITH_COLS]);
            P2RDecompositionChip::configure(meta, &(native_config.clone(), pow2_config))
        };
        let base_config = FieldChip::<F, CBase, C, NG>::configure(meta, &advice_columns);
        let curve_config = ForeignEccChip::<F, C, C, NG, NG>::configure(meta, &base_config, &advice_columns);
        let poseidon_config = PoseidonChip::configure(
            meta,
            &(
                advice_columns[..NB_POSEIDON_ADVICE_COLS].try_into().unwrap(),
                fixed_columns[..NB_POSEIDON_FIXED_COLS].try_into().unwrap(),
            ),
        );
        (native_config, core_decomp_config, curve_config, poseidon_config)
    }

    fn synthesize(&self, config: Self::Config, mut layouter: impl Layouter<F>) -> Result<(), Error> {
        let native_chip = <NativeChip<F> as ComposableChip<F>>::new(&config.0, &());
        let core_decomp_chip = P2RDecompositionChip::new(&config.1, &10);
        let scalar_chip = NativeGadget::new(core_decomp_chip.clone(), native_chip.clone());
        let curve_chip = ForeignEccChip::new(&config.2, &scalar_chip, &scalar_chip);
        let poseidon_chip = PoseidonChip::new(&config.3, &native_chip);
        let verifier = VerifierGadget::<Foreign>::new(&curve_chip, &scalar_chip, &poseidon_chip);

        let carried = AssignedAccumulator::<Foreign>::assign(
            &mut layouter,
            &curve_chip,
            &scalar_chip,
            self.shape.lhs_len,
            self.shape.rhs_len,
            &self.shape.lhs_names,
            &self.shape.rhs_names,
            self.carried.clone(),
        )?;
        carried.value().map(|v| stash_val("carried", acc_view::<Foreign>(&v)));
        verifier.constrain_as_public_input(&mut layouter, &carried)?;
        core_decomp_chip.load(&mut layouter)
    }
}

// ---------------------------------------------------------------------------------------------
// Driver
// ---------------------------------------------------------------------------------------------

/// `ivc.rs: trivial_acc` (the base is the default point, scalar one; zero under every name).
fn trivial_acc<S: SelfEmulation<F = F, C = C>>(names: &[String]) -> Accumulator<S> {
    Accumulator::<S>::new(
        Msm::new(&[C::default()], &[F::ONE], &BTreeMap::new()),
        Msm::new(&[C::default()], &[F::ONE], &names.iter().map(|n| (n.clone(), F::ZERO)).collect()),
    )
}

/// What the public-input vector of `acc` would be if the fixed-base scalars of its right-hand
/// side (taken in key order) were attached to `names` IN THE GIVEN ORDER and then listed in key
/// order — the instance a circuit that pairs names and scalars without sorting the names exposes.
fn pi_with_unsorted_pairing<S: SelfEmulation<F = F, C = C>>(acc: &Accumulator<S>, names: &[String]) -> Option<Vec<F>> {
    let rhs = acc.rhs();
    let scalars: Vec<F> = rhs.fixed_base_scalars().values().copied().collect();
    if scalars.len() != names.len() {
        return None;
    }
    let paired: BTreeMap<String, F> = names.iter().cloned().zip(scalars).collect();
    let permuted = Accumulator::<S>::new(acc.lhs(), Msm::new(&rhs.bases(), &rhs.scalars(), &paired));
    Some(AssignedAccumulator::<S>::as_public_input(&permuted))
}

fn shape_of<S: SelfEmulation<F = F, C = C>>(acc: &Accumulator<S>, rhs_names: Vec<String>) -> CarryShape {
    CarryShape {
        lhs_len: acc.lhs().bases().len(),
        rhs_len: acc.rhs().bases().len(),
        lhs_names: acc.lhs().fixed_base_scalars().keys().cloned().collect(),
        rhs_names,
    }
}

fn assign_line(shape: &CarryShape, acc: &AccView) -> String {
    format!(
        "acc-assign {} {} {} {} {}",
        shape.lhs_len,
        shape.rhs_len,
        names_text(&shape.lhs_names),
        names_text(&shape.rhs_names),
        acc_text(acc)
    )
}

/// The instance alterations every carry / IVC circuit must reject: `(what, instance)`.
fn alterations(rng: &mut ChaCha8Rng, pi: &[F], acc_start: usize, extra: Vec<(&'static str, Vec<F>)>, n_random: usize) -> Vec<(String, Vec<F>)> {
    let mut out: Vec<(String, Vec<F>)> = vec![];
    let n = pi.len();
    if n >= 2 && pi[n - 1] != pi[n - 2] {
        let mut p = pi.to_vec();
        p.swap(n - 1, n - 2);
        out.push(("last-two-swapped".into(), p));
    }
    for (w, p) in extra {
        if p != pi {
            out.push((w.into(), p));
        }
    }
    for _ in 0..n_random {
        let idx = rng.gen_range(acc_start..n);
        let mut p = pi.to_vec();
        p[idx] += F::ONE;
        out.push((format!("plus-one@{}", idx - acc_start), p));
    }
    out
}

/// One verifying-key size through the light back-end: carry circuit and IVC-step circuit.
pub fn run_light(ctx: &mut Ctx, setup: &mut Setup, nf: usize, np: usize, seed: u64, n_mut: usize) {
    type H = LightPoseidonFS<F>;
    let mut rng = ChaCha8Rng::seed_from_u64(seed ^ 0xca44);
    let key = format!("light:nf={nf},np={np}");
    let desc = json!({"backend": "light", "fixed_columns": nf, "permutation_columns": np, "seed": seed,
        "inner": "harness/c20/src/carry.rs DummyCircuit (nf fixed columns, np-1 advice columns + 1 instance column, all equality-enabled)"});
    assert!(np >= 2);
    let (inner1, inner2) = match (make_dummy::<H>(setup, nf, np - 1, seed, seed + 1), make_dummy::<H>(setup, nf, np - 1, seed, seed + 2)) {
        (Ok(a), Ok(b)) => (a, b),
        (a, b) => {
            ctx.oracle_fail(&format!("carry-inner-proof:{key}"), "key generation or honest inner proof of the dummy circuit failed", json!({"case": desc, "errors": [a.err(), b.err()]}));
            return;
        }
    };
    let vk = inner1.vk();
    let (nfc, npc) = (vk.fixed_commitments().len(), vk.permutation().commitments().len());
    ctx.count(&format!("carry:light:fixed-commitments={nfc}"));
    ctx.count(&format!("carry:light:perm-commitments={npc}"));
    let fb = fixed_bases::<Light>(VK_NAME, vk);
    let names = verifier::fixed_base_names::<Light>(VK_NAME, nfc, npc);
    // names: numeric order (the code) and BTreeMap order (the real verifying key) vs the model
    ctx.case(
        "fbnames",
        true,
        &format!("fbnames {VK_NAME} {nfc} {npc}"),
        &format!("{}|{}", names_text(&names), names_text(&fb.keys().cloned().collect::<Vec<_>>())),
    );
    let params = setup.get(inner1.k).clone();
    let mut accs = vec![];
    for inner in [&inner1, &inner2] {
        match off_circuit::<H>(inner, &inner.insts, &inner.commitments, &inner.proof) {
            Ok((g, _)) if g.clone().check(&params.verifier_params()) => accs.push(Accumulator::<Light>::from_dual_msm(g, VK_NAME, &fb)),
            other => {
                ctx.oracle_fail(&format!("carry-inner-rejected:{key}"), "the off-circuit verifier rejects an honest proof of the dummy circuit", json!({"case": desc, "error": other.err()}));
                return;
            }
        }
    }
    let (acc1, acc2) = (accs[0].clone(), accs[1].clone());
    // the accumulator carried into the next step, as the IVC example builds it
    let all_names: Vec<String> = fb.keys().cloned().collect();
    let carried = Accumulator::<Light>::accumulate(&[acc1.clone(), trivial_acc::<Light>(&all_names)]);
    if !carried.check(&params.s_g2().into(), &fb) {
        ctx.oracle_fail(&format!("carry-acc-check:{key}"), "accumulate(proof accumulator, trivial accumulator) fails Accumulator::check", json!({"case": desc}));
    }
    let other = Accumulator::<Light>::accumulate(&[acc2.clone(), trivial_acc::<Light>(&all_names)]);
    let shape = shape_of(&carried, names.clone());
    let carried_view = acc_view::<Light>(&carried);
    ctx.count_n("carry:light:rhs-fixed", carried_view.rhs.fixed.len() as u64);

    // ---- (A) the carried accumulator alone
    let pi = AssignedAccumulator::<Light>::as_public_input(&carried);
    let circuit = LightCarryCircuit { inner: None, shape: shape.clone(), carried: Value::known(carried.clone()), scale_bit: None };
    let Some(k_a) = find_k(6, 14, &circuit, &pi) else {
        let e = mock(14, &circuit, pi.clone()).err();
        ctx.oracle_fail(&format!("carry-fails:{key}"), "the circuit that witnesses a carried accumulator cannot be synthesised", json!({"case": desc, "error": e}));
        return;
    };
    let (ok, _) = mock(k_a, &circuit, pi.clone()).unwrap();
    let in_view = take_pi("carried").and_then(|v| acc_of_light_pi(&v, &carried_view));
    match &in_view {
        Some(v) => {
            ctx.case("acc-assign", true, &assign_line(&shape, &carried_view), &acc_text(v));
            if *v != carried_view {
                let misplaced: Vec<&String> = (carried_view.rhs.fixed.iter().zip(v.rhs.fixed.iter())).filter(|(a, b)| a != b).map(|(a, _)| &a.0).collect();
                ctx.oracle_fail(
                    &format!("carry-misassigned:{key}"),
                    "AssignedAccumulator::assign: the accumulator held by the circuit is not the witnessed one (fixed-base scalars under wrong names)",
                    json!({"case": desc, "names_given": shape.rhs_names, "misplaced": misplaced, "witnessed": acc_text(&carried_view), "assigned": acc_text(v)}),
                );
            }
        }
        None => ctx.oracle_fail(&format!("carry-no-value:{key}"), "the carry circuit exposed no accumulator of the witnessed shape", json!({"case": desc})),
    }
    if !ok {
        ctx.oracle_fail(
            &format!("carry-rejects-own:{key}"),
            "a circuit that witnesses an accumulator (AssignedAccumulator::assign) and exposes it is NOT satisfied by as_public_input of that accumulator",
            json!({"case": desc, "names_given": shape.rhs_names}),
        );
    } else {
        ctx.count("carry:light:own-accepted");
    }
    let extra = vec![
        ("other-accumulator", AssignedAccumulator::<Light>::as_public_input(&other)),
        ("names-paired-unsorted", pi_with_unsorted_pairing(&carried, &names).unwrap_or_else(|| pi.clone())),
    ];
    for (what, p) in alterations(&mut rng, &pi, 0, extra, n_mut) {
        ctx.count(&format!("carry:light:altered:{}", what.split('@').next().unwrap()));
        match mock(k_a, &circuit, p) {
            Ok((false, _)) => {}
            Ok((true, _)) => ctx.oracle_fail(&format!("carry-accepts-other:{key}"), "the carry circuit is satisfied by an instance other than as_public_input of the witnessed accumulator", json!({"case": desc, "alteration": what})),
            Err(e) => ctx.oracle_fail(&format!("carry-fails:{key}"), "the carry circuit fails to synthesise", json!({"case": desc, "error": e})),
        }
    }
    // ---- (A') AssignedAccumulator::scale_by_bit on the carried accumulator, bit = 1 and bit = 0:
    // the circuit must expose bit * acc (every scalar of BOTH sides, variable and fixed-base)
    for b in [true, false] {
        let sc = if b { F::ONE } else { F::ZERO };
        let scale = |m: &Msm<Light>| Msm::<Light>::new(
            &m.bases(),
            &m.scalars().iter().map(|s| *s * sc).collect::<Vec<_>>(),
            &m.fixed_base_scalars().iter().map(|(k, v)| (k.clone(), *v * sc)).collect(),
        );
        let scaled = Accumulator::<Light>::new(scale(&carried.lhs()), scale(&carried.rhs()));
        let scaled_view = acc_view::<Light>(&scaled);
        let pi_s = AssignedAccumulator::<Light>::as_public_input(&scaled);
        let circuit = LightCarryCircuit { inner: None, shape: shape.clone(), carried: Value::known(carried.clone()), scale_bit: Some(b) };
        ctx.count(&format!("carry:light:scale-by-bit={}", b as u8));
        match mock(k_a + 1, &circuit, pi_s.clone()) {
            Ok((ok, _)) => {
                let in_view = take_pi("carried").and_then(|v| acc_of_light_pi(&v, &carried_view));
                if let Some(v) = &in_view {
                    ctx.case("acc-scale-bit", true, &format!("acc-scale-bit {} {}", b as u8, acc_text(&carried_view)), &acc_text(v));
                }
                if !ok || in_view.as_ref() != Some(&scaled_view) {
                    ctx.oracle_fail(
                        &format!("carry-scale-by-bit:{}", b as u8),
                        "AssignedAccumulator::scale_by_bit: the accumulator the circuit holds after scaling by a bit is not bit * acc on both sides (for bit = 0 it must be the neutral accumulator)",
                        json!({"case": desc, "bit": b, "satisfied_by_bit_times_acc": ok, "expected": acc_text(&scaled_view), "in_circuit": in_view.as_ref().map(acc_text)}),
                    );
                }
                if !b && !scaled.check(&params.s_g2().into(), &fb) {
                    ctx.oracle_fail("carry-scale-by-bit:neutral-check", "0 * acc does not satisfy Accumulator::check", json!({"case": desc}));
                }
            }
            Err(e) => ctx.oracle_fail(&format!("carry-fails:{key}"), "the scale_by_bit circuit fails to synthesise", json!({"case": desc, "error": e})),
        }
    }

    // ---- (B) the IVC step: verify proof 2 in-circuit, accumulate with the carried accumulator
    let next_off = Accumulator::<Light>::accumulate(&[acc2.clone(), carried.clone()]);
    if !next_off.check(&params.s_g2().into(), &fb) {
        ctx.oracle_fail(&format!("ivc-acc-check:{key}"), "off-circuit IVC step: accumulate(proof accumulator, carried) fails Accumulator::check", json!({"case": desc}));
    }
    let next_view = acc_view::<Light>(&next_off);
    let pi = light_instance(&inner2, &inner2.insts, &inner2.commitments, &next_off);
    let acc_start = pi.len() - AssignedAccumulator::<Light>::as_public_input(&next_off).len();
    let circuit = LightCarryCircuit {
        inner: Some(crate::gadget::light_circuit(&inner2, &inner2.insts, &inner2.commitments, &inner2.proof)),
        shape: shape.clone(),
        carried: Value::known(carried.clone()),
        scale_bit: None,
    };
    let Some(k_b) = find_k(10, 17, &circuit, &pi) else {
        let e = mock(17, &circuit, pi.clone()).err();
        ctx.oracle_fail(&format!("ivc-fails:{key}"), "the IVC-step circuit cannot be synthesised", json!({"case": desc, "error": e}));
        return;
    };
    ctx.count(&format!("carry:light:ivc_k={k_b}"));
    let (ok, _) = mock(k_b, &circuit, pi.clone()).unwrap();
    let _ = crate::verify::take_arith();
    let hash_input: Vec<F> = [&acc2, &carried].iter().flat_map(|a| AssignedAccumulator::<Light>::as_public_input(a)).collect();
    let r = <PoseidonChip<F> as HashCPU<F, F>>::hash(&hash_input);
    let line = format!(
        "ivc-step {} {} {} {} {} {} {}",
        shape.lhs_len,
        shape.rhs_len,
        names_text(&shape.lhs_names),
        names_text(&shape.rhs_names),
        fe_hex(&r),
        acc_text(&acc_view::<Light>(&acc2)),
        acc_text(&carried_view)
    );
    match take_pi("next").and_then(|v| acc_of_light_pi(&v, &next_view)) {
        Some(v) => {
            ctx.case("ivc-step", true, &line, &acc_text(&v));
            ctx.count_n("ivc-step:rhs-terms", v.rhs.terms.len() as u64);
            if v != next_view {
                ctx.oracle_fail(
                    &format!("ivc-differs:{key}"),
                    "IVC step: AssignedAccumulator::accumulate(&[proof_acc, carried]) in-circuit differs from Accumulator::accumulate off-circuit",
                    json!({"case": desc, "in": acc_text(&v), "off": acc_text(&next_view)}),
                );
            }
        }
        None => ctx.oracle_fail(&format!("ivc-no-value:{key}"), "the IVC-step circuit exposed no accumulator of the off-circuit shape", json!({"case": desc})),
    }
    if !ok {
        ctx.oracle_fail(
            &format!("ivc-rejects-own:{key}"),
            "IVC step: the circuit (verify a proof, carry an accumulator, accumulate) is NOT satisfied by the off-circuit Accumulator::accumulate(&[proof_acc, carried])",
            json!({"case": desc}),
        );
    } else {
        ctx.count("carry:light:ivc-accepted");
    }
    let extra = vec![("other-accumulator", light_instance(&inner2, &inner2.insts, &inner2.commitments, &Accumulator::<Light>::accumulate(&[acc2.clone(), other.clone()])))];
    for (what, p) in alterations(&mut rng, &pi, acc_start, extra, n_mut.min(2)) {
        ctx.count(&format!("carry:light:ivc-altered:{}", what.split('@').next().unwrap()));
        match mock(k_b, &circuit, p) {
            Ok((false, _)) => {}
            Ok((true, _)) => ctx.oracle_fail(&format!("ivc-accepts-other:{key}"), "the IVC-step circuit is satisfied by an instance other than the off-circuit accumulated accumulator", json!({"case": desc, "alteration": what})),
            Err(e) => ctx.oracle_fail(&format!("ivc-fails:{key}"), "the IVC-step circuit fails to synthesise", json!({"case": desc, "error": e})),
        }
    }
    let _ = crate::verify::take_arith();
}

/// One verifying-key size through the foreign-curve back-end: the carry circuit of the IVC example
/// (collapsed accumulator, one base per side), MockProver at `K = 12`.
pub fn run_foreign(ctx: &mut Ctx, setup: &mut Setup, nf: usize, np: usize, seed: u64, n_mut: usize) {
    type H = PoseidonState<F>;
    const K: u32 = 12;
    let mut rng = ChaCha8Rng::seed_from_u64(seed ^ 0xf044);
    let key = format!("foreign:nf={nf},np={np}");
    let desc = json!({"backend": "foreign", "fixed_columns": nf, "permutation_columns": np, "seed": seed, "outer_k": K,
        "inner": "harness/c20/src/carry.rs DummyCircuit"});
    let (inner1, inner2) = match (make_dummy::<H>(setup, nf, np - 1, seed, seed + 1), make_dummy::<H>(setup, nf, np - 1, seed, seed + 2)) {
        (Ok(a), Ok(b)) => (a, b),
        (a, b) => {
            ctx.oracle_fail(&format!("carry-inner-proof:{key}"), "key generation or honest inner proof of the dummy circuit failed", json!({"case": desc, "errors": [a.err(), b.err()]}));
            return;
        }
    };
    let vk = inner1.vk();
    let (nfc, npc) = (vk.fixed_commitments().len(), vk.permutation().commitments().len());
    ctx.count(&format!("carry:foreign:fixed-commitments={nfc}"));
    ctx.count(&format!("carry:foreign:perm-commitments={npc}"));
    let fb = fixed_bases::<Foreign>(VK_NAME, vk);
    let names = verifier::fixed_base_names::<Foreign>(VK_NAME, nfc, npc);
    let params = setup.get(inner1.k).clone();
    let all_names: Vec<String> = fb.keys().cloned().collect();
    let mut carried_accs = vec![];
    for inner in [&inner1, &inner2] {
        match off_circuit::<H>(inner, &inner.insts, &inner.commitments, &inner.proof) {
            Ok((g, _)) if g.clone().check(&params.verifier_params()) => {
                // as `ivc.rs: main`: collapse the proof accumulator, accumulate with the trivial one, collapse
                let mut a = Accumulator::<Foreign>::from_dual_msm(g, VK_NAME, &fb);
                a.collapse();
                let mut c = Accumulator::<Foreign>::accumulate(&[a, trivial_acc::<Foreign>(&all_names)]);
                c.collapse();
                carried_accs.push(c);
            }
            other => {
                ctx.oracle_fail(&format!("carry-inner-rejected:{key}"), "the off-circuit verifier rejects an honest proof of the dummy circuit", json!({"case": desc, "error": other.err()}));
                return;
            }
        }
    }
    let (carried, other) = (carried_accs[0].clone(), carried_accs[1].clone());
    if !carried.check(&params.s_g2().into(), &fb) {
        ctx.oracle_fail(&format!("carry-acc-check:{key}"), "the collapsed accumulated accumulator fails Accumulator::check", json!({"case": desc}));
    }
    let shape = shape_of(&carried, names.clone());
    let carried_view = acc_view::<Foreign>(&carried);
    let pi = AssignedAccumulator::<Foreign>::as_public_input(&carried);
    let circuit = ForeignCarryCircuit { shape: shape.clone(), carried: Value::known(carried.clone()) };
    let (ok, _) = match mock(K, &circuit, pi.clone()) {
        Ok(x) => x,
        Err(e) => {
            ctx.oracle_fail(&format!("carry-fails:{key}"), "the circuit that witnesses a carried accumulator cannot be synthesised", json!({"case": desc, "error": e}));
            return;
        }
    };
    let _ = crate::verify::take_arith();
    match take_val("carried") {
        Some(v) => {
            ctx.case("acc-assign", true, &assign_line(&shape, &carried_view), &acc_text(&v));
            if v != carried_view {
                let misplaced: Vec<&String> = (carried_view.rhs.fixed.iter().zip(v.rhs.fixed.iter())).filter(|(a, b)| a != b).map(|(a, _)| &a.0).collect();
                ctx.oracle_fail(
                    &format!("carry-misassigned:{key}"),
                    "AssignedAccumulator::assign: the accumulator held by the circuit is not the witnessed one (fixed-base scalars under wrong names)",
                    json!({"case": desc, "names_given": shape.rhs_names, "misplaced": misplaced, "witnessed": acc_text(&carried_view), "assigned": acc_text(&v)}),
                );
            }
        }
        None => ctx.oracle_fail(&format!("carry-no-value:{key}"), "the carry circuit returned no accumulator value", json!({"case": desc})),
    }
    if !ok {
        ctx.oracle_fail(
            &format!("carry-rejects-own:{key}"),
            "a circuit that witnesses an accumulator (AssignedAccumulator::assign) and exposes it is NOT satisfied by as_public_input of that accumulator",
            json!({"case": desc, "names_given": shape.rhs_names}),
        );
    } else {
        ctx.count("carry:foreign:own-accepted");
    }
    let extra = vec![
        ("other-accumulator", AssignedAccumulator::<Foreign>::as_public_input(&other)),
        ("names-paired-unsorted", pi_with_unsorted_pairing(&carried, &names).unwrap_or_else(|| pi.clone())),
    ];
    for (what, p) in alterations(&mut rng, &pi, 0, extra, n_mut) {
        ctx.count(&format!("carry:foreign:altered:{}", what.split('@').next().unwrap()));
        match mock(K, &circuit, p) {
            Ok((false, _)) => {}
            Ok((true, _)) => ctx.oracle_fail(&format!("carry-accepts-other:{key}"), "the carry circuit is satisfied by an instance other than as_public_input of the witnessed accumulator", json!({"case": desc, "alteration": what})),
            Err(e) => ctx.oracle_fail(&format!("carry-fails:{key}"), "the carry circuit fails to synthesise", json!({"case": desc, "error": e})),
        }
    }
    let _ = crate::verify::take_arith();
    let _ = (EvaluationDomain::<F>::new, base_key);
}

/// The sizes: (fixed columns, permutation columns).
pub fn run(ctx: &mut Ctx) {
    let mut setup = Setup::new();
    let sizes: Vec<(usize, usize)> = vec![(3, 3), (10, 10), (11, 11), (12, 12), (25, 25), (12, 3), (3, 12)];
    let (n_light, n_foreign, n_mut) = match ctx.tier.as_str() {
        "quick" => (5, 3, 2),
        "thorough" => (sizes.len(), sizes.len(), 6),
        // search: the sizes on which the two name orders differ first
        _ => (sizes.len(), 4, 3),
    };
    let order: Vec<usize> = if ctx.search() { vec![2, 3, 4, 5, 6, 1, 0] } else { (0..sizes.len()).collect() };
    for (n, &i) in order.iter().enumerate() {
        let (nf, np) = sizes[i];
        if n < n_light {
            run_light(ctx, &mut setup, nf, np, 1100 + i as u64, n_mut);
        }
    }
    // foreign back-end: quick = (3,3), (11,11), (25,25)
    let foreign_order: Vec<usize> = if ctx.search() { vec![2, 4, 5, 6, 0] } else { vec![0, 2, 4, 1, 3, 5, 6] };
    for (n, &i) in foreign_order.iter().enumerate() {
        let (nf, np) = sizes[i];
        if n < n_foreign {
            run_foreign(ctx, &mut setup, nf, np, 1200 + i as u64, n_mut);
        }
    }
}
