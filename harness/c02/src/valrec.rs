//! `ValTranscript`: like `mzkh::recording::RecordingTranscript` (a `Transcript` delegating to
//! `CircuitTranscript<Blake2bState>`), but it records the VALUE of every scalar read from the
//! proof and of every squeezed challenge, in order (the shared recorder logs no bytes for
//! squeezes). A squeezed challenge is learnt by squeezing a clone of the inner transcript as a
//! scalar first; the verifier then squeezes the real one. Group elements and absorbed (`common`)
//! values are not part of the stream. No hook in midnight-proofs is needed.

use std::cell::RefCell;
use std::io;

use blake2b_simd::State as Blake2bState;
use midnight_curves::Fq as F;
use midnight_proofs::transcript::{CircuitTranscript, Hashable, Sampleable, Transcript};

thread_local! {
    /// ('R' | 'S', canonical hex without prefix)
    static STREAM: RefCell<Vec<(char, String)>> = const { RefCell::new(Vec::new()) };
}

pub fn take_stream() -> Vec<(char, String)> {
    STREAM.with(|l| std::mem::take(&mut *l.borrow_mut()))
}

fn is_scalar<T>() -> bool {
    let n = std::any::type_name::<T>();
    let base = n.split('<').next().unwrap_or(n);
    matches!(base.rsplit("::").next().unwrap_or(base), "Fq" | "Scalar" | "Fr")
}

fn push(kind: char, hex: String) {
    STREAM.with(|l| l.borrow_mut().push((kind, hex)));
}

#[derive(Clone, Debug)]
pub struct ValTranscript {
    inner: CircuitTranscript<Blake2bState>,
}

impl Transcript for ValTranscript {
    type Hash = Blake2bState;

    fn init() -> Self {
        Self { inner: CircuitTranscript::<Blake2bState>::init() }
    }

    fn init_from_bytes(bytes: &[u8]) -> Self {
        Self { inner: CircuitTranscript::<Blake2bState>::init_from_bytes(bytes) }
    }

    fn squeeze_challenge<T: Sampleable<Blake2bState>>(&mut self) -> T {
        if is_scalar::<T>() {
            let mut c = self.inner.clone();
            let v: F = c.squeeze_challenge();
            push('S', mzkh::fe_hex(&v)[2..].to_string());
        } else {
            push('S', "?".to_string());
        }
        self.inner.squeeze_challenge()
    }

    fn common<T: Hashable<Blake2bState>>(&mut self, input: &T) -> io::Result<()> {
        self.inner.common(input)
    }

    fn read<T: Hashable<Blake2bState>>(&mut self) -> io::Result<T> {
        let v: T = self.inner.read()?;
        if is_scalar::<T>() {
            push('R', mzkh::le_bytes_hex(&v.to_bytes())[2..].to_string());
        }
        Ok(v)
    }

    fn write<T: Hashable<Blake2bState>>(&mut self, input: &T) -> io::Result<()> {
        self.inner.write(input)
    }

    fn finalize(self) -> Vec<u8> {
        self.inner.finalize()
    }

    fn assert_empty(&mut self) -> io::Result<()> {
        self.inner.assert_empty()
    }
}
