//! Correspondence harness of property C02: the verifier enforces every constraint class and
//! agrees with the mock checker.
//!
//! For members of the generated circuit family and for every (sampled) advice/instance cell ×
//! fault kind, three verdicts are produced on the SAME faulted assignment:
//!   real  = real `create_proof` + `prepare` + `verify` accepts,
//!   mock  = `MockProver::verify()` is Ok,
//!   model = `rowSat` evaluated by the Lean model on the dumped constraint system and table.
//! The request line carries the dumped constraint system and assignment table; the
//! implementation's answer line carries real and mock verdicts (and the failure classes the mock
//! checker reports); the Lean model must reproduce the line. Oracle: real == mock.

use blake2b_simd::{blake2b, State as Blake2bState};
use ff::{Field, FromUniformBytes};
use midnight_curves::{Bls12, Fq as F, G1Projective};
use midnight_proofs::{
    dev::{MockProver, VerifyFailure},
    plonk::{commit_to_instances, create_proof, keygen_pk, keygen_vk_with_k, prepare, ProvingKey},
    poly::{
        commitment::Guard,
        kzg::{params::ParamsKZG, KZGCommitmentScheme},
    },
    transcript::{CircuitTranscript, Transcript},
};
use mzkh::{
    copyrec::{requested_copies, CellRef},
    csdump::{cs_string, requested_copies_hold, table_string_requested},
    family::{sample_params, FamCircuit, FamParams, FaultKind, GateKind, LookupKind},
    Ctx,
};
use rand::{Rng, SeedableRng};
use rand_chacha::ChaCha8Rng;
use serde_json::json;

type Scheme = KZGCommitmentScheme<Bls12>;

fn mock_challenges(n: usize) -> Vec<F> {
    let mut hash: [u8; 64] = blake2b(b"Halo2-MockProver").as_bytes().try_into().unwrap();
    (0..n)
        .map(|_| {
            hash = blake2b(&hash).as_bytes().try_into().unwrap();
            F::from_uniform_bytes(&hash)
        })
        .collect()
}

struct Member {
    fp: FamParams,
    k: u32,
    params: ParamsKZG<Bls12>,
    pk: ProvingKey<F, Scheme>,
    cs_line: String,
    n_challenges: usize,
    /// copy constraints requested by the circuit (independent of the keygen Assembly)
    copies: Vec<(CellRef, CellRef)>,
}

fn setup_member(fp: &FamParams, seed: u64) -> Member {
    let c = FamCircuit::new(fp.clone(), seed);
    let mut k = 4;
    loop {
        let params = ParamsKZG::<Bls12>::unsafe_setup(k, ChaCha8Rng::seed_from_u64(k as u64 + 99));
        match keygen_vk_with_k::<F, Scheme, _>(&params, &c, k) {
            Ok(vk) => {
                let pk = keygen_pk(vk, &c).unwrap();
                let cs_line = cs_string(pk.get_vk().cs());
                let n_challenges = pk.get_vk().cs().num_challenges();
                let copies = requested_copies::<F, _>(&c);
                return Member { fp: fp.clone(), k, params, pk, cs_line, n_challenges, copies };
            }
            Err(_) if k < 10 => k += 1,
            Err(e) => panic!("keygen failed: {e:?}"),
        }
    }
}

/// Real prover + verifier on (possibly faulted) circuit and instances.
fn real_verdict(m: &Member, circuit: &FamCircuit, insts: &[Vec<F>], seed: u64) -> Result<bool, String> {
    let nc = m.fp.n_committed;
    let inst_refs: Vec<&[F]> = insts.iter().map(|c| &c[..]).collect();
    let mut tr = CircuitTranscript::<Blake2bState>::init();
    let res = mzkh::catch(|| {
        create_proof::<F, Scheme, _, _>(
            &m.params,
            &m.pk,
            &[circuit.clone()],
            nc,
            &[&inst_refs[..]],
            ChaCha8Rng::seed_from_u64(seed ^ 0xbeef),
            &mut tr,
        )
    });
    match res {
        Err(p) => return Err(format!("prover panicked: {p}")),
        Ok(Err(_)) => return Ok(false), // the prover itself refuses (e.g. lookup input not in table)
        Ok(Ok(())) => {}
    }
    let proof = tr.finalize();
    let domain = m.pk.get_vk().get_domain();
    let coms: Vec<G1Projective> =
        insts[..nc].iter().map(|c| commit_to_instances::<F, Scheme>(&m.params, domain, c)).collect();
    let plain: Vec<&[F]> = insts[nc..].iter().map(|c| &c[..]).collect();
    let mut vt = CircuitTranscript::<Blake2bState>::init_from_bytes(&proof);
    let v = mzkh::catch(|| {
        let g = match prepare::<F, Scheme, _>(m.pk.get_vk(), &[&coms[..]], &[&plain[..]], &mut vt) {
            Ok(g) => g,
            Err(_) => return false,
        };
        if vt.assert_empty().is_err() {
            return false;
        }
        g.verify(&m.params.verifier_params()).is_ok()
    });
    v.map_err(|p| format!("verifier panicked: {p}"))
}

#[allow(clippy::too_many_arguments)]
fn one_case(
    ctx: &mut Ctx,
    m: &Member,
    label: &str,
    circuit: &FamCircuit,
    insts: &[Vec<F>],
    nontrivial: bool,
    seed: u64,
    desc: serde_json::Value,
) {
    let mp = match mzkh::catch(|| MockProver::run(m.k, circuit, insts.to_vec())) {
        Ok(Ok(mp)) => mp,
        other => {
            ctx.count(&format!("mock-run-failed:{}", other.is_ok()));
            return;
        }
    };
    let verdict = mzkh::catch(|| mp.verify());
    let (mock_ok, gt, lk, cp) = match &verdict {
        Ok(Ok(())) => (true, true, true, true),
        Ok(Err(errs)) => {
            let gt = !errs.iter().any(|e| {
                matches!(e, VerifyFailure::ConstraintNotSatisfied { .. } | VerifyFailure::ConstraintPoisoned { .. })
            });
            let lk = !errs.iter().any(|e| matches!(e, VerifyFailure::Lookup { .. }));
            let cp = !errs.iter().any(|e| matches!(e, VerifyFailure::Permutation { .. }));
            let other = errs.iter().any(|e| {
                matches!(e, VerifyFailure::CellNotAssigned { .. } | VerifyFailure::InstanceCellNotAssigned { .. })
            });
            if other {
                ctx.count("mock-cell-not-assigned");
                return;
            }
            (false, gt, lk, cp)
        }
        Err(p) => {
            ctx.oracle_fail("mock-panic", "MockProver::verify panicked", json!({"case": desc, "panic": p}));
            return;
        }
    };
    let real = match real_verdict(m, circuit, insts, seed) {
        Ok(b) => b,
        Err(e) => {
            ctx.oracle_fail(&format!("real-panic:{label}"), "prover/verifier panicked on a faulted witness", json!({"case": desc, "panic": e}));
            return;
        }
    };
    let n = 1usize << m.k;
    let ch = mock_challenges(m.n_challenges);
    let ch_s = if ch.is_empty() { "-".to_string() } else { ch.iter().map(|c| mzkh::fe_hex(c)[2..].to_string()).collect::<Vec<_>>().join(",") };
    let op = format!(
        "sat p=73eda753299d7d483339d80809a1d80553bda402fffe5bfeffffffff00000001 ch={} {} {}",
        ch_s,
        m.cs_line,
        table_string_requested(&mp, n, &m.copies)
    );
    let b = |x: bool| if x { "1" } else { "0" };
    let ans = format!("rowSat={} mock={} gt={} lookups={} copies={}", b(real), b(mock_ok), b(gt), b(lk), b(cp));
    ctx.case(label, nontrivial, &op, &ans);
    ctx.count(&format!("verdict:{}", if mock_ok { "accept" } else { "reject" }));
    if !gt {
        ctx.count("rejected-by:gate-or-trash");
    }
    if !lk {
        ctx.count("rejected-by:lookup");
    }
    if !cp {
        ctx.count("rejected-by:copy");
    }
    if real && !requested_copies_hold(&mp, &m.copies) {
        ctx.oracle_fail(
            &format!("verifier-accepts:requested-copy-violated:{label}"),
            "verifier accepted a proof from an assignment violating a copy constraint the circuit requested",
            json!({"case": desc, "real": real, "mock": mock_ok}),
        );
    }
    if real != mock_ok {
        let key = if mock_ok { "mock-accepts:verifier-rejects" } else { "mock-rejects:verifier-accepts" };
        ctx.oracle_fail(
            &format!("{key}:{label}"),
            "verifier verdict differs from the mock checker's verdict on the same assignment",
            json!({"case": desc, "real": real, "mock": mock_ok}),
        );
    }
}

fn run_member(ctx: &mut Ctx, fp: &FamParams, seed: u64, max_faults: usize) {
    let m = setup_member(fp, seed);
    let base = FamCircuit::new(fp.clone(), seed);
    let insts = base.instances();
    let desc0 = json!({"params": format!("{fp:?}"), "seed": seed, "k": m.k});
    one_case(ctx, &m, "honest", &base, &insts, true, seed, desc0.clone());
    // number of advice assignments
    let _ = MockProver::run(m.k, &base, insts.clone());
    let cells = base.cell_count.load(std::sync::atomic::Ordering::SeqCst);
    let mut rng = ctx.rng(&format!("faults{seed}"));
    let kinds = [FaultKind::PlusOne, FaultKind::Zero, FaultKind::Neighbour, FaultKind::Random];
    let mut picks: Vec<(usize, FaultKind)> = (0..cells).flat_map(|i| kinds.iter().map(move |k| (i, *k))).collect();
    // deterministic shuffle, then truncate
    for i in (1..picks.len()).rev() {
        let j = rng.gen_range(0..=i);
        picks.swap(i, j);
    }
    picks.truncate(max_faults);
    for (idx, kind) in picks {
        let mut c = base.clone();
        c.fault = Some((idx, kind));
        let mut d = desc0.clone();
        d["fault"] = json!({"cell": idx, "kind": format!("{kind:?}")});
        one_case(ctx, &m, &format!("fault-{kind:?}"), &c, &insts, true, seed, d);
    }
    // public-input faults: one value of each instance column
    for col in 0..insts.len() {
        let mut bad = insts.clone();
        bad[col][0] += F::ONE;
        let mut d = desc0.clone();
        d["fault"] = json!({"instance_col": col, "row": 0, "kind": "PlusOne"});
        one_case(ctx, &m, "fault-instance", &base, &bad, true, seed, d);
    }
}

fn main() {
    let mut ctx = Ctx::from_args("C02");
    let mut rng = ctx.rng("family");
    let (n_members, per_member) = match ctx.tier.as_str() {
        "quick" => (10, 24),
        "thorough" => (40, 60),
        _ => (16, 40),
    };
    // corpus first: a member with an additive-selector gate (defect D2), one with every class
    let d2 = FamParams { gates: vec![GateKind::Additive], steps: 3, ..FamParams::default() };
    run_member(&mut ctx, &d2, 21, per_member);
    let every = FamParams {
        n_adv0: 4,
        n_adv1: 1,
        unblinded: true,
        n_committed: 1,
        n_plain: 1,
        gates: vec![GateKind::Mul, GateKind::LinRot, GateKind::Pow(4), GateKind::Additive, GateKind::Complex, GateKind::Chal],
        lookups: vec![LookupKind::Range, LookupKind::Pair, LookupKind::AnyInstance],
        copies: true,
        const_copies: true,
        inst_copies: true,
        steps: 9,
        table_bits: 3,
    };
    run_member(&mut ctx, &every, 22, per_member * 2);
    let inst_rot = FamParams { gates: vec![GateKind::InstRot, GateKind::Mul], n_committed: 0, n_plain: 1, ..FamParams::default() };
    run_member(&mut ctx, &inst_rot, 23, per_member);
    for i in 0..n_members {
        let fp = sample_params(&mut rng);
        run_member(&mut ctx, &fp, 2000 + i as u64, per_member);
    }
    ctx.finish();
}
