//! Correspondence harness of property C02 (stub).
use mzkh::Ctx;

fn main() {
    let ctx = Ctx::from_args("C02");
    ctx.finish();
}
