//! Correspondence harness of property C02: the verifier enforces every constraint class and
//! agrees with the mock checker.
//!
//! For members of the generated circuit family and for every (sampled) advice/instance cell ×
//! fault kind, three verdicts are produced on the SAME faulted assignment:
//!   real  = real `create_proof` + `prepare` + `verify` accepts,
//!   mock  = `MockProver::verify()` is Ok,
//!   model = `rowSat` evaluated by the Lean model on the dumped constraint system and table.
//! The request line carries the dumped constraint system and assignment table; the
//! implementation's answer line carries real and mock verdicts (and the failure classes the mock
//! checker reports); the Lean model must reproduce the line. Oracle: real == mock.
//!
//! Identity-level tie (`ids` lines): the real verifier is run with the `verif-hooks` identity
//! log on and wrapped in `valrec::ValTranscript`, so that every scalar it reads from the proof
//! and every challenge it squeezes is known in order. Request = constraint-system dump (shape,
//! gate / lookup / trash expressions, permutation columns, query lists, degree, blinding
//! factors) + plain instance values + that ordered stream; implementation answer = the identity
//! values `vanishing::verifier::PartiallyEvaluated::verify` folded, in order, with `y`, `x^n`
//! and `expected_h_eval`. The Lean model labels the stream with its own schedule model,
//! recomputes `x^n`, `l_0`, `l_last`, `l_blind` and every identity value and must reproduce the
//! line (count, order, values). `domain` lines tie `omega` and `F::DELTA`.

mod valrec;

use blake2b_simd::{blake2b, State as Blake2bState};
use ff::{Field, FromUniformBytes, PrimeField};
use midnight_curves::{Bls12, Fq as F, G1Projective};
use midnight_proofs::{
    dev::{MockProver, VerifyFailure},
    plonk::{commit_to_instances, create_proof, keygen_pk, keygen_vk_with_k, prepare, Any, ProvingKey},
    poly::{
        commitment::Guard,
        kzg::{params::ParamsKZG, KZGCommitmentScheme},
    },
    transcript::{CircuitTranscript, Transcript},
};
use midnight_proofs::plonk::verif_hooks::{clear_identity_log, take_identity_log};
use mzkh::{
    copyrec::{requested_copies, CellRef},
    csdump::{cs_string, expr_string, requested_copies_hold, table_string_requested},
    shape::shape_string,
    family::{sample_params, sample_params_ext, FamCircuit, FamParams, FaultKind, GateKind, LookupKind, NOZERO_BASE, SHAPE_GROUPS},
    fixedrec::{requested_fixed_ops, FixedOp},
    Ctx,
};
use rand::{Rng, SeedableRng};
use rand_chacha::ChaCha8Rng;
use serde_json::json;

type Scheme = KZGCommitmentScheme<Bls12>;

fn mock_challenges(n: usize) -> Vec<F> {
    let mut hash: [u8; 64] = blake2b(b"Halo2-MockProver").as_bytes().try_into().unwrap();
    (0..n)
        .map(|_| {
            hash = blake2b(&hash).as_bytes().try_into().unwrap();
            F::from_uniform_bytes(&hash)
        })
        .collect()
}

struct Member {
    fp: FamParams,
    k: u32,
    params: ParamsKZG<Bls12>,
    pk: ProvingKey<F, Scheme>,
    cs_line: String,
    /// shape + constraint-system dump of the `ids` lines
    ids_cs: String,
    n_challenges: usize,
    /// copy constraints requested by the circuit (independent of the keygen Assembly)
    copies: Vec<(CellRef, CellRef)>,
}

fn setup_member(fp: &FamParams, seed: u64) -> Member {
    let c = FamCircuit::new(fp.clone(), seed);
    let mut k = 4;
    loop {
        let params = ParamsKZG::<Bls12>::unsafe_setup(k, ChaCha8Rng::seed_from_u64(k as u64 + 99));
        match keygen_vk_with_k::<F, Scheme, _>(&params, &c, k) {
            Ok(vk) => {
                let pk = keygen_pk(vk, &c).unwrap();
                let cs_line = cs_string(pk.get_vk().cs());
                let ids_cs = ids_cs_string(&pk, k);
                let n_challenges = pk.get_vk().cs().num_challenges();
                let copies = requested_copies::<F, _>(&c);
                return Member { fp: fp.clone(), k, params, pk, cs_line, ids_cs, n_challenges, copies };
            }
            Err(_) if k < 10 => k += 1,
            Err(e) => panic!("keygen failed: {e:?}"),
        }
    }
}

fn list(v: Vec<String>, sep: &str) -> String {
    if v.is_empty() {
        "-".to_string()
    } else {
        v.join(sep)
    }
}

/// What the verifier reads of `vk`: `shape_string` (phases, the three query lists, numbers of
/// lookups / trash arguments / permutation columns, `degree()`, `blinding_factors()`, `k`)
/// followed by the polynomials of every gate (`gp` = polynomials per gate), the lookup and
/// trash arguments and the permutation columns (`pcols`).
fn ids_cs_string(pk: &ProvingKey<F, Scheme>, k: u32) -> String {
    let cs = pk.get_vk().cs();
    let gp: Vec<String> = cs.gates().iter().map(|g| g.polynomials().len().to_string()).collect();
    let gates: Vec<String> = cs.gates().iter().flat_map(|g| g.polynomials().iter().map(expr_string)).collect();
    let lookups: Vec<String> = cs
        .lookups()
        .iter()
        .map(|l| {
            format!(
                "{}>{}",
                list(l.input_expressions().iter().map(expr_string).collect(), "|"),
                list(l.table_expressions().iter().map(expr_string).collect(), "|")
            )
        })
        .collect();
    let trash: Vec<String> = cs
        .trashcans()
        .iter()
        .map(|t| {
            format!(
                "{}>{}",
                expr_string(t.selector()),
                list(t.constraint_expressions().iter().map(expr_string).collect(), "|")
            )
        })
        .collect();
    let pcols: Vec<String> = cs
        .permutation()
        .get_columns()
        .iter()
        .map(|c| {
            let kind = match c.column_type() {
                Any::Advice(_) => "a",
                Any::Fixed => "f",
                Any::Instance => "i",
            };
            format!("{kind}{}", c.index())
        })
        .collect();
    format!(
        "{} gp={} gates={} lookups={} trash={} pcols={}",
        shape_string(pk, k),
        list(gp, ","),
        list(gates, ";"),
        list(lookups, ";"),
        list(trash, ";"),
        list(pcols, ",")
    )
}

/// Real prover on (possibly faulted) circuits and their instances (one entry per proof).
/// `Ok(None)`: the prover itself refuses (e.g. a lookup input is not in the table).
fn prove(m: &Member, circuits: &[FamCircuit], insts: &[Vec<Vec<F>>], seed: u64) -> Result<Option<Vec<u8>>, String> {
    let nc = m.fp.n_committed;
    let inst_refs: Vec<Vec<&[F]>> = insts.iter().map(|cols| cols.iter().map(|c| &c[..]).collect()).collect();
    let inst_refs2: Vec<&[&[F]]> = inst_refs.iter().map(|c| &c[..]).collect();
    let mut tr = CircuitTranscript::<Blake2bState>::init();
    let res = mzkh::catch(|| {
        create_proof::<F, Scheme, _, _>(
            &m.params,
            &m.pk,
            circuits,
            nc,
            &inst_refs2,
            ChaCha8Rng::seed_from_u64(seed ^ 0xbeef),
            &mut tr,
        )
    });
    match res {
        Err(p) => Err(format!("prover panicked: {p}")),
        Ok(Err(_)) => Ok(None),
        Ok(Ok(())) => Ok(Some(tr.finalize())),
    }
}

/// One identity-correspondence line of a verifier run.
struct IdsLine {
    op: String,
    ans: String,
}

/// Real verifier on a proof, with the identity log on and every scalar read / challenge
/// squeezed recorded. Returns the verdict and the `ids` correspondence line (absent when the
/// verifier did not reach `PartiallyEvaluated::verify`).
fn verify_recorded(m: &Member, proof: &[u8], insts: &[Vec<Vec<F>>]) -> Result<(bool, Option<IdsLine>), String> {
    let nc = m.fp.n_committed;
    let domain = m.pk.get_vk().get_domain();
    let coms: Vec<Vec<G1Projective>> = insts
        .iter()
        .map(|cols| cols[..nc].iter().map(|c| commit_to_instances::<F, Scheme>(&m.params, domain, c)).collect())
        .collect();
    let com_refs: Vec<&[G1Projective]> = coms.iter().map(|c| &c[..]).collect();
    let plain: Vec<Vec<&[F]>> = insts.iter().map(|cols| cols[nc..].iter().map(|c| &c[..]).collect()).collect();
    let plain_refs: Vec<&[&[F]]> = plain.iter().map(|c| &c[..]).collect();
    clear_identity_log();
    valrec::take_stream();
    let mut vt = valrec::ValTranscript::init_from_bytes(proof);
    let v = mzkh::catch(|| {
        let g = match prepare::<F, Scheme, _>(m.pk.get_vk(), &com_refs, &plain_refs, &mut vt) {
            Ok(g) => g,
            Err(_) => return false,
        };
        if vt.assert_empty().is_err() {
            return false;
        }
        g.verify(&m.params.verifier_params()).is_ok()
    });
    let stream = valrec::take_stream();
    let folds = take_identity_log();
    let verdict = v.map_err(|p| format!("verifier panicked: {p}"))?;
    if folds.is_empty() {
        return Ok((verdict, None));
    }
    let inst_s = insts
        .iter()
        .map(|cols| {
            if cols.len() == nc {
                "_".to_string()
            } else {
                cols[nc..]
                    .iter()
                    .map(|c| list(c.iter().map(|v| mzkh::fe_hex(v)[2..].to_string()).collect(), ","))
                    .collect::<Vec<_>>()
                    .join("/")
            }
        })
        .collect::<Vec<_>>()
        .join("|");
    let tr_s = list(stream.iter().map(|(k, h)| format!("{k}{h}")).collect(), ",");
    let op = format!(
        "ids p=73eda753299d7d483339d80809a1d80553bda402fffe5bfeffffffff00000001 {} nc={} inst={} tr={}",
        m.ids_cs, nc, inst_s, tr_s
    );
    let ans = if folds.len() == 1 {
        let f = &folds[0];
        format!(
            "n={} vals={} y={} xn={} h={}",
            f.values.len(),
            list(f.values.iter().map(|b| mzkh::le_bytes_hex(b)).collect(), ","),
            mzkh::le_bytes_hex(&f.y),
            mzkh::le_bytes_hex(&f.xn),
            mzkh::le_bytes_hex(&f.expected_h_eval)
        )
    } else {
        format!("folds={}", folds.len())
    };
    Ok((verdict, Some(IdsLine { op, ans })))
}

/// Real prover + verifier on (possibly faulted) circuit and instances.
fn real_verdict(m: &Member, circuit: &FamCircuit, insts: &[Vec<F>], seed: u64) -> Result<(bool, Option<IdsLine>), String> {
    let insts = vec![insts.to_vec()];
    match prove(m, &[circuit.clone()], &insts, seed)? {
        None => Ok((false, None)),
        Some(proof) => verify_recorded(m, &proof, &insts),
    }
}

#[allow(clippy::too_many_arguments)]
fn one_case(
    ctx: &mut Ctx,
    m: &Member,
    label: &str,
    circuit: &FamCircuit,
    insts: &[Vec<F>],
    nontrivial: bool,
    seed: u64,
    desc: serde_json::Value,
) {
    let mp = match mzkh::catch(|| MockProver::run(m.k, circuit, insts.to_vec())) {
        Ok(Ok(mp)) => mp,
        other => {
            ctx.count(&format!("mock-run-failed:{}", other.is_ok()));
            return;
        }
    };
    let verdict = mzkh::catch(|| mp.verify());
    let (mock_ok, gt, lk, cp) = match &verdict {
        Ok(Ok(())) => (true, true, true, true),
        Ok(Err(errs)) => {
            let gt = !errs.iter().any(|e| {
                matches!(e, VerifyFailure::ConstraintNotSatisfied { .. } | VerifyFailure::ConstraintPoisoned { .. })
            });
            let lk = !errs.iter().any(|e| matches!(e, VerifyFailure::Lookup { .. }));
            let cp = !errs.iter().any(|e| matches!(e, VerifyFailure::Permutation { .. }));
            let other = errs.iter().any(|e| {
                matches!(e, VerifyFailure::CellNotAssigned { .. } | VerifyFailure::InstanceCellNotAssigned { .. })
            });
            if other {
                ctx.count("mock-cell-not-assigned");
                return;
            }
            (false, gt, lk, cp)
        }
        Err(p) => {
            ctx.oracle_fail("mock-panic", "MockProver::verify panicked", json!({"case": desc, "panic": p}));
            return;
        }
    };
    let (real, ids) = match real_verdict(m, circuit, insts, seed) {
        Ok(b) => b,
        Err(e) => {
            ctx.oracle_fail(&format!("real-panic:{label}"), "prover/verifier panicked on a faulted witness", json!({"case": desc, "panic": e}));
            return;
        }
    };
    let n = 1usize << m.k;
    let ch = mock_challenges(m.n_challenges);
    let ch_s = if ch.is_empty() { "-".to_string() } else { ch.iter().map(|c| mzkh::fe_hex(c)[2..].to_string()).collect::<Vec<_>>().join(",") };
    let op = format!(
        "sat p=73eda753299d7d483339d80809a1d80553bda402fffe5bfeffffffff00000001 ch={} {} {}",
        ch_s,
        m.cs_line,
        table_string_requested(&mp, n, &m.copies)
    );
    let b = |x: bool| if x { "1" } else { "0" };
    let ans = format!("rowSat={} mock={} gt={} lookups={} copies={}", b(real), b(mock_ok), b(gt), b(lk), b(cp));
    ctx.case(label, nontrivial, &op, &ans);
    {
        // `verify_at_rows` on a seeded random subset of the usable rows (gate rows and lookup-input
        // rows drawn independently) and `assert_satisfied` (panics iff `verify` is `Err`) vs the
        // Lean mirror `mockOKAt` / `mockOK` on the same dump.
        let usable = n - (m.pk.get_vk().cs().blinding_factors() + 1);
        let mut rr = ctx.rng(&format!("rows:{label}:{desc}"));
        let dens = [0.0, 0.5, 0.9, 1.0][rr.gen_range(0..4)];
        let gr: Vec<usize> = (0..usable).filter(|_| rr.gen_bool(dens)).collect();
        let lr: Vec<usize> = (0..usable).filter(|_| rr.gen_bool(dens)).collect();
        let at = mzkh::catch(|| mp.verify_at_rows(gr.clone().into_iter(), lr.clone().into_iter()).is_ok());
        let asserted = mzkh::catch(|| mp.assert_satisfied()).is_ok();
        match at {
            Ok(at_ok) => {
                let rows = |v: &Vec<usize>| list(v.iter().map(|r| r.to_string()).collect(), ",");
                ctx.case(
                    "satrows",
                    nontrivial,
                    &format!("satrows gr={} lr={} {}", rows(&gr), rows(&lr), &op[4..]),
                    &format!("mockAt={} assert={}", b(at_ok), b(asserted)),
                );
                ctx.count(&format!("satrows:density={dens}:{}", if at_ok == mock_ok { "same-as-verify" } else { "weaker-than-verify" }));
                if mock_ok && !at_ok {
                    ctx.oracle_fail(
                        &format!("verify-at-rows-stricter:{label}"),
                        "MockProver::verify_at_rows on a subset of the rows rejects an assignment verify() accepts",
                        json!({"case": desc, "gate_rows": gr, "lookup_rows": lr}),
                    );
                }
            }
            Err(p) => ctx.oracle_fail("mock-panic-at-rows", "MockProver::verify_at_rows panicked on valid row ids", json!({"case": desc, "panic": p})),
        }
        if asserted != mock_ok {
            ctx.oracle_fail(
                &format!("assert-satisfied-differs:{label}"),
                "MockProver::assert_satisfied disagrees with MockProver::verify",
                json!({"case": desc, "verify_ok": mock_ok, "assert_returned": asserted}),
            );
        }
    }
    match ids {
        Some(l) => {
            ctx.case(&format!("ids-{}", if label == "honest" { "honest" } else { "faulted" }), nontrivial, &l.op, &l.ans);
            ctx.count(&format!("ids:verifier-{}", if real { "accepts" } else { "rejects" }));
        }
        None => ctx.count("ids:no-proof-or-no-fold"),
    }
    ctx.count(&format!("verdict:{}", if mock_ok { "accept" } else { "reject" }));
    if !gt {
        ctx.count("rejected-by:gate-or-trash");
    }
    if !lk {
        ctx.count("rejected-by:lookup");
    }
    if !cp {
        ctx.count("rejected-by:copy");
    }
    if std::env::var("C02_DEBUG").is_ok() {
        eprintln!("case {label} {desc} real={real} mock={mock_ok} gt={gt} lk={lk} cp={cp} requested_copies_hold={} verdict={verdict:?}", requested_copies_hold(&mp, &m.copies));
    }
    if real && !requested_copies_hold(&mp, &m.copies) {
        ctx.oracle_fail(
            &format!("verifier-accepts:requested-copy-violated:{label}"),
            "verifier accepted a proof from an assignment violating a copy constraint the circuit requested",
            json!({"case": desc, "real": real, "mock": mock_ok}),
        );
    }
    if label == "fault-lookup-outside" && (real || mock_ok) {
        ctx.oracle_fail(
            &format!("lookup-value-outside-table-accepted:{}", if real { "verifier" } else { "mock" }),
            "a witness looking up a value that is not in the table was accepted",
            json!({"case": desc, "real": real, "mock": mock_ok}),
        );
    }
    if real != mock_ok {
        let key = if mock_ok { "mock-accepts:verifier-rejects" } else { "mock-rejects:verifier-accepts" };
        ctx.oracle_fail(
            &format!("{key}:{label}"),
            "verifier verdict differs from the mock checker's verdict on the same assignment",
            json!({"case": desc, "real": real, "mock": mock_ok}),
        );
    }
}

/// Two circuits of the member (different witness seeds and instances) proven together: the
/// identity list of the verifier is the per-proof list repeated proof after proof.
fn two_proof_case(ctx: &mut Ctx, m: &Member, seed: u64) {
    let circuits = vec![FamCircuit::new(m.fp.clone(), seed), FamCircuit::new(m.fp.clone(), seed + 1)];
    let insts: Vec<Vec<Vec<F>>> = circuits.iter().map(|c| c.instances()).collect();
    match prove(m, &circuits, &insts, seed) {
        Ok(Some(proof)) => match verify_recorded(m, &proof, &insts) {
            Ok((ok, Some(l))) => {
                ctx.case("ids-honest-2proofs", true, &l.op, &l.ans);
                ctx.count(&format!("ids:2proofs-verifier-{}", if ok { "accepts" } else { "rejects" }));
            }
            other => ctx.count(&format!("ids:2proofs-no-fold:{}", other.is_ok())),
        },
        other => ctx.count(&format!("ids:2proofs-no-proof:{}", other.is_ok())),
    }
}

/// `omega` of the evaluation domain of size `2^k` and `F::DELTA`, as the running code has them.
fn domain_case(ctx: &mut Ctx, m: &Member, seen: &mut std::collections::BTreeSet<u32>) {
    if seen.insert(m.k) {
        let omega = m.pk.get_vk().get_domain().get_omega();
        ctx.case(
            "domain",
            true,
            &format!("domain k={}", m.k),
            &format!("omega={} delta={}", mzkh::fe_hex(&omega), mzkh::fe_hex(&<F as PrimeField>::DELTA)),
        );
    }
}

/// Run-length rendering of a column of field elements (the format of `csdump`).
fn rle_hex(col: &[F]) -> String {
    let vals: Vec<String> = col.iter().map(|v| if *v == F::ZERO { "0".to_string() } else { mzkh::fe_hex(v)[2..].to_string() }).collect();
    let mut out: Vec<String> = vec![];
    let mut i = 0;
    while i < vals.len() {
        let mut j = i;
        while j < vals.len() && vals[j] == vals[i] {
            j += 1;
        }
        out.push(if j - i > 1 { format!("{}*{}", vals[i], j - i) } else { vals[i].clone() });
        i = j;
    }
    list(out, ",")
}

/// The fixed columns as KEY GENERATION produced them (`pk.fixed_values`, what prover and verifier
/// use: lookup tables with their `fill_from_row` padding, constants, gate switches) and as
/// `MockProver` holds them, vs the Lean mirrors of `keygen.rs: Assembly::{assign_fixed,
/// fill_from_row}` and `dev/mod.rs: MockProver::{assign_fixed, fill_from_row}` replaying the writes
/// the circuit requested (recorded by `FixedRecorder`, independent of both). Row by row, the last
/// usable row included. Oracle: key generation and the mock checker hold the same fixed columns.
/// Also `mockinit`: the rows of the advice columns `MockProver::run` poisons.
fn fixed_columns_case(ctx: &mut Ctx, m: &Member, circuit: &FamCircuit, insts: &[Vec<F>], desc: &serde_json::Value) {
    let (ops, nf) = requested_fixed_ops::<F, _>(circuit);
    let n = 1usize << m.k;
    let bl = m.pk.get_vk().cs().blinding_factors();
    let (parts, _) = m.pk.verif_derived_parts();
    let key_cols: Vec<Vec<F>> = parts.into_iter().find(|(name, _)| *name == "fixed_values").map(|(_, v)| v).unwrap_or_default();
    let mp = match mzkh::catch(|| MockProver::run(m.k, circuit, insts.to_vec())) {
        Ok(Ok(mp)) => mp,
        _ => return,
    };
    let mock_cols: Vec<Vec<F>> = mp
        .fixed()
        .iter()
        .map(|c| {
            c.iter()
                .map(|v| match v {
                    midnight_proofs::dev::CellValue::Assigned(x) => *x,
                    _ => F::ZERO,
                })
                .collect()
        })
        .collect();
    let ops_s: Vec<String> = ops
        .iter()
        .map(|o| match o {
            FixedOp::Assign(c, r, v) => format!("A.{c}.{r}.{}", &mzkh::fe_hex(v)[2..]),
            FixedOp::Fill(c, r, v) => format!("F.{c}.{r}.{}", &mzkh::fe_hex(v)[2..]),
        })
        .collect();
    let fills = ops.iter().filter(|o| matches!(o, FixedOp::Fill(..))).count();
    let nonzero_fill = ops.iter().filter(|o| matches!(o, FixedOp::Fill(_, _, v) if *v != F::ZERO)).count();
    ctx.count_n("fixedcols:fill_from_row-calls", fills as u64);
    ctx.count_n("fixedcols:fill_from_row-with-nonzero-filler", nonzero_fill as u64);
    let render = |cols: &[Vec<F>]| list(cols.iter().take(nf).map(|c| rle_hex(c)).collect(), "/");
    ctx.case(
        "fixedcols",
        true,
        &format!("fixedcols n={} bl={} nf={} ops={}", n, bl, nf, list(ops_s, ",")),
        &format!("key={} mock={}", render(&key_cols), render(&mock_cols)),
    );
    if key_cols.iter().take(nf).ne(mock_cols.iter().take(nf)) {
        let usable = n - (bl + 1);
        let diff: Vec<(usize, usize)> = (0..nf.min(key_cols.len()).min(mock_cols.len()))
            .flat_map(|c| (0..n).map(move |r| (c, r)))
            .filter(|(c, r)| key_cols[*c][*r] != mock_cols[*c][*r])
            .take(8)
            .collect();
        ctx.oracle_fail(
            "fixed-columns:keygen-differs-from-mock",
            "the fixed columns key generation produced (what prover and verifier use) differ from the ones the mock checker holds for the same circuit",
            json!({"case": desc, "usable_rows": usable, "first_differences_col_row": diff}),
        );
    }
    // poisoned rows of the advice columns right after `MockProver::run`
    let poison: Vec<String> = mp
        .advice()
        .iter()
        .map(|c| {
            let rows: Vec<usize> = c
                .iter()
                .enumerate()
                .filter(|(_, v)| matches!(v, midnight_proofs::dev::CellValue::Poison(_)))
                .map(|(i, _)| i)
                .collect();
            let tagged = c.iter().enumerate().all(|(i, v)| match v {
                midnight_proofs::dev::CellValue::Poison(j) => i == *j,
                _ => true,
            });
            format!("{}{}", list(rows.iter().map(|r| r.to_string()).collect(), ","), if tagged { "" } else { "!tag" })
        })
        .collect();
    ctx.case("mockinit", true, &format!("mockinit n={} bl={} na={}", n, bl, mp.advice().len()), &format!("poison={}", list(poison, "/")));
}

fn run_member(ctx: &mut Ctx, fp: &FamParams, seed: u64, max_faults: usize, two_proofs: bool, seen_k: &mut std::collections::BTreeSet<u32>) {
    let m = setup_member(fp, seed);
    domain_case(ctx, &m, seen_k);
    {
        // `ConstraintSystem::degree()` / `blinding_factors()` and the number of permutation column
        // sets as the running code computes them, vs the Lean mirror fed with the dumped
        // expressions and query lists only (the `deg=`/`bl=` fields of the dump are ignored by it).
        let cs = m.pk.get_vk().cs();
        let sets = cs.permutation().get_columns().chunks(cs.degree() - 2).count();
        ctx.case(
            "csparams",
            true,
            &format!("csparams {}", m.ids_cs),
            &format!("deg={} bl={} sets={} usable={}", cs.degree(), cs.blinding_factors(), sets, (1usize << m.k) - (cs.blinding_factors() + 1)),
        );
    }
    {
        // what the identity list of this member consists of
        let cs = m.pk.get_vk().cs();
        let pc = cs.permutation().get_columns().len();
        let chunk = cs.degree() - 2;
        ctx.count(&format!("member:perm-sets={}", pc.div_ceil(chunk)));
        ctx.count(&format!("member:degree={}", cs.degree()));
        ctx.count(&format!("member:lookups={}", cs.lookups().len()));
        ctx.count(&format!("member:trash={}", cs.trashcans().len()));
        ctx.count(&format!("member:gate-polys={}", cs.gates().iter().map(|g| g.polynomials().len()).sum::<usize>()));
        ctx.count(&format!("member:k={}", m.k));
    }
    if two_proofs {
        two_proof_case(ctx, &m, seed);
    }
    let base = FamCircuit::new(fp.clone(), seed);
    let insts = base.instances();
    let desc0 = json!({"params": format!("{fp:?}"), "seed": seed, "k": m.k});
    one_case(ctx, &m, "honest", &base, &insts, true, seed, desc0.clone());
    fixed_columns_case(ctx, &m, &base, &insts, &desc0);
    // number of advice assignments
    let _ = MockProver::run(m.k, &base, insts.clone());
    let cells = base.cell_count.load(std::sync::atomic::Ordering::SeqCst);
    {
        // lookup-membership sweep: for EVERY lookup of the member, one of its input cells set to
        // values that are not in the table — 0 (the value an unfilled table row would hold), the
        // value just below the first table row / the filler, the value just above the last table
        // row, a large value. Verifier, mock checker and the Lean row semantics must all reject.
        let lcells = base.lookup_cells.lock().unwrap().clone();
        let tmax = 1u64 << fp.table_bits;
        // the floor planner runs every region closure twice (shape pass, then assignment pass):
        // the assignment pass of the first step of each lookup is its SECOND recorded entry
        let mut seen_li: std::collections::BTreeMap<usize, usize> = std::collections::BTreeMap::new();
        for (cell, li) in lcells {
            let e = seen_li.entry(li).or_insert(0);
            *e += 1;
            if *e != 2 {
                continue;
            }
            let outside: Vec<u64> = match fp.lookups[li] {
                LookupKind::NoZero => vec![0, NOZERO_BASE - 1, NOZERO_BASE + tmax, 1 << 40],
                LookupKind::MixedDeg => vec![mzkh::family::MIXED_ROWS + 1, 1 << 40],
                LookupKind::Range | LookupKind::Pair => vec![tmax, 1 << 40],
                LookupKind::AnyInstance => vec![tmax + 1, 1 << 40],
            };
            for v in outside {
                let mut c = base.clone();
                c.fault = Some((cell, FaultKind::Set(v)));
                let mut d = desc0.clone();
                d["fault"] = json!({"cell": cell, "lookup": li, "kind": format!("Set({v})")});
                ctx.count(&format!("lookup-outside:{:?}", fp.lookups[li]));
                one_case(ctx, &m, "fault-lookup-outside", &c, &insts, true, seed, d);
            }
        }
    }
    let mut rng = ctx.rng(&format!("faults{seed}"));
    let kinds = [FaultKind::PlusOne, FaultKind::Zero, FaultKind::Neighbour, FaultKind::Random];
    let mut picks: Vec<(usize, FaultKind)> = (0..cells).flat_map(|i| kinds.iter().map(move |k| (i, *k))).collect();
    // deterministic shuffle, then truncate
    for i in (1..picks.len()).rev() {
        let j = rng.gen_range(0..=i);
        picks.swap(i, j);
    }
    picks.truncate(max_faults);
    for (idx, kind) in picks {
        // `FaultKind::Neighbour` takes "the previously assigned KNOWN value": on a member with
        // second-phase advice that value differs between synthesis passes (phase-1 cells are
        // unknown in the first pass). The real prover keeps first-phase columns from the first
        // pass, `MockProver` overwrites every cell in every pass, so the two would be run on
        // DIFFERENT assignments (observed: VERIF_SEED=2, member 2004, the real witness happened
        // to be valid). Such a pair says nothing about the property; it is skipped and counted.
        if kind == FaultKind::Neighbour && fp.n_adv1 > 0 {
            ctx.count("skipped:neighbour-fault-on-two-phase-member");
            continue;
        }
        let mut c = base.clone();
        c.fault = Some((idx, kind));
        let mut d = desc0.clone();
        d["fault"] = json!({"cell": idx, "kind": format!("{kind:?}")});
        one_case(ctx, &m, &format!("fault-{kind:?}"), &c, &insts, true, seed, d);
    }
    // public-input sweep: EVERY position of every instance column edited by +1, by -1 and by a
    // swap with the next position (cyclically) — the circuit is proven with the edited public
    // input (committed columns) / verified against it (plain columns): verifier, MockProver and
    // the Lean row semantics must agree; when a copy constraint the circuit requested (or a gate /
    // lookup) pins the position they all reject (`requested-copy-violated` oracle of `one_case`).
    let pinned = |col: usize, row: usize| {
        m.copies.iter().any(|(a, b)| (a.0 == 'i' && a.1 == col && a.2 == row) || (b.0 == 'i' && b.1 == col && b.2 == row))
    };
    for col in 0..insts.len() {
        let len = insts[col].len();
        for row in 0..len {
            for edit in ["PlusOne", "MinusOne", "SwapNext"] {
                let mut bad = insts.clone();
                match edit {
                    "PlusOne" => bad[col][row] += F::ONE,
                    "MinusOne" => bad[col][row] -= F::ONE,
                    _ => bad[col].swap(row, (row + 1) % len),
                }
                let changed = bad != insts;
                let pin = pinned(col, row) || (edit == "SwapNext" && pinned(col, (row + 1) % len));
                ctx.count(&format!(
                    "pi-edit:{}:{}",
                    if !changed { "no-change" } else if pin { "pinned-by-copy" } else { "not-pinned-by-copy" },
                    edit
                ));
                let mut d = desc0.clone();
                d["fault"] = json!({"instance_col": col, "row": row, "kind": edit});
                one_case(ctx, &m, "fault-instance", &base, &bad, changed, seed, d);
            }
        }
    }
}

/// A member with a gate switched by a plain fixed column, active on ONE absolute row chosen
/// relative to the last usable row of the domain of size `2^k`: `back` rows before it, reading
/// `Rotation(rot)`. `back < rot`: the gate reads an unusable row (the first one when
/// `rot = back + 1`) — a cell the circuit cannot assign, which the prover fills with a random
/// value and the mock checker poisons: everybody must reject (the mock by `ConstraintPoisoned`).
/// `back >= rot`: the cell read is usable and unassigned (0): satisfied, everybody accepts.
fn last_row_member(k: u32, back: usize, rot: u8, extra: Vec<GateKind>) -> FamParams {
    use midnight_proofs::plonk::{Circuit, ConstraintSystem};
    let mk = |row: u16| {
        let mut gates = extra.clone();
        gates.push(GateKind::LastRow { row, rot });
        FamParams { gates, steps: 3, copies: false, inst_copies: false, ..FamParams::default() }
    };
    let mut cs = ConstraintSystem::<F>::default();
    let _ = FamCircuit::configure_with_params(&mut cs, mk(0));
    let usable = (1usize << k) - (cs.blinding_factors() + 1);
    mk((usable - 1 - back) as u16)
}

/// The members of the extended family (new gate / lookup kinds; C01 and C02 only).
fn extended_members(ctx: &mut Ctx, per_member: usize, seen_k: &mut std::collections::BTreeSet<u32>) {
    // expression shapes (every branch of the prover's expression compiler)
    for g in 0..SHAPE_GROUPS {
        let fp = FamParams { gates: vec![GateKind::Shapes(g)], steps: 3, ..FamParams::default() };
        run_member(ctx, &fp, 40 + g as u64, per_member / 3, g == 0, seen_k);
    }
    // mixed-degree `lookup_any` (the only constraint of degree 6), table without zero row
    let mixed = FamParams { gates: vec![GateKind::Mul], lookups: vec![LookupKind::MixedDeg], steps: 5, ..FamParams::default() };
    run_member(ctx, &mixed, 45, per_member / 2, true, seen_k);
    let nozero = FamParams { gates: vec![GateKind::Mul], lookups: vec![LookupKind::NoZero], steps: 5, table_bits: 2, ..FamParams::default() };
    run_member(ctx, &nozero, 46, per_member / 2, true, seen_k);
    let nozero2 = FamParams {
        gates: vec![GateKind::Mul, GateKind::Additive],
        lookups: vec![LookupKind::NoZero, LookupKind::Range, LookupKind::MixedDeg],
        steps: 8,
        ..FamParams::default()
    };
    run_member(ctx, &nozero2, 47, per_member / 2, false, seen_k);
    // fixed-column-switched gate on / near the last usable row
    for (i, (back, rot)) in [(0usize, 1u8), (1, 2), (0, 2), (1, 1), (2, 2)].into_iter().enumerate() {
        let fp = last_row_member(5, back, rot, if i % 2 == 0 { vec![GateKind::Mul] } else { vec![GateKind::LinRot, GateKind::Mul] });
        ctx.count(&format!("last-row-gate:back={back}:rot={rot}:{}", if back < rot as usize { "reads-unusable-row" } else { "reads-usable-row" }));
        run_member(ctx, &fp, 50 + i as u64, 6, false, seen_k);
    }
}

/// Failing-input search (run when a theorem or a correspondence broke): for every constraint
/// class a small member exercising it, with EVERY advice assignment x every fault kind, so that
/// a witness violating only that class is certainly among the inputs. An accepted proof from an
/// assignment the checker rejects is the replay (`oracle_fail` in `one_case`).
fn search_members() -> Vec<FamParams> {
    let base = FamParams { steps: 3, ..FamParams::default() };
    let mut v = vec![
        // additive-selector (trash) constraints
        FamParams { gates: vec![GateKind::Additive], copies: false, inst_copies: false, ..base.clone() },
        // copy constraints: advice-advice, advice-constant, advice-instance (committed and plain)
        FamParams { gates: vec![GateKind::Mul], copies: true, inst_copies: false, steps: 5, ..base.clone() },
        FamParams { gates: vec![GateKind::Mul], copies: false, const_copies: true, inst_copies: false, ..base.clone() },
        FamParams { gates: vec![GateKind::Mul], copies: false, inst_copies: true, n_committed: 1, n_plain: 1, ..base.clone() },
        FamParams { gates: vec![GateKind::Mul], unblinded: true, copies: false, inst_copies: false, ..base.clone() },
    ];
    for l in [LookupKind::Range, LookupKind::Pair, LookupKind::AnyInstance] {
        v.push(FamParams { gates: vec![GateKind::Mul], lookups: vec![l], copies: false, inst_copies: false, steps: 4, ..base.clone() });
    }
    for g in [GateKind::Mul, GateKind::LinRot, GateKind::Pow(3), GateKind::Pow(6), GateKind::Complex, GateKind::NextFirst, GateKind::InstRot] {
        v.push(FamParams { gates: vec![g], copies: false, inst_copies: false, ..base.clone() });
    }
    v.push(FamParams { gates: vec![GateKind::Chal], n_adv1: 1, copies: false, inst_copies: false, ..base.clone() });
    v
}

fn main() {
    let mut ctx = Ctx::from_args("C02");
    let mut rng = ctx.rng("family");
    let mut seen_k = std::collections::BTreeSet::new();
    if ctx.search() {
        for (i, fp) in search_members().iter().enumerate() {
            run_member(&mut ctx, fp, 5000 + i as u64, usize::MAX, false, &mut seen_k);
        }
        for i in 0..6 {
            let fp = sample_params(&mut rng);
            run_member(&mut ctx, &fp, 6000 + i as u64, 60, false, &mut seen_k);
        }
        extended_members(&mut ctx, 30, &mut seen_k);
        ctx.finish();
        return;
    }
    let (n_members, per_member) = match ctx.tier.as_str() {
        "quick" => (10, 24),
        _ => (40, 60),
    };
    // corpus first: a member with an additive-selector gate (defect D2), one with every class
    let d2 = FamParams { gates: vec![GateKind::Additive], steps: 3, ..FamParams::default() };
    run_member(&mut ctx, &d2, 21, per_member, true, &mut seen_k);
    let every = FamParams {
        n_adv0: 4,
        n_adv1: 1,
        unblinded: true,
        n_committed: 1,
        n_plain: 1,
        gates: vec![GateKind::Mul, GateKind::LinRot, GateKind::Pow(4), GateKind::Additive, GateKind::Complex, GateKind::Chal],
        lookups: vec![LookupKind::Range, LookupKind::Pair, LookupKind::AnyInstance],
        copies: true,
        const_copies: true,
        inst_copies: true,
        steps: 9,
        table_bits: 3,
    };
    run_member(&mut ctx, &every, 22, per_member * 2, true, &mut seen_k);
    let inst_rot = FamParams { gates: vec![GateKind::InstRot, GateKind::Mul], n_committed: 0, n_plain: 1, ..FamParams::default() };
    run_member(&mut ctx, &inst_rot, 23, per_member, true, &mut seen_k);
    // no copy constraint at all: the permutation argument is empty (no permutation identity)
    let no_perm = FamParams {
        gates: vec![GateKind::Mul, GateKind::Additive],
        lookups: vec![LookupKind::Range],
        copies: false,
        inst_copies: false,
        ..FamParams::default()
    };
    run_member(&mut ctx, &no_perm, 24, per_member / 2, true, &mut seen_k);
    // degree 6 and four permutation columns (three advice + the constants column): ONE column
    // set, i.e. permFirst, permLast and a single product rule, no chain rule
    let one_set = FamParams { gates: vec![GateKind::Pow(6)], n_adv0: 3, n_plain: 0, inst_copies: false, ..FamParams::default() };
    run_member(&mut ctx, &one_set, 25, per_member / 2, false, &mut seen_k);
    extended_members(&mut ctx, per_member, &mut seen_k);
    {
        let mut erng = ctx.rng("family-ext");
        for i in 0..(n_members / 2) {
            let fp = sample_params_ext(&mut erng);
            run_member(&mut ctx, &fp, 3000 + i as u64, per_member / 2, false, &mut seen_k);
        }
    }
    // replay aid: `C02_ONLY_MEMBER=<member seed>` runs only that sampled member
    let only: Option<u64> = std::env::var("C02_ONLY_MEMBER").ok().and_then(|s| s.parse().ok());
    for i in 0..n_members {
        let fp = sample_params(&mut rng);
        if only.is_some() && only != Some(2000 + i as u64) {
            continue;
        }
        run_member(&mut ctx, &fp, 2000 + i as u64, per_member, i % 3 == 0, &mut seen_k);
    }
    ctx.finish();
}
