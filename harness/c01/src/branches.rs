//! Which branch of `evaluation.rs: GraphEvaluator::add_expression` does each node of a gate
//! polynomial take? Statistics only (evidence that the correspondence `graph` drives every
//! branch): a small re-implementation of the compiler that labels the branch taken at every node.
//! It is NOT the model (the model is `Model/C01/GraphEval.lean: addExpr`, compared line by line
//! with the real compiled graph); as a self-check the calculations it emits are compared with the
//! real graph of the proving key (`desync` is counted when they differ, e.g. under a seeded change
//! of the compiler).

use std::collections::BTreeMap;

use ff::Field;
use midnight_curves::Fq as F;
use midnight_proofs::plonk::Expression;

/// Same variant order as `evaluation.rs: ValueSource` (the derived `PartialOrd` orders operands).
#[derive(Clone, Copy, Debug, PartialEq, PartialOrd)]
pub enum Vs {
    Constant(usize),
    Intermediate(usize),
    Fixed(usize, usize),
    Advice(usize, usize),
    Instance(usize, usize),
    Challenge(usize),
}

#[derive(Clone, Debug, PartialEq)]
pub enum Calc {
    Add(Vs, Vs),
    Sub(Vs, Vs),
    Mul(Vs, Vs),
    Square(Vs),
    Double(Vs),
    Negate(Vs),
    Store(Vs),
}

pub struct Mirror {
    pub constants: Vec<F>,
    pub rotations: Vec<i32>,
    pub calcs: Vec<Calc>,
    pub hits: BTreeMap<&'static str, u64>,
}

/// Every branch label `add` can produce (a label with 0 hits is reported as a warning).
pub const ALL_BRANCHES: &[&str] = &[
    "constant",
    "fixed",
    "advice",
    "instance",
    "challenge",
    "neg:of-constant",
    "neg:result-c0",
    "neg:negate",
    "sub:a-c0->negate",
    "sub:b-c0->a",
    "sub:sub",
    "sum:a-c0->b",
    "sum:b-c0->a",
    "sum:add-ordered",
    "sum:add-swapped",
    "prod:a-c0",
    "prod:b-c0",
    "prod:a-c1->b",
    "prod:b-c1->a",
    "prod:a-c2->double-b",
    "prod:b-c2->double-a",
    "prod:square",
    "prod:mul-ordered",
    "prod:mul-swapped",
    "scaled:0",
    "scaled:1",
    "scaled:mul-const",
    "reuse:calculation",
    "reuse:constant",
    "reuse:rotation",
];

impl Mirror {
    pub fn new() -> Self {
        Mirror {
            constants: vec![F::ZERO, F::ONE, F::from(2)],
            rotations: vec![],
            calcs: vec![],
            hits: BTreeMap::new(),
        }
    }

    fn hit(&mut self, l: &'static str) {
        *self.hits.entry(l).or_insert(0) += 1;
    }

    fn rot(&mut self, r: i32) -> usize {
        match self.rotations.iter().position(|x| *x == r) {
            Some(i) => {
                self.hit("reuse:rotation");
                i
            }
            None => {
                self.rotations.push(r);
                self.rotations.len() - 1
            }
        }
    }

    fn constant(&mut self, c: F) -> Vs {
        match self.constants.iter().position(|x| *x == c) {
            Some(i) => {
                self.hit("reuse:constant");
                Vs::Constant(i)
            }
            None => {
                self.constants.push(c);
                Vs::Constant(self.constants.len() - 1)
            }
        }
    }

    fn calc(&mut self, c: Calc) -> Vs {
        match self.calcs.iter().position(|x| *x == c) {
            Some(i) => {
                self.hit("reuse:calculation");
                Vs::Intermediate(i)
            }
            None => {
                self.calcs.push(c);
                Vs::Intermediate(self.calcs.len() - 1)
            }
        }
    }

    pub fn add(&mut self, e: &Expression<F>) -> Vs {
        const C0: Vs = Vs::Constant(0);
        const C1: Vs = Vs::Constant(1);
        const C2: Vs = Vs::Constant(2);
        match e {
            Expression::Constant(c) => {
                self.hit("constant");
                self.constant(*c)
            }
            Expression::Selector(_) => unreachable!(),
            Expression::Fixed(q) => {
                self.hit("fixed");
                let r = self.rot(q.rotation().0);
                self.calc(Calc::Store(Vs::Fixed(q.column_index(), r)))
            }
            Expression::Advice(q) => {
                self.hit("advice");
                let r = self.rot(q.rotation().0);
                self.calc(Calc::Store(Vs::Advice(q.column_index(), r)))
            }
            Expression::Instance(q) => {
                self.hit("instance");
                let r = self.rot(q.rotation().0);
                self.calc(Calc::Store(Vs::Instance(q.column_index(), r)))
            }
            Expression::Challenge(c) => {
                self.hit("challenge");
                self.calc(Calc::Store(Vs::Challenge(c.index())))
            }
            Expression::Negated(a) => match **a {
                Expression::Constant(c) => {
                    self.hit("neg:of-constant");
                    self.constant(-c)
                }
                _ => {
                    let ra = self.add(a);
                    if ra == C0 {
                        self.hit("neg:result-c0");
                        ra
                    } else {
                        self.hit("neg:negate");
                        self.calc(Calc::Negate(ra))
                    }
                }
            },
            Expression::Sum(a, b) => match &**b {
                Expression::Negated(bi) => {
                    let ra = self.add(a);
                    let rb = self.add(bi);
                    if ra == C0 {
                        self.hit("sub:a-c0->negate");
                        self.calc(Calc::Negate(rb))
                    } else if rb == C0 {
                        self.hit("sub:b-c0->a");
                        ra
                    } else {
                        self.hit("sub:sub");
                        self.calc(Calc::Sub(ra, rb))
                    }
                }
                _ => {
                    let ra = self.add(a);
                    let rb = self.add(b);
                    if ra == C0 {
                        self.hit("sum:a-c0->b");
                        rb
                    } else if rb == C0 {
                        self.hit("sum:b-c0->a");
                        ra
                    } else if ra <= rb {
                        self.hit("sum:add-ordered");
                        self.calc(Calc::Add(ra, rb))
                    } else {
                        self.hit("sum:add-swapped");
                        self.calc(Calc::Add(rb, ra))
                    }
                }
            },
            Expression::Product(a, b) => {
                let ra = self.add(a);
                let rb = self.add(b);
                if ra == C0 {
                    self.hit("prod:a-c0");
                    C0
                } else if rb == C0 {
                    self.hit("prod:b-c0");
                    C0
                } else if ra == C1 {
                    self.hit("prod:a-c1->b");
                    rb
                } else if rb == C1 {
                    self.hit("prod:b-c1->a");
                    ra
                } else if ra == C2 {
                    self.hit("prod:a-c2->double-b");
                    self.calc(Calc::Double(rb))
                } else if rb == C2 {
                    self.hit("prod:b-c2->double-a");
                    self.calc(Calc::Double(ra))
                } else if ra == rb {
                    self.hit("prod:square");
                    self.calc(Calc::Square(ra))
                } else if ra <= rb {
                    self.hit("prod:mul-ordered");
                    self.calc(Calc::Mul(ra, rb))
                } else {
                    self.hit("prod:mul-swapped");
                    self.calc(Calc::Mul(rb, ra))
                }
            }
            Expression::Scaled(a, f) => {
                if *f == F::ZERO {
                    self.hit("scaled:0");
                    C0
                } else if *f == F::ONE {
                    self.hit("scaled:1");
                    self.add(a)
                } else {
                    self.hit("scaled:mul-const");
                    let c = self.constant(*f);
                    let ra = self.add(a);
                    self.calc(Calc::Mul(ra, c))
                }
            }
        }
    }

    fn vs(v: &Vs) -> String {
        match v {
            Vs::Constant(i) => format!("c{i}"),
            Vs::Intermediate(i) => format!("t{i}"),
            Vs::Fixed(c, r) => format!("f{c}.{r}"),
            Vs::Advice(c, r) => format!("a{c}.{r}"),
            Vs::Instance(c, r) => format!("i{c}.{r}"),
            Vs::Challenge(i) => format!("h{i}"),
        }
    }

    /// Canonical strings of the calculations, in the format of the hook `verif_custom_gates_graph`.
    pub fn calc_strings(&self) -> Vec<String> {
        self.calcs
            .iter()
            .enumerate()
            .map(|(i, c)| {
                let body = match c {
                    Calc::Add(a, b) => format!("add({},{})", Self::vs(a), Self::vs(b)),
                    Calc::Sub(a, b) => format!("sub({},{})", Self::vs(a), Self::vs(b)),
                    Calc::Mul(a, b) => format!("mul({},{})", Self::vs(a), Self::vs(b)),
                    Calc::Square(a) => format!("square({})", Self::vs(a)),
                    Calc::Double(a) => format!("double({})", Self::vs(a)),
                    Calc::Negate(a) => format!("negate({})", Self::vs(a)),
                    Calc::Store(a) => format!("store({})", Self::vs(a)),
                };
                format!("t{i}={body}")
            })
            .collect()
    }
}
