//! Circuit shapes that stress the schedule and the quotient, owned by the C01 harness (the shared
//! family `mzkh::family` is left untouched so that the other checks iterating it are unaffected):
//!  * a custom gate of degree up to 9 (`s·(a0^(deg−1) − a1)`): 2..8 quotient pieces, extended domain
//!    of every size;
//!  * an UNBLINDED advice column queried at rotations −1, 0, +1 inside a gate;
//!  * an advice column in the third phase (phase index 2) that is assigned but never queried nor
//!    equality-enabled, next to a queried second-phase column and two challenges;
//!  * `lookup_any` whose table is an ADVICE column, and one whose table is a plain INSTANCE column;
//!  * gates WITHOUT a selector factor (`NoSel`): a pure-advice gate `Constraints::without_selector`,
//!    a gate `(1 − q)·d` whose factor does not vanish on the blinding rows, and — the accepted
//!    form — a gate whose factor is a plain fixed column.

use ff::Field;
use midnight_curves::Fq as F;
use midnight_proofs::{
    circuit::{Layouter, SimpleFloorPlanner, Value},
    plonk::{
        Advice, Challenge, Circuit, Column, ConstraintSystem, Constraints, Error, Expression, FirstPhase,
        Fixed, Instance, SecondPhase, Selector, ThirdPhase,
    },
    poly::Rotation,
};
use rand::{Rng, SeedableRng};
use rand_chacha::ChaCha8Rng;

#[derive(Clone, Copy, Debug, PartialEq, Eq, Hash)]
pub enum NoSel {
    None,
    /// `Constraints::without_selector(vec![d0·d1 − d2])`: no factor vanishes on the blinding rows
    AdviceOnly,
    /// `(1 − q)·d0` with `q` a complex selector: the factor is ONE on the blinding rows
    OneMinusSel,
    /// `f·(d0·d1 − d2)` with `f` a plain fixed column (zero on the unusable rows)
    FixedFactor,
}

#[derive(Clone, Debug, PartialEq, Eq, Hash)]
pub struct StressParams {
    /// degree of the power gate, 3..=9
    pub deg: usize,
    pub unblinded_rot: bool,
    pub phase2_unqueried: bool,
    pub lookup_advice_table: bool,
    pub lookup_instance_table: bool,
    pub nosel: NoSel,
    pub n_committed: usize,
    pub n_plain: usize,
    pub steps: usize,
}

impl Default for StressParams {
    fn default() -> Self {
        StressParams {
            deg: 3,
            unblinded_rot: false,
            phase2_unqueried: false,
            lookup_advice_table: false,
            lookup_instance_table: false,
            nosel: NoSel::None,
            n_committed: 0,
            n_plain: 1,
            steps: 3,
        }
    }
}

#[derive(Clone, Debug)]
pub struct StressConfig {
    a: [Column<Advice>; 3],
    d: [Column<Advice>; 3],
    u: Option<Column<Advice>>,
    b: Option<Column<Advice>>,
    c2: Option<Column<Advice>>,
    tadv: Option<Column<Advice>>,
    f: Column<Fixed>,
    instance: Vec<Column<Instance>>,
    ch1: Option<Challenge>,
    s_pow: Selector,
    s_u: Selector,
    s_b: Selector,
    q_nosel: Selector,
    q_lk_adv: Selector,
    q_lk_inst: Selector,
    params: StressParams,
}

#[derive(Clone, Debug)]
pub struct StressCircuit {
    pub params: StressParams,
    pub seed: u64,
    pub known: bool,
}

const TABLE: u64 = 8;

impl StressCircuit {
    pub fn new(params: StressParams, seed: u64) -> Self {
        StressCircuit { params, seed, known: true }
    }

    /// Instance columns (committed first): small values, lengths 3 and 2 alternating.
    pub fn instances(&self) -> Vec<Vec<F>> {
        let mut rng = ChaCha8Rng::seed_from_u64(self.seed ^ 0x57e5);
        (0..self.params.n_committed + self.params.n_plain)
            .map(|c| (0..if c % 2 == 0 { 3 } else { 2 }).map(|_| F::from(rng.gen_range(1..TABLE))).collect())
            .collect()
    }
}

impl Circuit<F> for StressCircuit {
    type Config = StressConfig;
    type FloorPlanner = SimpleFloorPlanner;
    type Params = StressParams;

    fn without_witnesses(&self) -> Self {
        let mut c = self.clone();
        c.known = false;
        c
    }

    fn params(&self) -> StressParams {
        self.params.clone()
    }

    fn configure(_: &mut ConstraintSystem<F>) -> StressConfig {
        unreachable!("configure_with_params is used")
    }

    fn configure_with_params(meta: &mut ConstraintSystem<F>, p: StressParams) -> StressConfig {
        assert!((3..=9).contains(&p.deg));
        let a = [meta.advice_column_in(FirstPhase), meta.advice_column_in(FirstPhase), meta.advice_column_in(FirstPhase)];
        let d = [meta.advice_column_in(FirstPhase), meta.advice_column_in(FirstPhase), meta.advice_column_in(FirstPhase)];
        let u = p.unblinded_rot.then(|| meta.unblinded_advice_column());
        let tadv = p.lookup_advice_table.then(|| meta.advice_column_in(FirstPhase));
        let (ch1, b, c2) = if p.phase2_unqueried {
            let ch1 = meta.challenge_usable_after(FirstPhase);
            let b = meta.advice_column_in(SecondPhase);
            let _ch2 = meta.challenge_usable_after(SecondPhase);
            let c2 = meta.advice_column_in(ThirdPhase);
            (Some(ch1), Some(b), Some(c2))
        } else {
            (None, None, None)
        };
        let f = meta.fixed_column();
        let instance: Vec<_> = (0..p.n_committed + p.n_plain).map(|_| meta.instance_column()).collect();
        meta.enable_equality(a[2]);
        for c in &instance {
            meta.enable_equality(*c);
        }
        let s_pow = meta.selector();
        let s_u = meta.selector();
        let s_b = meta.selector();
        let q_nosel = meta.complex_selector();
        let q_lk_adv = meta.complex_selector();
        let q_lk_inst = meta.complex_selector();

        meta.create_gate("pow", |m| {
            let a0 = m.query_advice(a[0], Rotation::cur());
            let a1 = m.query_advice(a[1], Rotation::cur());
            let mut pw = a0.clone();
            for _ in 0..(p.deg - 2) {
                pw = pw * a0.clone();
            }
            Constraints::with_selector(s_pow, vec![pw - a1])
        });
        if let Some(u) = u {
            meta.create_gate("unblinded-rot", |m| {
                let uc = m.query_advice(u, Rotation::cur());
                let up = m.query_advice(u, Rotation::prev());
                let un = m.query_advice(u, Rotation::next());
                Constraints::with_selector(s_u, vec![uc - up - un * F::from(2)])
            });
        }
        if let (Some(b), Some(ch)) = (b, ch1) {
            meta.create_gate("chal", |m| {
                let a0 = m.query_advice(a[0], Rotation::cur());
                let b0 = m.query_advice(b, Rotation::cur());
                let c = m.query_challenge(ch);
                Constraints::with_selector(s_b, vec![b0 - c * a0])
            });
        }
        match p.nosel {
            NoSel::None => {}
            NoSel::AdviceOnly => meta.create_gate("nosel-advice", |m| {
                let d0 = m.query_advice(d[0], Rotation::cur());
                let d1 = m.query_advice(d[1], Rotation::cur());
                let d2 = m.query_advice(d[2], Rotation::cur());
                Constraints::without_selector(vec![d0 * d1 - d2])
            }),
            NoSel::OneMinusSel => meta.create_gate("nosel-one-minus", |m| {
                let q = m.query_selector(q_nosel);
                let d0 = m.query_advice(d[0], Rotation::cur());
                Constraints::without_selector(vec![(Expression::Constant(F::ONE) - q) * d0])
            }),
            NoSel::FixedFactor => meta.create_gate("nosel-fixed", |m| {
                let ff = m.query_fixed(f, Rotation::cur());
                let d0 = m.query_advice(d[0], Rotation::cur());
                let d1 = m.query_advice(d[1], Rotation::cur());
                let d2 = m.query_advice(d[2], Rotation::cur());
                Constraints::without_selector(vec![ff * (d0 * d1 - d2)])
            }),
        }
        if let Some(t) = tadv {
            meta.lookup_any("lookup-advice-table", |m| {
                let q = m.query_selector(q_lk_adv);
                let a0 = m.query_advice(a[0], Rotation::cur());
                let tt = m.query_advice(t, Rotation::cur());
                vec![(q * a0, tt)]
            });
        }
        if p.lookup_instance_table {
            assert!(p.n_plain > 0);
            let col = instance[p.n_committed];
            meta.lookup_any("lookup-instance-table", |m| {
                let q = m.query_selector(q_lk_inst);
                let a0 = m.query_advice(a[0], Rotation::cur());
                let tt = m.query_instance(col, Rotation::cur());
                vec![(q * a0, tt)]
            });
        }
        StressConfig { a, d, u, b, c2, tadv, f, instance, ch1, s_pow, s_u, s_b, q_nosel, q_lk_adv, q_lk_inst, params: p }
    }

    fn synthesize(&self, cfg: StressConfig, mut layouter: impl Layouter<F>) -> Result<(), Error> {
        let p = &cfg.params;
        let known = self.known;
        let val = |x: F| if known { Value::known(x) } else { Value::unknown() };
        let mut rng = ChaCha8Rng::seed_from_u64(self.seed);
        let inst = self.instances();
        let ch1 = cfg.ch1.map(|c| layouter.get_challenge(c));

        if let Some(t) = cfg.tadv {
            // the advice table: 0..TABLE on the first rows
            layouter.assign_region(
                || "advice table",
                |mut region| {
                    for i in 0..TABLE {
                        region.assign_advice(|| "t", t, i as usize, || val(F::from(i)))?;
                    }
                    Ok(())
                },
            )?;
        }
        for step in 0..p.steps {
            let r1 = F::random(&mut rng);
            let r2 = F::random(&mut rng);
            let small = F::from(rng.gen_range(1..TABLE));
            let mode = step % 3;
            let a2 = layouter.assign_region(
                || format!("step{step}"),
                |mut region| {
                    // row 1 is the current row, rows 0 and 2 serve the rotations
                    let a0v = match mode {
                        0 => r1,
                        1 => small,
                        _ => inst[p.n_committed.min(inst.len() - 1)][step % 2],
                    };
                    match mode {
                        0 => cfg.s_pow.enable(&mut region, 1)?,
                        1 if cfg.tadv.is_some() => cfg.q_lk_adv.enable(&mut region, 1)?,
                        2 if p.lookup_instance_table => cfg.q_lk_inst.enable(&mut region, 1)?,
                        _ => {}
                    }
                    region.assign_advice(|| "a0", cfg.a[0], 1, || val(a0v))?;
                    let a1v = if mode == 0 { a0v.pow_vartime([(p.deg - 1) as u64]) } else { r2 };
                    region.assign_advice(|| "a1", cfg.a[1], 1, || val(a1v))?;
                    let a2 = region.assign_advice(|| "a2", cfg.a[2], 1, || val(inst[0][step % inst[0].len()]))?;
                    if let Some(u) = cfg.u {
                        cfg.s_u.enable(&mut region, 1)?;
                        region.assign_advice(|| "u-", u, 0, || val(r1))?;
                        region.assign_advice(|| "u+", u, 2, || val(r2))?;
                        region.assign_advice(|| "u", u, 1, || val(r1 + r2 + r2))?;
                    }
                    if let (Some(b), Some(ch)) = (cfg.b, ch1) {
                        cfg.s_b.enable(&mut region, 1)?;
                        region.assign_advice(|| "b", b, 1, || ch.map(|c| c * a0v) * val(F::ONE))?;
                    }
                    if let Some(c2) = cfg.c2 {
                        region.assign_advice(|| "c2", c2, 1, || val(r1 * r2))?;
                    }
                    match p.nosel {
                        NoSel::None => {}
                        NoSel::AdviceOnly | NoSel::FixedFactor => {
                            if p.nosel == NoSel::FixedFactor {
                                region.assign_fixed(|| "f", cfg.f, 1, || Value::known(F::from(step as u64 + 1)))?;
                            }
                            region.assign_advice(|| "d0", cfg.d[0], 1, || val(r1))?;
                            region.assign_advice(|| "d1", cfg.d[1], 1, || val(r2))?;
                            region.assign_advice(|| "d2", cfg.d[2], 1, || val(r1 * r2))?;
                        }
                        NoSel::OneMinusSel => {
                            cfg.q_nosel.enable(&mut region, 1)?;
                            region.assign_advice(|| "d0", cfg.d[0], 1, || val(r1))?;
                        }
                    }
                    Ok(a2)
                },
            )?;
            for (c, col) in cfg.instance.iter().enumerate().take(1) {
                layouter.constrain_instance(a2.cell(), *col, step % inst[c].len())?;
            }
        }
        Ok(())
    }
}
