//! Correspondence harness of property C01: honest proofs verify for every circuit shape and
//! proving configuration.
//!
//! For members of the generated circuit family × number of proofs × committed/plain instance
//! split × transcript hash: real keygen, real `create_proof`, real `prepare` + `verify`, all
//! through a `RecordingTranscript`. Emitted per case:
//!  * `schedule P <shape> <cfg>` → the prover's transcript events (kind:type tokens),
//!  * `schedule V <shape> <cfg>` → the verifier's transcript events,
//!  * `prooflen <shape> <cfg>`  → length of the proof in bytes,
//! which the Lean model (`proverSchedule` / `verifierSchedule` / `proofLen`) must reproduce from
//! the dumped constraint-system shape. Oracle: the honest proof verifies, the transcript is
//! consumed exactly, and prover and verifier absorbed byte-identical elements.
//!
//! Argument vectors (module `args`): with the hooked argument log on, the Lagrange vectors the
//! prover computed (permutation products, compressed and permuted lookup vectors, lookup
//! products, trash columns) are compared with `permProducts` / `permuteExpressionPair` /
//! `lookupProduct` / `trashValues` of the Lean model run on the same real table (dumped with its
//! blinding rows) and the challenges read off the transcript; and the verifier's identities are
//! evaluated row by row on the logged vectors (oracle: they vanish for an honest witness).

mod args;
mod branches;
mod rec;
mod stress;
mod van;

use std::collections::HashMap;

use blake2b_simd::State as Blake2bState;
use midnight_circuits::hash::poseidon::PoseidonState;
use midnight_curves::{Bls12, Fq as F, G1Projective};
use midnight_proofs::{
    plonk::{
        commit_to_instances, create_proof, keygen_pk, keygen_vk_with_k, prepare, Circuit,
    },
    poly::{
        commitment::Guard,
        kzg::{params::ParamsKZG, KZGCommitmentScheme},
    },
    transcript::{Hashable, Sampleable, Transcript, TranscriptHash},
};
use mzkh::{
    family::{sample_params, sample_params_ext, FamCircuit, FamParams, GateKind, LookupKind, SHAPE_GROUPS},
    Ctx,
};
use rec::{take_log, Event, ValueTranscript as RecordingTranscript};
use rand::{Rng, SeedableRng};
use rand_chacha::ChaCha8Rng;
use serde_json::json;

type Scheme = KZGCommitmentScheme<Bls12>;

fn tokens(ev: &[Event]) -> String {
    ev.iter()
        .map(|e| match e.kind {
            'S' => "S".to_string(),
            'C' => format!("C{}", e.ty),
            _ => format!("E{}", e.ty),
        })
        .collect::<Vec<_>>()
        .join(" ")
}

use mzkh::shape::shape_string;

static CASE_NO: std::sync::atomic::AtomicUsize = std::sync::atomic::AtomicUsize::new(0);

/// Branches of `add_expression` hit so far by the gate polynomials of the `graph` lines.
static BRANCH_HITS: std::sync::Mutex<std::collections::BTreeMap<&'static str, u64>> =
    std::sync::Mutex::new(std::collections::BTreeMap::new());

struct Setup {
    params: HashMap<u32, ParamsKZG<Bls12>>,
}

impl Setup {
    fn get(&mut self, k: u32) -> &ParamsKZG<Bls12> {
        self.params
            .entry(k)
            .or_insert_with(|| ParamsKZG::<Bls12>::unsafe_setup(k, ChaCha8Rng::seed_from_u64(k as u64 + 99)))
    }
}

/// One family member, proven `n_proofs` times together, verified; returns whether it verified.
#[allow(clippy::too_many_arguments)]
fn run_case<H: TranscriptHash>(
    ctx: &mut Ctx,
    setup: &mut Setup,
    hash_name: &str,
    fp: &FamParams,
    n_proofs: usize,
    extra_k: u32,
    seed: u64,
    with_args: bool,
) where
    F: Hashable<H> + Sampleable<H>,
    G1Projective: Hashable<H>,
{
    let circuits: Vec<FamCircuit> = (0..n_proofs).map(|i| FamCircuit::new(fp.clone(), seed + i as u64)).collect();
    let insts: Vec<Vec<Vec<F>>> = circuits.iter().map(|c| c.instances()).collect();
    let mut labels: Vec<String> = fp.gates.iter().map(|g| format!("gate={g:?}")).collect();
    labels.extend(fp.lookups.iter().map(|l| format!("lookup={l:?}")));
    run_circuits::<H, FamCircuit>(
        ctx, setup, hash_name, &circuits, insts, fp.n_committed, fp.n_plain, format!("{fp:?}"), labels, extra_k, seed, with_args, None,
    );
}

/// Circuits of one type (same constraint system) proven together, verified. `key_class = Some(..)`:
/// the circuit is one the mock checker itself refuses (`ConstraintPoisoned`: a gate active on the
/// unusable rows), so a rejected proof is recorded but is not a failure of the property.
/// Returns `Some(accepted)`.
#[allow(clippy::too_many_arguments)]
fn run_circuits<H: TranscriptHash, C: Circuit<F> + Clone>(
    ctx: &mut Ctx,
    setup: &mut Setup,
    hash_name: &str,
    circuits: &[C],
    insts: Vec<Vec<Vec<F>>>,
    n_committed: usize,
    n_plain: usize,
    params_desc: String,
    labels: Vec<String>,
    extra_k: u32,
    seed: u64,
    with_args: bool,
    key_class: Option<&str>,
) -> Option<bool>
where
    F: Hashable<H> + Sampleable<H>,
    G1Projective: Hashable<H>,
{
    let n_proofs = circuits.len();
    // find the smallest k for which key generation succeeds, then add extra_k
    let mut k = 4;
    let (pk, k) = loop {
        let params = setup.get(k).clone();
        match keygen_vk_with_k::<F, Scheme, _>(&params, &circuits[0], k) {
            Ok(vk) => {
                if extra_k > 0 {
                    let k2 = k + extra_k;
                    let params2 = setup.get(k2).clone();
                    let vk2 = keygen_vk_with_k::<F, Scheme, _>(&params2, &circuits[0], k2).unwrap();
                    break (keygen_pk(vk2, &circuits[0]).unwrap(), k2);
                }
                break (keygen_pk(vk, &circuits[0]).unwrap(), k);
            }
            Err(_) if k < 10 => k += 1,
            Err(e) => panic!("keygen failed: {e:?}"),
        }
    };
    let params = setup.get(k).clone();
    let shape = shape_string(&pk, k);
    {
        // compiled custom-gates graph of the proving key vs the Lean compiler on the dumped gates
        let gates: Vec<String> = pk
            .get_vk()
            .cs()
            .gates()
            .iter()
            .flat_map(|g| g.polynomials().iter().map(mzkh::csdump::expr_string))
            .collect();
        let (consts, rots, calcs) = pk.verif_custom_gates_graph();
        // the last calculation is the Horner combination of the parts with y
        let (horner, body) = calcs.split_last().expect("horner");
        let parts = horner.split(';').nth(1).unwrap_or("").to_string();
        let ans = format!(
            "consts={} rots={} calcs={} parts={}",
            consts.iter().map(mzkh::fe_hex).collect::<Vec<_>>().join(","),
            if rots.is_empty() { "-".to_string() } else { rots.iter().map(|r| r.to_string()).collect::<Vec<_>>().join(",") },
            if body.is_empty() { "-".to_string() } else { body.join(";") },
            if parts.is_empty() { "-".to_string() } else { parts }
        );
        if !gates.is_empty() {
            ctx.case("graph", true, &format!("graph {}", gates.join(";")), &ans);
            // statistics: the branch of `add_expression` every node of these polynomials takes
            let mut mir = branches::Mirror::new();
            for g in pk.get_vk().cs().gates() {
                for p in g.polynomials() {
                    mir.add(p);
                }
            }
            let mut all = BRANCH_HITS.lock().unwrap();
            for (l, n) in &mir.hits {
                *all.entry(*l).or_insert(0) += *n;
            }
            if mir.calc_strings() != body || mir.constants != consts || mir.rotations != rots {
                ctx.count("branch-statistics:mirror-differs-from-real-graph");
            }
        }
        // compiled LOOKUP and TRASH graphs (`Evaluator::new`, hook `verif_argument_graphs`) vs the Lean
        // compiler: a lookup graph is compared whole (input expressions, Horner with theta, table
        // expressions, Horner, `+ gamma`, `+ beta`, product); a trash graph is the constraint expressions
        // followed by one Horner with the trash challenge
        let fmt = |consts: &Vec<F>, rots: &Vec<i32>, calcs: &[String]| {
            format!(
                "consts={} rots={} calcs={}",
                consts.iter().map(mzkh::fe_hex).collect::<Vec<_>>().join(","),
                if rots.is_empty() { "-".to_string() } else { rots.iter().map(|r| r.to_string()).collect::<Vec<_>>().join(",") },
                if calcs.is_empty() { "-".to_string() } else { calcs.join(";") }
            )
        };
        let (lgraphs, tgraphs) = pk.verif_argument_graphs();
        let cs = pk.get_vk().cs();
        for (l, (consts, rots, calcs)) in cs.lookups().iter().zip(lgraphs.iter()) {
            let ins: Vec<String> = l.input_expressions().iter().map(mzkh::csdump::expr_string).collect();
            let tabs: Vec<String> = l.table_expressions().iter().map(mzkh::csdump::expr_string).collect();
            ctx.case("lgraph", true, &format!("lgraph {} {}", ins.join(";"), tabs.join(";")), &fmt(consts, rots, calcs));
        }
        if lgraphs.len() != cs.lookups().len() || tgraphs.len() != cs.trashcans().len() {
            ctx.count("argument-graphs:count-differs-from-constraint-system");
        }
        for (t, (consts, rots, calcs)) in cs.trashcans().iter().zip(tgraphs.iter()) {
            let es: Vec<String> = t.constraint_expressions().iter().map(mzkh::csdump::expr_string).collect();
            ctx.case("tgraph", true, &format!("tgraph {}", es.join(";")), &fmt(consts, rots, calcs));
        }
    }
    let lens = insts
        .iter()
        .map(|cols| mzkh::join(&cols[n_committed..].iter().map(|c| c.len()).collect::<Vec<_>>()))
        .collect::<Vec<_>>()
        .join("|");
    let cfg = format!("np={} nc={} lens={}", n_proofs, n_committed, lens);
    let desc = json!({"params": params_desc, "n_proofs": n_proofs, "k": k, "hash": hash_name, "seed": seed});
    let key = format!(
        "honest-rejected:np={},nc={},npl={},{}",
        n_proofs,
        n_committed,
        n_plain,
        hash_name
    );
    let key = match key_class {
        Some(c) => format!("honest-rejected:{c}"),
        None => key,
    };

    // prove
    let inst_refs: Vec<Vec<&[F]>> = insts.iter().map(|cols| cols.iter().map(|c| &c[..]).collect()).collect();
    let inst_refs2: Vec<&[&[F]]> = inst_refs.iter().map(|c| &c[..]).collect();
    take_log();
    midnight_proofs::plonk::verif_hooks::set_argument_log(with_args);
    let mut tr = RecordingTranscript::<H>::init();
    let res = mzkh::catch(|| {
        create_proof::<F, Scheme, _, _>(
            &params,
            &pk,
            circuits,
            n_committed,
            &inst_refs2,
            ChaCha8Rng::seed_from_u64(seed ^ 0xbeef),
            &mut tr,
        )
    });
    let p_events = take_log();
    let arg_log = midnight_proofs::plonk::verif_hooks::take_argument_log();
    midnight_proofs::plonk::verif_hooks::set_argument_log(false);
    match res {
        Ok(Ok(())) => {}
        other => {
            ctx.oracle_fail(&format!("{key}:prover"), "create_proof failed on a satisfying witness", json!({"case": desc, "result": format!("{other:?}")}));
            return None;
        }
    }
    let proof = tr.finalize();
    ctx.case("schedule-prover", true, &format!("schedule P {shape} {cfg}"), &tokens(&p_events));
    ctx.case("prooflen", true, &format!("prooflen {shape} {cfg}"), &proof.len().to_string());
    // argument vectors: bounded table size (the request lines carry the whole table)
    let with_args = with_args && k <= if ctx.thorough() { 8 } else { 7 };
    if with_args {
        let squeezed: Vec<F> = p_events.iter().filter_map(|e| e.value).collect();
        match args::split_log(arg_log, pk.get_vk().cs(), n_proofs) {
            Ok(log) => {
                let mut arng = ctx.rng(&format!("args{seed}"));
                for pi in 0..n_proofs.min(2) {
                    let no = CASE_NO.fetch_add(1, std::sync::atomic::Ordering::SeqCst);
                    args::emit_proof(ctx, &format!("t{no}"), &pk, k, &log, pi, &squeezed, &mut arng, &desc);
                }
            }
            Err(e) => panic!("argument log does not have the documented layout: {e}"),
        }
    }

    // verify
    let domain = pk.get_vk().get_domain();
    let commitments: Vec<Vec<G1Projective>> = insts
        .iter()
        .map(|cols| cols[..n_committed].iter().map(|c| commit_to_instances::<F, Scheme>(&params, domain, c)).collect())
        .collect();
    let com_refs: Vec<&[G1Projective]> = commitments.iter().map(|c| &c[..]).collect();
    let plain_refs: Vec<Vec<&[F]>> =
        insts.iter().map(|cols| cols[n_committed..].iter().map(|c| &c[..]).collect()).collect();
    let plain_refs2: Vec<&[&[F]]> = plain_refs.iter().map(|c| &c[..]).collect();
    let mut vt = RecordingTranscript::<H>::init_from_bytes(&proof);
    midnight_proofs::plonk::verif_hooks::clear_identity_log();
    midnight_proofs::plonk::verif_hooks::set_instance_eval_log(true);
    let vres = mzkh::catch(|| {
        let guard = prepare::<F, Scheme, _>(pk.get_vk(), &com_refs, &plain_refs2, &mut vt).map_err(|e| format!("{e:?}"))?;
        vt.assert_empty().map_err(|e| format!("trailing: {e:?}"))?;
        guard.verify(&params.verifier_params()).map_err(|e| format!("{e:?}"))
    });
    let v_events = take_log();
    let inst_log = midnight_proofs::plonk::verif_hooks::take_instance_eval_log();
    midnight_proofs::plonk::verif_hooks::set_instance_eval_log(false);
    ctx.case("schedule-verifier", true, &format!("schedule V {shape} {cfg}"), &tokens(&v_events));
    {
        // number of identities the verifier folded with y (hooked log of `vanishing::verifier::verify`)
        // vs the length of the model's `verifierIds` for this shape
        let folds = midnight_proofs::plonk::verif_hooks::take_identity_log();
        let cs = pk.get_vk().cs();
        let n_polys: usize = cs.gates().iter().map(|g| g.polynomials().len()).sum();
        if let [f] = &folds[..] {
            ctx.case(
                "idcount",
                true,
                &format!("idcount np={} g={} s={} l={} t={}", n_proofs, n_polys, args::n_sets(cs), cs.lookups().len(), cs.trashcans().len()),
                &f.values.len().to_string(),
            );
            // the fold itself: expected_h_eval = fold(values, y) / (x^n - 1)
            van::emit_fold(ctx, f);
        }
    }
    if let [il] = &inst_log[..] {
        // the verifier's own evaluation of the plain instance columns, and the Lagrange
        // evaluations l_i_range / l_0 / l_last / l_blind at the x of this proof
        let plain: Vec<Vec<Vec<F>>> = insts.iter().map(|cols| cols[n_committed..].to_vec()).collect();
        van::emit_instance_evals(ctx, pk.get_vk(), k, n_committed, &plain, il, &desc);
        let mut x = <F as ff::PrimeField>::Repr::default();
        x.as_mut().copy_from_slice(&il.x);
        let x = <F as ff::PrimeField>::from_repr(x).unwrap();
        let mut lrng = ctx.rng(&format!("lagrange{seed}"));
        van::emit_lagrange(ctx, pk.get_vk(), k, x, &mut lrng);
    }
    ctx.count(&format!("np={n_proofs}"));
    ctx.count(&format!("nc={}", n_committed));
    ctx.count(&format!("k={k}"));
    ctx.count(&format!("hash={hash_name}"));
    for l in &labels {
        ctx.count(l);
    }
    {
        let cs = pk.get_vk().cs();
        ctx.count(&format!("quotient-pieces={}", cs.degree() - 1));
        ctx.count(&format!("blinding-factors={}", cs.blinding_factors()));
    }
    match vres {
        Ok(Ok(())) => {
            // prover and verifier must have absorbed byte-identical elements in the same order
            let same = p_events.len() == v_events.len()
                && p_events.iter().zip(v_events.iter()).all(|(a, b)| a.bytes == b.bytes && a.ty == b.ty);
            if !same {
                ctx.oracle_fail(&format!("{key}:bytes"), "verifier accepted but absorbed different bytes than the prover", json!({"case": desc}));
            }
            Some(true)
        }
        other => {
            if key_class.is_none() {
                ctx.oracle_fail(&key, "honest proof rejected by the verifier", json!({"case": desc, "result": format!("{other:?}"), "shape": shape, "cfg": cfg}));
            }
            Some(false)
        }
    }
}

/// A witness with one altered advice cell: when the cell is a lookup input, `create_proof`
/// returns `Err(ConstraintSystemFailure)` (from `permute_expression_pair`); the Lean model must
/// fail in the same way on the logged table. Returns the number of failure cases emitted.
fn lookup_failure_cases(ctx: &mut Ctx, setup: &mut Setup, fp: &FamParams, seed: u64, max: usize) -> usize {
    use mzkh::family::FaultKind;
    let base = FamCircuit::new(fp.clone(), seed);
    let mut k = 4;
    let (pk, k) = loop {
        let params = setup.get(k).clone();
        match keygen_vk_with_k::<F, Scheme, _>(&params, &base, k) {
            Ok(vk) => break (keygen_pk(vk, &base).unwrap(), k),
            Err(_) if k < 10 => k += 1,
            Err(e) => panic!("keygen failed: {e:?}"),
        }
    };
    let params = setup.get(k).clone();
    let insts = base.instances();
    let inst_refs: Vec<&[F]> = insts.iter().map(|c| &c[..]).collect();
    let cells = base.cell_count.load(std::sync::atomic::Ordering::SeqCst);
    let mut found = 0;
    for idx in 0..cells {
        if found >= max {
            break;
        }
        let mut c = base.clone();
        c.fault = Some((idx, FaultKind::Random));
        take_log();
        midnight_proofs::plonk::verif_hooks::set_argument_log(true);
        let mut tr = RecordingTranscript::<Blake2bState>::init();
        let res = mzkh::catch(|| {
            create_proof::<F, Scheme, _, _>(&params, &pk, &[c], fp.n_committed, &[&inst_refs[..]], ChaCha8Rng::seed_from_u64(seed ^ 0xbeef), &mut tr)
        });
        let events = take_log();
        let log = midnight_proofs::plonk::verif_hooks::take_argument_log();
        midnight_proofs::plonk::verif_hooks::set_argument_log(false);
        match res {
            Ok(Err(midnight_proofs::plonk::Error::ConstraintSystemFailure)) => {
                let squeezed: Vec<F> = events.iter().filter_map(|e| e.value).collect();
                let no = CASE_NO.fetch_add(1, std::sync::atomic::Ordering::SeqCst);
                if args::emit_lookup_failure(ctx, &format!("t{no}"), &pk, k, log, &squeezed) {
                    found += 1;
                }
            }
            Err(p) => {
                // a panic of the prover on a non-satisfying witness is not a C01 matter, but record it
                ctx.count(&format!("faulted-witness-prover-panic:{}", p.chars().take(40).collect::<String>()));
            }
            _ => {}
        }
    }
    found
}

/// One member of the C01-owned stress shapes (`stress.rs`).
#[allow(clippy::too_many_arguments)]
fn stress_case<H: TranscriptHash>(
    ctx: &mut Ctx,
    setup: &mut Setup,
    hash_name: &str,
    sp: &stress::StressParams,
    n_proofs: usize,
    extra_k: u32,
    seed: u64,
    with_args: bool,
    key_class: Option<&str>,
) -> Option<bool>
where
    F: Hashable<H> + Sampleable<H>,
    G1Projective: Hashable<H>,
{
    let circuits: Vec<stress::StressCircuit> =
        (0..n_proofs).map(|i| stress::StressCircuit::new(sp.clone(), seed + i as u64)).collect();
    let insts: Vec<Vec<Vec<F>>> = circuits.iter().map(|c| c.instances()).collect();
    let mut labels = vec![format!("stress:deg={}", sp.deg)];
    if sp.unblinded_rot {
        labels.push("stress:unblinded-queried-at-3-rotations".into());
    }
    if sp.phase2_unqueried {
        labels.push("stress:phase2-column-never-queried".into());
    }
    if sp.lookup_advice_table {
        labels.push("stress:lookup-table=advice".into());
    }
    if sp.lookup_instance_table {
        labels.push("stress:lookup-table=instance".into());
    }
    if sp.nosel != stress::NoSel::None {
        labels.push(format!("stress:nosel={:?}", sp.nosel));
    }
    run_circuits::<H, stress::StressCircuit>(
        ctx, setup, hash_name, &circuits, insts, sp.n_committed, sp.n_plain, format!("{sp:?}"), labels, extra_k, seed, with_args, key_class,
    )
}

/// Gates without a factor that vanishes on the unusable rows, on the real prover. Such a gate is
/// "active on an unusable row": the mock checker reports `ConstraintPoisoned` for it, and the real
/// prover — which overwrites the last `blinding_factors + 1` rows of every blinded advice column with
/// random values — produces a proof the verifier rejects (Lean: `unselected_gate_not_divisible`);
/// with a fixed-column factor the gate is protected (`selector_gate_blinding_rows`). Oracle: whenever
/// the mock checker accepts circuit and witness, the honest proof must be accepted.
fn noselector_cases(ctx: &mut Ctx, setup: &mut Setup) {
    use stress::{NoSel, StressCircuit, StressParams};
    for (nosel, class) in [
        (NoSel::FixedFactor, "gate-with-fixed-column-factor"),
        (NoSel::AdviceOnly, "gate-without-selector:advice-only"),
        (NoSel::OneMinusSel, "gate-without-selector:one-minus-selector"),
    ] {
        let sp = StressParams { nosel, ..StressParams::default() };
        let c = StressCircuit::new(sp.clone(), 31);
        let mock = mzkh::catch(|| {
            midnight_proofs::dev::MockProver::run(5, &c, c.instances()).map(|m| match m.verify() {
                Ok(()) => "ok".to_string(),
                Err(e) => {
                    if e.iter().all(|f| matches!(f, midnight_proofs::dev::VerifyFailure::ConstraintPoisoned { .. })) {
                        "ConstraintPoisoned".to_string()
                    } else {
                        format!("{:?}", e.first()).chars().take(60).collect()
                    }
                }
            })
        });
        let mock_s = match mock {
            Ok(Ok(s)) => s,
            other => format!("{other:?}").chars().take(40).collect(),
        };
        let poisoned = mock_s == "ConstraintPoisoned";
        let acc = stress_case::<Blake2bState>(ctx, setup, "blake2b", &sp, 1, 0, 31, false, if poisoned { Some(class) } else { None });
        ctx.count(&format!(
            "noselector-gate:{nosel:?}:mock={mock_s}:verifier={}",
            match acc {
                Some(true) => "accepts",
                Some(false) => "rejects",
                None => "prover-failed",
            }
        ));
        if mock_s != "ok" && !poisoned {
            ctx.oracle_fail(&format!("stress-witness-unsatisfied:{class}"), "the stress circuit's witness does not satisfy the mock checker", json!({"mock": mock_s}));
        }
    }
}

fn both_hashes(ctx: &mut Ctx, setup: &mut Setup, fp: &FamParams, n_proofs: usize, extra_k: u32, seed: u64, poseidon: bool) {
    run_case::<Blake2bState>(ctx, setup, "blake2b", fp, n_proofs, extra_k, seed, true);
    if poseidon {
        run_case::<PoseidonState<F>>(ctx, setup, "poseidon", fp, n_proofs, extra_k, seed, false);
    }
}

/// `evaluation.rs: get_rotation_idx` (hook `verif_get_rotation_idx`) vs the Lean mirror: every row class
/// (first, last, middle) x negative / positive rotations incl. wrap-around and |rot| beyond the domain,
/// on the un-extended domain (scale 1) and extended domains (scale 2^(extended_k - k)).
fn rotation_idx_cases(ctx: &mut Ctx) {
    type Pk = midnight_proofs::plonk::ProvingKey<F, Scheme>;
    let mut rng = ctx.rng("rotidx");
    let mut cases: Vec<(usize, i32, i32, i32)> = Vec::new();
    for (k, ek) in [(3u32, 3u32), (3, 5), (4, 6), (6, 9), (10, 13)] {
        let isize = 1i32 << ek;
        let scale = 1i32 << (ek - k);
        let n = 1i32 << k;
        for idx in [0usize, 1, (isize / 2) as usize, (isize - 2) as usize, (isize - 1) as usize] {
            for rot in [0, 1, -1, 2, -2, 3, -3, n - 1, -(n - 1), n, -n, n + 1, -(n + 1), 5 * n, -(5 * n) - 1] {
                cases.push((idx, rot, scale, isize));
            }
        }
        for _ in 0..12 {
            cases.push((rng.gen_range(0..isize as usize), rng.gen_range(-3 * n..=3 * n), scale, isize));
        }
    }
    let mut reported = false;
    for (idx, rot, scale, isize) in cases {
        let got = Pk::verif_get_rotation_idx(idx, rot, scale, isize);
        let class = if rot < 0 && (idx as i32) + rot * scale < 0 {
            "wrap-below"
        } else if (idx as i32) + rot * scale >= isize {
            "wrap-above"
        } else {
            "inside"
        };
        ctx.count(&format!("rotidx:{class}"));
        ctx.case("rotidx", true, &format!("rotidx {idx} {rot} {scale} {isize}"), &got.to_string());
        if got >= isize as usize {
            ctx.count("rotidx:out-of-range");
        }
        if got >= isize as usize && !reported {
            reported = true;
            ctx.oracle_fail(
                &format!("rotidx-out-of-range:{idx},{rot},{scale},{isize}"),
                "get_rotation_idx returned an index outside the polynomial",
                json!({"idx": idx, "rot": rot, "rot_scale": scale, "isize": isize, "got": got}),
            );
        }
    }
}

fn main() {
    let mut ctx = Ctx::from_args("C01");
    let mut setup = Setup { params: HashMap::new() };
    let mut rng = ctx.rng("family");
    rotation_idx_cases(&mut ctx);

    // corpus first: the configuration of defect D1 (2 and 3 proofs, one committed + one plain column)
    let d1 = FamParams { n_committed: 1, n_plain: 1, ..FamParams::default() };
    both_hashes(&mut ctx, &mut setup, &d1, 2, 0, 11, true);
    both_hashes(&mut ctx, &mut setup, &d1, 3, 0, 12, false);
    // every gate / lookup kind at least once
    let every = FamParams {
        n_adv0: 4,
        n_adv1: 1,
        unblinded: true,
        n_committed: 1,
        n_plain: 2,
        gates: vec![GateKind::Mul, GateKind::LinRot, GateKind::Pow(6), GateKind::Additive, GateKind::Complex, GateKind::Chal],
        lookups: vec![LookupKind::Range, LookupKind::Pair, LookupKind::AnyInstance],
        copies: true,
        const_copies: true,
        inst_copies: true,
        steps: 9,
        table_bits: 3,
    };
    both_hashes(&mut ctx, &mut setup, &every, 1, 0, 13, true);
    both_hashes(&mut ctx, &mut setup, &every, 2, 0, 14, false);
    // first advice query rotated, no committed instance: the first opening point is x·ω, not x
    let rot_first = FamParams { gates: vec![GateKind::NextFirst, GateKind::Mul], n_committed: 0, n_plain: 1, ..FamParams::default() };
    both_hashes(&mut ctx, &mut setup, &rot_first, 1, 0, 15, true);
    both_hashes(&mut ctx, &mut setup, &rot_first, 2, 0, 16, false);
    // plain instance column queried at rotations -1, 0, +1 (asymmetric coefficients)
    let inst_rot = FamParams { gates: vec![GateKind::InstRot, GateKind::Mul], n_committed: 0, n_plain: 1, ..FamParams::default() };
    both_hashes(&mut ctx, &mut setup, &inst_rot, 1, 0, 17, true);
    let inst_rot2 = FamParams { gates: vec![GateKind::InstRot, GateKind::LinRot], n_committed: 1, n_plain: 2, ..FamParams::default() };
    both_hashes(&mut ctx, &mut setup, &inst_rot2, 2, 0, 18, false);

    // argument vectors at several domain sizes: additive-selector gate (trash argument), range and
    // pair lookups (repeated inputs, leftover table rows), phase-1 column, unblinded column, copies
    // between advice, constants and instance cells (several permutation column sets)
    let args_member = FamParams {
        n_adv0: 5,
        n_adv1: 1,
        unblinded: true,
        n_committed: 1,
        n_plain: 1,
        gates: vec![GateKind::Additive, GateKind::Mul, GateKind::Chal],
        lookups: vec![LookupKind::Range, LookupKind::Pair],
        copies: true,
        const_copies: true,
        inst_copies: true,
        steps: 10,
        table_bits: 3,
    };
    for extra_k in 0..=2 {
        run_case::<Blake2bState>(&mut ctx, &mut setup, "blake2b", &args_member, 1, extra_k, 19 + extra_k as u64, true);
    }
    // degree 3 (one permutation column per set) with an additive-selector gate only
    let thin = FamParams { gates: vec![GateKind::Additive], n_committed: 0, n_plain: 1, steps: 5, ..FamParams::default() };
    run_case::<Blake2bState>(&mut ctx, &mut setup, "blake2b", &thin, 2, 1, 23, true);

    // stress shapes: gate degree 3..9 (2..8 quotient pieces) at the minimal k and one above
    {
        use stress::StressParams;
        let degs: &[usize] = if ctx.quick() { &[3, 4, 6, 8, 9] } else { &[3, 4, 5, 6, 7, 8, 9] };
        for (i, &deg) in degs.iter().enumerate() {
            let sp = StressParams { deg, ..StressParams::default() };
            stress_case::<Blake2bState>(&mut ctx, &mut setup, "blake2b", &sp, 1, (i % 2) as u32, 40 + i as u64, true, None);
        }
        // unblinded column queried at -1/0/+1, unqueried third-phase column, lookups into an advice
        // column and into an instance column, 2 committed + 1 plain instance columns, 3 and 4 proofs
        let full = StressParams {
            deg: 5,
            unblinded_rot: true,
            phase2_unqueried: true,
            lookup_advice_table: true,
            lookup_instance_table: true,
            n_committed: 2,
            n_plain: 1,
            steps: 6,
            ..StressParams::default()
        };
        stress_case::<Blake2bState>(&mut ctx, &mut setup, "blake2b", &full, 1, 0, 50, true, None);
        stress_case::<Blake2bState>(&mut ctx, &mut setup, "blake2b", &full, 3, 0, 51, true, None);
        stress_case::<PoseidonState<F>>(&mut ctx, &mut setup, "poseidon", &full, 4, 0, 52, false, None);
        // each feature alone, no committed column
        for (j, sp) in [
            StressParams { unblinded_rot: true, ..StressParams::default() },
            StressParams { phase2_unqueried: true, ..StressParams::default() },
            StressParams { lookup_advice_table: true, ..StressParams::default() },
            StressParams { lookup_instance_table: true, ..StressParams::default() },
        ]
        .iter()
        .enumerate()
        {
            stress_case::<Blake2bState>(&mut ctx, &mut setup, "blake2b", sp, 2, 0, 60 + j as u64, true, None);
        }
        // the shared family with 2 committed columns and 3 / 4 proofs
        let two_c = FamParams { n_committed: 2, n_plain: 1, gates: vec![GateKind::Mul, GateKind::InstRot], ..FamParams::default() };
        let two_c = FamParams { gates: vec![GateKind::InstRot, GateKind::Mul], ..two_c };
        both_hashes(&mut ctx, &mut setup, &two_c, 3, 0, 70, false);
        both_hashes(&mut ctx, &mut setup, &two_c, 4, 0, 71, true);
        noselector_cases(&mut ctx, &mut setup);
    }

    // lookup input outside the table: `permute_expression_pair` must return ConstraintSystemFailure
    let lf = FamParams { gates: vec![GateKind::Mul], lookups: vec![LookupKind::Pair, LookupKind::Range], steps: 6, ..FamParams::default() };
    let max_lf = if ctx.quick() { 4 } else { 12 };
    let nf = lookup_failure_cases(&mut ctx, &mut setup, &lf, 24, max_lf);
    ctx.count_n("lookup-failure-cases", nf as u64);

    // EXTENDED FAMILY (C01 / C02 only).
    // (a) expression shapes: every branch of `add_expression` on both operand positions; the
    //     compiled graph must equal the Lean compiler's and the honest proof must verify
    for g in 0..SHAPE_GROUPS {
        let fp = FamParams { gates: vec![GateKind::Shapes(g), GateKind::Mul], steps: 4, ..FamParams::default() };
        both_hashes(&mut ctx, &mut setup, &fp, 1 + (g as usize % 2), 0, 80 + g as u64, g == 0);
    }
    let all_shapes = FamParams {
        gates: (0..SHAPE_GROUPS).map(GateKind::Shapes).chain([GateKind::LinRot]).collect(),
        n_adv0: 4,
        steps: 7,
        ..FamParams::default()
    };
    both_hashes(&mut ctx, &mut setup, &all_shapes, 1, 1, 85, false);
    // (b) a two-column `lookup_any` whose highest-degree input and highest-degree table expression
    //     sit in different columns and which is the only constraint of degree 6: the degree
    //     bookkeeping (`lookup.rs: required_degree`) decides the extended domain and the number of
    //     quotient pieces; (c) a lookup table without a zero row (filler 5)
    let mixed = FamParams { gates: vec![GateKind::Mul], lookups: vec![LookupKind::MixedDeg], steps: 5, ..FamParams::default() };
    both_hashes(&mut ctx, &mut setup, &mixed, 1, 0, 86, true);
    both_hashes(&mut ctx, &mut setup, &mixed, 2, 1, 87, false);
    let mixed2 = FamParams {
        gates: vec![GateKind::Mul, GateKind::LinRot, GateKind::Additive],
        lookups: vec![LookupKind::Range, LookupKind::MixedDeg, LookupKind::NoZero],
        n_committed: 1,
        steps: 8,
        ..FamParams::default()
    };
    both_hashes(&mut ctx, &mut setup, &mixed2, 1, 0, 88, false);
    let nozero = FamParams { gates: vec![GateKind::Mul], lookups: vec![LookupKind::NoZero], steps: 6, table_bits: 2, ..FamParams::default() };
    both_hashes(&mut ctx, &mut setup, &nozero, 1, 0, 89, false);
    {
        let mut erng = ctx.rng("family-ext");
        let n_ext = match ctx.tier.as_str() {
            "quick" => 6,
            "thorough" => 40,
            _ => 12,
        };
        for i in 0..n_ext {
            let fp = sample_params_ext(&mut erng);
            let n_proofs = erng.gen_range(1..=2);
            both_hashes(&mut ctx, &mut setup, &fp, n_proofs, 0, 3000 + i as u64, false);
        }
    }

    let (n_random, search_cfgs) = match ctx.tier.as_str() {
        "quick" => (14, false),
        "thorough" => (150, true),
        _ => (40, true),
    };
    for i in 0..n_random {
        let fp = sample_params(&mut rng);
        let n_proofs = rng.gen_range(1..=if ctx.quick() { 3 } else { 4 });
        let extra_k = if rng.gen_bool(0.2) { rng.gen_range(1..=2) } else { 0 };
        let poseidon = i % 3 == 0;
        both_hashes(&mut ctx, &mut setup, &fp, n_proofs, extra_k, 1000 + i as u64, poseidon);
    }
    if search_cfgs {
        // failing-input search: enumerate configurations on the smallest members
        for np in 1..=3 {
            for nc in 0..=2 {
                for npl in 0..=2 {
                    for (gates, lookups) in [
                        (vec![GateKind::Mul], vec![]),
                        (vec![GateKind::Additive, GateKind::Chal], vec![LookupKind::Range]),
                    ] {
                        let n_adv1 = if gates.contains(&GateKind::Chal) { 1 } else { 0 };
                        let fp = FamParams { n_committed: nc, n_plain: npl, gates, lookups, n_adv1, steps: 3, ..FamParams::default() };
                        run_case::<Blake2bState>(&mut ctx, &mut setup, "blake2b", &fp, np, 0, 7000 + (np * 100 + nc * 10 + npl) as u64, np == 1);
                    }
                }
            }
        }
    }
    {
        let all = BRANCH_HITS.lock().unwrap();
        for l in branches::ALL_BRANCHES {
            match all.get(l) {
                Some(n) => ctx.count_n(&format!("add_expression-branch:{l}"), *n),
                None => ctx.count(&format!("WARNING:add_expression-branch-never-hit:{l}")),
            }
        }
    }
    ctx.finish();
}
