//! Correspondence harness of property C01 (stub).
use mzkh::Ctx;

fn main() {
    let ctx = Ctx::from_args("C01");
    ctx.finish();
}
