//! Correspondence of the verifier's last algebraic step with the Lean model
//! `Model/C01/Vanishing.lean`:
//!  * `hfold`    → `expected_h_eval` of `vanishing/verifier.rs: PartiallyEvaluated::verify` (hooked
//!                 identity log: values, y, xn) vs `expectedHEval`;
//!  * `lirange`  → `EvaluationDomain::l_i_range(x, xn, rotations)` (public) vs `lIRange`, on the
//!                 windows the verifier uses and on random rotation lists (negative, beyond ±n);
//!  * `levals`   → `l_0`, `l_last`, `l_blind` as `evaluate_identities` derives them, computed here
//!                 INDEPENDENTLY as the evaluations at `x` of `lagrange_to_coeff` of the row
//!                 indicators `[i = 0]`, `[i = u]`, `[u < i]`, vs `lEvals` (the model mirrors the code,
//!                 the harness computes the right-hand side of theorem `l_evals_spec`);
//!  * `insteval` → every plain-column entry of the verifier's `instance_evals` (hooked log) vs
//!                 `instanceEval`; oracle: it equals `eval_polynomial(lagrange_to_coeff(column), ω^rot·x)`.

use ff::{Field, PrimeField};
use midnight_curves::{Bls12, Fq as F};
use midnight_proofs::{
    plonk::{verif_hooks::{IdentityFold, InstanceEvals}, VerifyingKey},
    poly::kzg::KZGCommitmentScheme,
    utils::arithmetic::eval_polynomial,
};
use mzkh::Ctx;
use num_bigint::BigUint;
use rand::Rng;
use serde_json::json;

type Scheme = KZGCommitmentScheme<Bls12>;

fn hex(f: &F) -> String {
    mzkh::fe_hex(f)[2..].to_string()
}

fn from_repr(b: &[u8]) -> F {
    let mut r = <F as PrimeField>::Repr::default();
    r.as_mut().copy_from_slice(b);
    F::from_repr(r).unwrap()
}

fn col(vals: &[F]) -> String {
    if vals.is_empty() {
        "-".into()
    } else {
        vals.iter().map(hex).collect::<Vec<_>>().join(",")
    }
}

fn modulus_hex() -> String {
    let m = BigUint::parse_bytes(F::MODULUS.trim_start_matches("0x").as_bytes(), 16).unwrap();
    mzkh::big_hex(&m)[2..].to_string()
}

fn ints(v: &[i32]) -> String {
    if v.is_empty() {
        "-".into()
    } else {
        v.iter().map(|r| r.to_string()).collect::<Vec<_>>().join(",")
    }
}

/// `hfold`: the fold of the identity values with `y` and the division by `x^n − 1`.
pub fn emit_fold(ctx: &mut Ctx, fold: &IdentityFold) {
    let vals: Vec<F> = fold.values.iter().map(|b| from_repr(b)).collect();
    let line = format!(
        "hfold p={} y={} xn={} vals={}",
        modulus_hex(),
        hex(&from_repr(&fold.y)),
        hex(&from_repr(&fold.xn)),
        col(&vals)
    );
    ctx.case("hfold", true, &line, &hex(&from_repr(&fold.expected_h_eval)));
}

/// `lirange` / `levals` on the domain of `vk` at the point `x`.
pub fn emit_lagrange(ctx: &mut Ctx, vk: &VerifyingKey<F, Scheme>, k: u32, x: F, rng: &mut impl Rng) {
    let domain = vk.get_domain();
    let n = 1u64 << k;
    let xn = x.pow_vartime([n]);
    let omega = domain.get_omega();
    let bf = vk.cs().blinding_factors();
    let head = format!("p={} omega={} k={} x={}", modulus_hex(), hex(&omega), k, hex(&x));
    // the window of evaluate_identities, a window like the instance one, random rotations
    let w1: Vec<i32> = (-((bf + 1) as i32)..=0).collect();
    let w2: Vec<i32> = (-2..7).collect();
    let w3: Vec<i32> = (0..6).map(|_| rng.gen_range(-(3 * n as i32)..(3 * n as i32))).collect();
    let w4: Vec<i32> = vec![n as i32, -(n as i32), n as i32 - 1, 1 - n as i32, 0, 0];
    for rots in [w1, w2, w3, w4, vec![]] {
        let got = domain.l_i_range(x, xn, rots.clone());
        ctx.case("lirange", true, &format!("lirange {head} rots={}", ints(&rots)), &col(&got));
    }
    // independent right-hand side of `l_evals_spec`
    let u = n as usize - (bf + 1);
    let ind = |f: &dyn Fn(usize) -> bool| {
        let mut p = domain.empty_lagrange();
        for i in 0..n as usize {
            if f(i) {
                p[i] = F::ONE;
            }
        }
        eval_polynomial(&domain.lagrange_to_coeff(p)[..], x)
    };
    let l0 = ind(&|i| i == 0);
    let llast = ind(&|i| i == u);
    let lblind = ind(&|i| u < i);
    ctx.case(
        "levals",
        true,
        &format!("levals {head} bf={bf}"),
        &format!("l0={} llast={} lblind={}", hex(&l0), hex(&llast), hex(&lblind)),
    );
}

/// `insteval`: the verifier's own evaluation of the plain instance columns.
pub fn emit_instance_evals(
    ctx: &mut Ctx,
    vk: &VerifyingKey<F, Scheme>,
    k: u32,
    n_committed: usize,
    plain: &[Vec<Vec<F>>],
    log: &InstanceEvals,
    desc: &serde_json::Value,
) {
    let domain = vk.get_domain();
    let n = 1usize << k;
    let omega = domain.get_omega();
    let x = from_repr(&log.x);
    let queries = vk.cs().instance_queries();
    let (min_rot, max_rot) = queries.iter().fold((0i32, 0i32), |(mn, mx), (_, r)| (mn.min(r.0), mx.max(r.0)));
    let max_len = plain.iter().flat_map(|p| p.iter().map(|c| c.len())).max().unwrap_or(0);
    let head = format!(
        "p={} omega={} k={} x={} maxrot={} minabs={} maxlen={}",
        modulus_hex(),
        hex(&omega),
        k,
        hex(&x),
        max_rot,
        min_rot.abs(),
        max_len
    );
    for (pi, evals) in log.evals.iter().enumerate() {
        for (qi, (column, rot)) in queries.iter().enumerate() {
            if column.index() < n_committed {
                continue;
            }
            let inst = &plain[pi][column.index() - n_committed];
            let got = from_repr(&evals[qi]);
            ctx.case("insteval", true, &format!("insteval {head} rot={} inst={}", rot.0, col(inst)), &hex(&got));
            // oracle: the value is the column polynomial evaluated at ω^rot · x
            let mut p = domain.empty_lagrange();
            for (i, v) in inst.iter().enumerate().take(n) {
                p[i] = *v;
            }
            let want = eval_polynomial(&domain.lagrange_to_coeff(p)[..], domain.rotate_omega(x, *rot));
            if want != got {
                ctx.oracle_fail(
                    &format!("insteval-wrong:rot={},min={},max={}", rot.0, min_rot, max_rot),
                    "the verifier's evaluation of a plain instance column differs from the column polynomial at ω^rot·x",
                    json!({"case": desc, "proof": pi, "query": qi, "rotation": rot.0, "got": hex(&got), "want": hex(&want)}),
                );
            }
        }
    }
}
