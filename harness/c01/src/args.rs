//! Correspondence of the prover's permutation / lookup / trash argument vectors with the Lean
//! model `Model/C01/Arguments.lean`, and the direct oracle "the verifier's identities, read row by
//! row, vanish on the vectors the real prover computed from an honest witness".
//!
//! Input: the hooked argument log of one `create_proof` call (`plonk::verif_hooks`), the
//! challenges read off the recorded transcript, `fixed_values` and the σ-label vectors of the
//! proving key. Per proof one `argtable` line carries the REAL table (blinding rows included), the
//! constraint system (csdump format), the challenges and the σ labels; the following lines refer
//! to it:
//!  * `permz`      → the product vectors `z_s` of `permutation/prover.rs: commit`, rows `< n − bf`;
//!  * `lookupcomp` → compressed input / table vectors of one lookup (all rows);
//!  * `lookupperm` → `permute_expression_pair`: sorted input, table rows the specification forces
//!                   (the others masked: they depend on the HashMap order), table multiset;
//!  * `lookupz`    → product vector of `commit_product`, rows `< n − bf`;
//!  * `trashvec`   → trash column (all rows);
//!  * `permrules` / `lookuprules` / `trashrules` → list of (row.rule) positions at which the
//!    verifier's identities (`permutation.rs: expressions`, `lookup.rs`, `trash.rs`) are non-zero
//!    on given vectors — `none` for the logged vectors, and the positions computed by the
//!    independent Rust re-implementation below for vectors with one altered entry.

use ff::{Field, PrimeField};
use midnight_curves::{Bls12, Fq as F};
use midnight_proofs::{
    plonk::{verif_hooks::ArgumentVector, Any, ConstraintSystem, Expression, ProvingKey},
    poly::kzg::KZGCommitmentScheme,
};
use mzkh::Ctx;
use num_bigint::BigUint;
use rand::Rng;
use serde_json::json;

type Scheme = KZGCommitmentScheme<Bls12>;

fn hex(f: &F) -> String {
    mzkh::fe_hex(f)[2..].to_string()
}

fn rle(vals: &[F]) -> String {
    if vals.is_empty() {
        return "-".into();
    }
    let mut out: Vec<String> = vec![];
    let mut i = 0;
    while i < vals.len() {
        let mut j = i;
        while j < vals.len() && vals[j] == vals[i] {
            j += 1;
        }
        if j - i > 1 {
            out.push(format!("{}*{}", hex(&vals[i]), j - i));
        } else {
            out.push(hex(&vals[i]));
        }
        i = j;
    }
    out.join(",")
}

fn cols_string(cols: &[Vec<F>]) -> String {
    if cols.is_empty() {
        "-".into()
    } else {
        cols.iter().map(|c| rle(c)).collect::<Vec<_>>().join("/")
    }
}

fn to_f(bytes: &[u8]) -> F {
    mzkh::fe_from_big(&BigUint::from_bytes_le(bytes))
}

fn vecs(v: &ArgumentVector) -> Vec<F> {
    v.values.iter().map(|b| to_f(b)).collect()
}

/// The argument log of one `create_proof`, split per proof.
pub struct ArgLog {
    pub challenges: Vec<F>,
    pub advice: Vec<Vec<Vec<F>>>,
    pub instance: Vec<Vec<Vec<F>>>,
    /// per proof, per lookup: compressed input, compressed table, permuted input, permuted table
    pub lookups: Vec<Vec<[Vec<F>; 4]>>,
    pub perm_z: Vec<Vec<Vec<F>>>,
    pub lookup_z: Vec<Vec<Vec<F>>>,
    pub trash: Vec<Vec<Vec<F>>>,
}

pub fn n_sets(cs: &ConstraintSystem<F>) -> usize {
    let pc = cs.permutation().get_columns().len();
    let cl = cs.degree() - 2;
    pc.div_ceil(cl)
}

/// Splits the flat log by the documented order; `Err` names what does not fit.
pub fn split_log(log: Vec<ArgumentVector>, cs: &ConstraintSystem<F>, n_proofs: usize) -> Result<ArgLog, String> {
    let mut it = log.into_iter().peekable();
    let mut take = |kind: &str, count: usize| -> Result<Vec<Vec<F>>, String> {
        let mut out = vec![];
        for _ in 0..count {
            match it.next() {
                Some(v) if v.kind == kind => out.push(vecs(&v)),
                Some(v) => return Err(format!("expected {kind}, found {}", v.kind)),
                None => return Err(format!("expected {kind}, log ended")),
            }
        }
        Ok(out)
    };
    let challenges = take("challenges", 1)?.pop().unwrap();
    let (mut advice, mut instance) = (vec![], vec![]);
    for _ in 0..n_proofs {
        advice.push(take("advice", cs.num_advice_columns())?);
        instance.push(take("instance", cs.num_instance_columns())?);
    }
    let mut lookups = vec![];
    for _ in 0..n_proofs {
        let mut per = vec![];
        for _ in 0..cs.lookups().len() {
            let a = take("lookup_input", 1)?.pop().unwrap();
            let s = take("lookup_table", 1)?.pop().unwrap();
            let pa = take("lookup_permuted_input", 1)?.pop().unwrap();
            let pt = take("lookup_permuted_table", 1)?.pop().unwrap();
            per.push([a, s, pa, pt]);
        }
        lookups.push(per);
    }
    let mut perm_z = vec![];
    for _ in 0..n_proofs {
        perm_z.push(take("perm_z", n_sets(cs))?);
    }
    let mut lookup_z = vec![];
    for _ in 0..n_proofs {
        lookup_z.push(take("lookup_z", cs.lookups().len())?);
    }
    let mut trash = vec![];
    for _ in 0..n_proofs {
        trash.push(take("trash", cs.trashcans().len())?);
    }
    if let Some(v) = it.next() {
        return Err(format!("unexpected trailing {}", v.kind));
    }
    Ok(ArgLog { challenges, advice, instance, lookups, perm_z, lookup_z, trash })
}

/// The real table of one proof and everything the verifier's rules need.
pub struct Table<'a> {
    pub n: usize,
    pub bf: usize,
    pub cl: usize,
    pub u: usize,
    pub theta: F,
    pub beta: F,
    pub gamma: F,
    pub tc: F,
    pub omega: F,
    pub challenges: &'a [F],
    pub fixed: &'a [Vec<F>],
    pub advice: &'a [Vec<F>],
    pub inst: &'a [Vec<F>],
    pub sigma: &'a [Vec<F>],
    /// values of the permutation columns, in the order of `cs.permutation.columns`
    pub perm_cols: Vec<&'a Vec<F>>,
}

impl Table<'_> {
    /// `evaluation.rs: evaluate` on row `i` (rotation = cyclic shift of the row index).
    pub fn eval(&self, e: &Expression<F>, i: usize) -> F {
        let n = self.n as i64;
        let at = |rot: i32| ((i as i64 + rot as i64).rem_euclid(n)) as usize;
        e.evaluate(
            &|c| c,
            &|_| panic!("virtual selectors are removed during optimization"),
            &|q| self.fixed[q.column_index()][at(q.rotation().0)],
            &|q| self.advice[q.column_index()][at(q.rotation().0)],
            &|q| self.inst[q.column_index()][at(q.rotation().0)],
            &|c| self.challenges[c.index()],
            &|a| -a,
            &|a, b| a + b,
            &|a, b| a * b,
            &|a, s| a * s,
        )
    }

    pub fn compress(&self, es: &[Expression<F>], ch: F, i: usize) -> F {
        es.iter().fold(F::ZERO, |acc, e| acc * ch + self.eval(e, i))
    }

    fn l(&self, i: usize) -> (F, F, F) {
        let b = |c: bool| if c { F::ONE } else { F::ZERO };
        (b(i == 0), b(i == self.u), b(i > self.u))
    }

    /// `permutation.rs: expressions` read on row `i` (`x = ω^i`).
    pub fn perm_rules(&self, zs: &[Vec<F>], i: usize) -> Vec<F> {
        let (l0, l_last, l_blind) = self.l(i);
        let x = self.omega.pow_vartime([i as u64]);
        let mut out = vec![];
        if let Some(z) = zs.first() {
            out.push(l0 * (F::ONE - z[i]));
        }
        if let Some(z) = zs.last() {
            out.push((z[i].square() - z[i]) * l_last);
        }
        for s in 1..zs.len() {
            out.push((zs[s][i] - zs[s - 1][(i + self.u) % self.n]) * l0);
        }
        for (s, ((z, cols), sig)) in
            zs.iter().zip(self.perm_cols.chunks(self.cl)).zip(self.sigma.chunks(self.cl)).enumerate()
        {
            let mut left = z[(i + 1) % self.n];
            for (v, sg) in cols.iter().zip(sig.iter()) {
                left *= v[i] + self.beta * sg[i] + self.gamma;
            }
            let mut right = z[i];
            let mut cur = self.beta * x * F::DELTA.pow_vartime([(s * self.cl) as u64]);
            for v in cols.iter() {
                right *= v[i] + cur + self.gamma;
                cur *= F::DELTA;
            }
            out.push((left - right) * (F::ONE - (l_last + l_blind)));
        }
        out
    }

    /// `lookup.rs: Evaluated::expressions` read on row `i`.
    #[allow(clippy::too_many_arguments)]
    pub fn lookup_rules(&self, inp: &[Expression<F>], tab: &[Expression<F>], pa: &[F], pt: &[F], z: &[F], i: usize) -> Vec<F> {
        let (l0, l_last, l_blind) = self.l(i);
        let active = F::ONE - (l_last + l_blind);
        let left = z[(i + 1) % self.n] * (pa[i] + self.beta) * (pt[i] + self.gamma);
        let right = z[i] * (self.compress(inp, self.theta, i) + self.beta) * (self.compress(tab, self.theta, i) + self.gamma);
        vec![
            l0 * (F::ONE - z[i]),
            l_last * (z[i].square() - z[i]),
            (left - right) * active,
            l0 * (pa[i] - pt[i]),
            (pa[i] - pt[i]) * (pa[i] - pa[(i + self.n - 1) % self.n]) * active,
        ]
    }

    /// `trash.rs: Evaluated::expressions` read on row `i`.
    pub fn trash_rule(&self, q: &Expression<F>, cons: &[Expression<F>], tr: &[F], i: usize) -> Vec<F> {
        vec![self.compress(cons, self.tc, i) - (F::ONE - self.eval(q, i)) * tr[i]]
    }
}

/// The `argtable` request line: real table of one proof, constraint system, challenges, σ labels.
#[allow(clippy::too_many_arguments)]
fn table_line(
    id: &str,
    cs: &ConstraintSystem<F>,
    n: usize,
    cl: usize,
    [theta, beta, gamma, tc]: [F; 4],
    omega: F,
    challenges: &[F],
    fixed: &[Vec<F>],
    advice: &[Vec<F>],
    inst: &[Vec<F>],
    sigma: &[Vec<F>],
) -> String {
    let hexlist = |v: &[F]| if v.is_empty() { "-".to_string() } else { v.iter().map(hex).collect::<Vec<_>>().join(",") };
    format!(
        "argtable id={id} p=73eda753299d7d483339d80809a1d80553bda402fffe5bfeffffffff00000001 n={n} cl={cl} theta={} beta={} gamma={} tc={} delta={} omega={} ch={} {} cp=- fixed={} advice={} inst={} sigma={}",
        hex(&theta), hex(&beta), hex(&gamma), hex(&tc), hex(&F::DELTA), hex(&omega),
        hexlist(challenges),
        mzkh::csdump::cs_string(cs),
        cols_string(fixed), cols_string(advice), cols_string(inst), cols_string(sigma),
    )
}

/// `create_proof` returned `Err(ConstraintSystemFailure)` on a witness whose lookup input is not in
/// the table: the argument log stops inside the lookup phase. Emits the table and a `lookupperm`
/// request for the first lookup without a logged permuted pair; the model's
/// `permuteExpressionPair` must fail in the same way (`lookup_permuted_fail`).
pub fn emit_lookup_failure(ctx: &mut Ctx, id: &str, pk: &ProvingKey<F, Scheme>, k: u32, log: Vec<ArgumentVector>, squeezed: &[F]) -> bool {
    let cs = pk.get_vk().cs();
    let n = 1usize << k;
    let nch = cs.num_challenges();
    let mut it = log.into_iter();
    let challenges = match it.next() {
        Some(v) if v.kind == "challenges" => vecs(&v),
        _ => return false,
    };
    let mut advice = vec![];
    let mut inst = vec![];
    for _ in 0..cs.num_advice_columns() {
        match it.next() {
            Some(v) if v.kind == "advice" => advice.push(vecs(&v)),
            _ => return false,
        }
    }
    for _ in 0..cs.num_instance_columns() {
        match it.next() {
            Some(v) if v.kind == "instance" => inst.push(vecs(&v)),
            _ => return false,
        }
    }
    let rest: Vec<ArgumentVector> = it.collect();
    if rest.len() % 4 != 0 || rest.iter().any(|v| !v.kind.starts_with("lookup_")) || rest.len() / 4 >= cs.lookups().len() {
        return false;
    }
    let failing = rest.len() / 4;
    if squeezed.len() != nch + 1 {
        return false;
    }
    let (parts, _) = pk.verif_derived_parts();
    let part = |name: &str| parts.iter().find(|p| p.0 == name).map(|p| p.1.clone()).expect("derived part");
    let line = table_line(
        id, cs, n, cs.degree() - 2, [squeezed[nch], F::ZERO, F::ZERO, F::ZERO],
        pk.get_vk().get_domain().get_omega(), &challenges, &part("fixed_values"), &advice, &inst, &part("permutations"),
    );
    ctx.case("argtable", true, &line, "ok");
    ctx.case("lookupperm-failure", true, &format!("lookupperm id={id} l={failing}"), "ConstraintSystemFailure");
    true
}

fn violations(n: usize, f: impl Fn(usize) -> Vec<F>) -> String {
    let mut bad = vec![];
    for i in 0..n {
        for (k, v) in f(i).iter().enumerate() {
            if !bool::from(v.is_zero()) {
                bad.push(format!("{i}.{k}"));
            }
        }
    }
    if bad.is_empty() {
        "none".into()
    } else {
        bad.join(",")
    }
}

/// Emits the correspondence lines of one proof and checks the oracle. `id` must be unique in the run.
#[allow(clippy::too_many_arguments)]
pub fn emit_proof(
    ctx: &mut Ctx,
    id: &str,
    pk: &ProvingKey<F, Scheme>,
    k: u32,
    log: &ArgLog,
    proof_idx: usize,
    squeezed: &[F],
    rng: &mut impl Rng,
    desc: &serde_json::Value,
) {
    let cs = pk.get_vk().cs();
    let n = 1usize << k;
    let bf = cs.blinding_factors();
    let cl = cs.degree() - 2;
    let u = n - (bf + 1);
    let nch = cs.num_challenges();
    // challenges: squeezes are [phase challenges…, theta, beta, gamma, trash_challenge, y, x, …]
    assert!(squeezed.len() >= nch + 4, "transcript has fewer squeezes than the schedule needs");
    assert_eq!(&squeezed[..nch], &log.challenges[..], "phase challenges of the transcript differ from the prover's");
    let (theta, beta, gamma, tc) = (squeezed[nch], squeezed[nch + 1], squeezed[nch + 2], squeezed[nch + 3]);
    let (parts, _) = pk.verif_derived_parts();
    let part = |name: &str| parts.iter().find(|p| p.0 == name).map(|p| p.1.clone()).expect("derived part");
    let fixed = part("fixed_values");
    let sigma = part("permutations");
    let advice = &log.advice[proof_idx];
    let inst = &log.instance[proof_idx];
    let omega = pk.get_vk().get_domain().get_omega();
    let perm_columns = cs.permutation().get_columns();
    let perm_cols: Vec<&Vec<F>> = perm_columns
        .iter()
        .map(|c| match c.column_type() {
            Any::Advice(_) => &advice[c.index()],
            Any::Fixed => &fixed[c.index()],
            Any::Instance => &inst[c.index()],
        })
        .collect();
    let t = Table {
        n, bf, cl, u, theta, beta, gamma, tc, omega,
        challenges: &log.challenges, fixed: &fixed, advice, inst, sigma: &sigma, perm_cols,
    };
    let table_line = table_line(id, cs, n, cl, [theta, beta, gamma, tc], omega, &log.challenges, &fixed, advice, inst, &sigma);
    ctx.case("argtable", true, &table_line, "ok");
    ctx.count(&format!("args:k={k}"));
    ctx.count(&format!("args:perm-sets={}", log.perm_z[proof_idx].len()));
    ctx.count(&format!("args:lookups={}", cs.lookups().len()));
    ctx.count(&format!("args:trash={}", cs.trashcans().len()));
    let fail_key = |what: &str| format!("honest-vectors-violate:{what}");

    // ---- custom gates on EVERY row of the real table, the blinding rows (random advice) included
    // (hypotheses and conclusion of `selector_gate_blinding_rows` on the real data)
    {
        let fixed_zero_on_unusable = fixed.iter().all(|c| c[u..].iter().all(|v| bool::from(v.is_zero())));
        ctx.count(if fixed_zero_on_unusable { "args:fixed-columns-zero-on-unusable-rows" } else { "args:fixed-column-NONZERO-on-unusable-row" });
        let blinded_nonzero = advice.iter().any(|c| c[u + 1..].iter().any(|v| !bool::from(v.is_zero())));
        if blinded_nonzero {
            ctx.count("args:advice-blinding-rows-random");
        }
        let mut bad = vec![];
        let mut n_polys = 0;
        for (gi, g) in cs.gates().iter().enumerate() {
            for (pi, poly) in g.polynomials().iter().enumerate() {
                n_polys += 1;
                for i in 0..n {
                    if !bool::from(t.eval(poly, i).is_zero()) {
                        bad.push(format!("{gi}.{pi}@{i}"));
                    }
                }
            }
        }
        ctx.count_n("args:gate-polys-checked-on-all-rows", n_polys);
        // the Lean row semantics of `honest_verifies_rows` (`Expr.eval (Rows.rowEnv n t i)`) on the same
        // table: honest (no violation) and with ONE advice cell replaced — rows 0 / n-1 (wrap-around
        // of the rotations), the last usable row and a random row; both must flag the same (gate, row)
        if n_polys > 0 && !advice.is_empty() {
            let flat: Vec<&Expression<F>> = cs.gates().iter().flat_map(|g| g.polynomials().iter()).collect();
            let list = |tbl: &Table| {
                let mut v = vec![];
                for (gi, poly) in flat.iter().enumerate() {
                    for i in 0..n {
                        if !bool::from(tbl.eval(poly, i).is_zero()) {
                            v.push(format!("{gi}@{i}"));
                        }
                    }
                }
                if v.is_empty() { "none".to_string() } else { v.join(",") }
            };
            ctx.case("gaterows", true, &format!("gaterows id={id}"), &list(&t));
            let mut run = |col: usize, row: usize, delta: u64| -> (F, String) {
                let mut adv2: Vec<Vec<F>> = advice.to_vec();
                let val = adv2[col][row] + F::from(delta);
                adv2[col][row] = val;
                let perm_cols2: Vec<&Vec<F>> = perm_columns
                    .iter()
                    .map(|c| match c.column_type() {
                        Any::Advice(_) => &adv2[c.index()],
                        Any::Fixed => &fixed[c.index()],
                        Any::Instance => &inst[c.index()],
                    })
                    .collect();
                let t2 = Table {
                    n, bf, cl, u, theta, beta, gamma, tc, omega,
                    challenges: &log.challenges, fixed: &fixed, advice: &adv2, inst, sigma: &sigma, perm_cols: perm_cols2,
                };
                (val, list(&t2))
            };
            // fixed rows (wrap-around of the rotations, last usable row): the column that makes a gate fail if
            // there is one; then two cells found by search among random (column, row) pairs
            let mut picks: Vec<(usize, usize, F, String)> = vec![];
            for row in [0usize, n - 1, u.saturating_sub(1)] {
                let start = rng.gen_range(0..advice.len());
                let mut chosen = None;
                for d in 0..advice.len() {
                    let col = (start + d) % advice.len();
                    let (val, ans) = run(col, row, 1);
                    if chosen.is_none() || ans != "none" {
                        let hit = ans != "none";
                        chosen = Some((col, row, val, ans));
                        if hit {
                            break;
                        }
                    }
                }
                picks.push(chosen.expect("an advice column"));
            }
            for _ in 0..2 {
                let mut chosen = None;
                for _ in 0..40 {
                    let (col, row) = (rng.gen_range(0..advice.len()), rng.gen_range(0..n));
                    let (val, ans) = run(col, row, 2);
                    let hit = ans != "none";
                    chosen = Some((col, row, val, ans));
                    if hit {
                        break;
                    }
                }
                picks.push(chosen.expect("a candidate"));
            }
            for (col, row, val, ans) in picks {
                ctx.count(if ans == "none" { "gaterows-altered:no-gate-reads-the-cell" } else { "gaterows-altered:flagged" });
                if ans.split(',').count() > 1 {
                    ctx.count("gaterows-altered:flagged-on-several-rows-or-gates");
                }
                ctx.case("gaterows-altered", true, &format!("gaterows id={id} ac={col} ar={row} av={}", hex(&val)), &ans);
            }
        }
        if !bad.is_empty() {
            ctx.oracle_fail(&fail_key("gate"), "a custom-gate polynomial is non-zero on a row of the honest table (blinding rows included)",
                json!({"case": desc, "proof": proof_idx, "u": u, "violations(gate.poly@row)": bad.iter().take(20).collect::<Vec<_>>()}));
        }
    }

    // ---- permutation argument
    let zs = &log.perm_z[proof_idx];
    if !zs.is_empty() {
        let cut: Vec<Vec<F>> = zs.iter().map(|z| z[..n - bf].to_vec()).collect();
        ctx.case("permz", true, &format!("permz id={id}"), &cols_string(&cut));
        let v = violations(n, |i| t.perm_rules(zs, i));
        ctx.case("permrules", true, &format!("permrules id={id} z={}", cols_string(zs)), &v);
        if v != "none" {
            ctx.oracle_fail(&fail_key("permutation"), "the prover's permutation product vectors violate the verifier's permutation identities on an honest witness",
                json!({"case": desc, "proof": proof_idx, "violations(row.rule)": v}));
        }
        // hypotheses of `perm_product_complete` on the real data
        let mut sig_pairs: Vec<(BigUint, BigUint)> = vec![];
        let mut id_pairs: Vec<(BigUint, BigUint)> = vec![];
        let mut den_zero = false;
        for (j, (col, sg)) in t.perm_cols.iter().zip(sigma.iter()).enumerate() {
            let dj = F::DELTA.pow_vartime([j as u64]);
            for i in 0..u {
                sig_pairs.push((mzkh::fe_big(&col[i]), mzkh::fe_big(&sg[i])));
                id_pairs.push((mzkh::fe_big(&col[i]), mzkh::fe_big(&(dj * omega.pow_vartime([i as u64])))));
                den_zero |= bool::from((beta * sg[i] + gamma + col[i]).is_zero());
            }
        }
        sig_pairs.sort();
        id_pairs.sort();
        ctx.count(if sig_pairs == id_pairs { "args:perm-hypothesis-holds" } else { "args:perm-hypothesis-FAILS" });
        if sig_pairs != id_pairs {
            ctx.oracle_fail("honest-table-not-sigma-invariant", "the (value, σ-label) multiset of the honest table differs from the (value, identity-label) multiset: copy constraints violated by an honest witness or σ labels not a permutation of the identity labels",
                json!({"case": desc, "proof": proof_idx}));
        }
        if den_zero {
            ctx.count("args:perm-denominator-vanishes");
        }
        // one altered entry: both implementations of the rules must flag the same positions
        let s = rng.gen_range(0..zs.len());
        let r = rng.gen_range(0..n);
        let mut bad = zs.clone();
        bad[s][r] += F::ONE;
        let v = violations(n, |i| t.perm_rules(&bad, i));
        ctx.case("permrules-altered", true, &format!("permrules id={id} z={}", cols_string(&bad)), &v);
    }

    // ---- lookups
    for (j, l) in cs.lookups().iter().enumerate() {
        let [a, s, pa, pt] = &log.lookups[proof_idx][j];
        let z = &log.lookup_z[proof_idx][j];
        ctx.case("lookupcomp", true, &format!("lookupcomp id={id} l={j}"), &format!("A={} S={}", rle(a), rle(s)));
        // permuted pair: sorted input, forced rows of the table, multiset of the table
        let mut masked = vec![];
        for i in 0..u {
            masked.push(if i > 0 && pa[i] == pa[i - 1] { "*".to_string() } else { hex(&pt[i]) });
        }
        let mut ms = pt[..u].to_vec();
        ms.sort();
        ctx.case("lookupperm", true, &format!("lookupperm id={id} l={j}"),
            &format!("A'={} S'={} ms={}", rle(&pa[..u]), masked.join(","), rle(&ms)));
        let distinct_inputs = { let mut d = pa[..u].to_vec(); d.dedup(); d.len() };
        ctx.count_n("args:lookup-repeated-input-rows", (u - distinct_inputs) as u64);
        ctx.count_n("args:lookup-distinct-inputs", distinct_inputs as u64);
        ctx.case("lookupz", true, &format!("lookupz id={id} l={j} pa={} pt={}", rle(pa), rle(pt)), &rle(&z[..n - bf]));
        let v = violations(n, |i| t.lookup_rules(l.input_expressions(), l.table_expressions(), pa, pt, z, i));
        ctx.case("lookuprules", true, &format!("lookuprules id={id} l={j} pa={} pt={} z={}", rle(pa), rle(pt), rle(z)), &v);
        if v != "none" {
            ctx.oracle_fail(&fail_key("lookup"), "the prover's permuted pair / product vector violate the verifier's lookup identities on an honest witness",
                json!({"case": desc, "proof": proof_idx, "lookup": j, "violations(row.rule)": v}));
        }
        // altered: one entry of z, or one usable entry of the permuted input
        let r = rng.gen_range(0..n);
        let (mut pa2, mut z2) = (pa.clone(), z.clone());
        if rng.gen_bool(0.5) {
            z2[r] += F::ONE;
        } else {
            pa2[r % u] += F::ONE;
        }
        let v = violations(n, |i| t.lookup_rules(l.input_expressions(), l.table_expressions(), &pa2, pt, &z2, i));
        ctx.case("lookuprules-altered", true, &format!("lookuprules id={id} l={j} pa={} pt={} z={}", rle(&pa2), rle(pt), rle(&z2)), &v);
    }

    // ---- trash arguments
    for (j, tr) in cs.trashcans().iter().enumerate() {
        let vec = &log.trash[proof_idx][j];
        ctx.case("trashvec", true, &format!("trashvec id={id} t={j}"), &rle(vec));
        let v = violations(n, |i| t.trash_rule(tr.selector(), tr.constraint_expressions(), vec, i));
        ctx.case("trashrules", true, &format!("trashrules id={id} t={j} tr={}", rle(vec)), &v);
        if v != "none" {
            ctx.oracle_fail(&fail_key("trash"), "the prover's trash column violates the verifier's trash identity on an honest witness",
                json!({"case": desc, "proof": proof_idx, "trash": j, "violations(row.rule)": v}));
        }
        let r = rng.gen_range(0..n);
        let mut bad = vec.clone();
        bad[r] += F::ONE;
        let v = violations(n, |i| t.trash_rule(tr.selector(), tr.constraint_expressions(), &bad, i));
        ctx.case("trashrules-altered", true, &format!("trashrules id={id} t={j} tr={}", rle(&bad)), &v);
    }
}
