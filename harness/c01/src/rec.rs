//! `ValueTranscript`: like `mzkh::recording::RecordingTranscript` (delegates to
//! `CircuitTranscript<H>` and logs every operation in a thread-local log), and additionally records
//! the VALUE of every squeezed challenge: before squeezing, the inner transcript is cloned and a
//! scalar is squeezed from the clone (same state, same sampling), so that the challenges
//! `theta`, `beta`, `gamma`, `trash_challenge` the prover used are read off the transcript
//! itself, not from the prover's variables.

use std::cell::RefCell;
use std::io;

use midnight_curves::Fq as F;
use midnight_proofs::transcript::{CircuitTranscript, Hashable, Sampleable, Transcript, TranscriptHash};

#[derive(Clone, Debug, PartialEq, Eq)]
pub struct Event {
    /// 'C' common, 'R' read, 'W' write, 'S' squeeze
    pub kind: char,
    /// "G" group element, "F" scalar, or the last path segment of the Rust type
    pub ty: String,
    pub bytes: Vec<u8>,
    /// for a squeeze: the scalar an `F`-squeeze yields in this state
    pub value: Option<F>,
}

thread_local! {
    static LOG: RefCell<Vec<Event>> = const { RefCell::new(Vec::new()) };
}

pub fn take_log() -> Vec<Event> {
    LOG.with(|l| std::mem::take(&mut *l.borrow_mut()))
}

fn short_ty<T>() -> String {
    let n = std::any::type_name::<T>();
    let base = n.split('<').next().unwrap_or(n);
    let last = base.rsplit("::").next().unwrap_or(base);
    match last {
        "G1Projective" | "G1Affine" | "G1" => "G".to_string(),
        "Fq" | "Scalar" | "Fr" => "F".to_string(),
        o => o.to_string(),
    }
}

fn push(kind: char, ty: String, bytes: Vec<u8>, value: Option<F>) {
    LOG.with(|l| l.borrow_mut().push(Event { kind, ty, bytes, value }));
}

#[derive(Clone, Debug)]
pub struct ValueTranscript<H: TranscriptHash> {
    inner: CircuitTranscript<H>,
}

impl<H: TranscriptHash> Transcript for ValueTranscript<H>
where
    F: Sampleable<H>,
{
    type Hash = H;

    fn init() -> Self {
        Self { inner: CircuitTranscript::<H>::init() }
    }

    fn init_from_bytes(bytes: &[u8]) -> Self {
        Self { inner: CircuitTranscript::<H>::init_from_bytes(bytes) }
    }

    fn squeeze_challenge<T: Sampleable<H>>(&mut self) -> T {
        let mut shadow = self.inner.clone();
        let v: F = shadow.squeeze_challenge();
        push('S', short_ty::<T>(), vec![], Some(v));
        self.inner.squeeze_challenge()
    }

    fn common<T: Hashable<H>>(&mut self, input: &T) -> io::Result<()> {
        push('C', short_ty::<T>(), input.to_bytes(), None);
        self.inner.common(input)
    }

    fn read<T: Hashable<H>>(&mut self) -> io::Result<T> {
        let v: T = self.inner.read()?;
        push('R', short_ty::<T>(), v.to_bytes(), None);
        Ok(v)
    }

    fn write<T: Hashable<H>>(&mut self, input: &T) -> io::Result<()> {
        push('W', short_ty::<T>(), input.to_bytes(), None);
        self.inner.write(input)
    }

    fn finalize(self) -> Vec<u8> {
        self.inner.finalize()
    }

    fn assert_empty(&mut self) -> io::Result<()> {
        self.inner.assert_empty()
    }
}
