//! Byte-level helpers: the three serialisation formats, hex, independent slicing of key
//! byte images (nothing here calls the key readers of /repo; only the *element* codecs).

use std::io;

use ff::PrimeField;
use midnight_curves::{serde::SerdeObject, Fq as F, G1Projective, G2Projective};
use midnight_proofs::utils::{helpers::ProcessedSerdeObject, SerdeFormat};

pub const FORMATS: [(SerdeFormat, &str); 3] = [
    (SerdeFormat::Processed, "P"),
    (SerdeFormat::RawBytes, "R"),
    (SerdeFormat::RawBytesUnchecked, "U"),
];

/// A key written in format `a` may be read in format `b` (doc of `MidnightVK::read`).
pub fn compatible(a: &str, b: &str) -> bool {
    a == b || (a != "P" && b != "P")
}

pub fn hex(b: &[u8]) -> String {
    let mut s = String::with_capacity(b.len() * 2);
    for x in b {
        s.push_str(&format!("{x:02x}"));
    }
    if s.is_empty() {
        "-".into()
    } else {
        s
    }
}

pub fn g1_bytes(p: &G1Projective, fmt: SerdeFormat) -> Vec<u8> {
    let mut v = vec![];
    ProcessedSerdeObject::write(p, &mut v, fmt).unwrap();
    v
}

pub fn g2_bytes(p: &G2Projective, fmt: SerdeFormat) -> Vec<u8> {
    let mut v = vec![];
    ProcessedSerdeObject::write(p, &mut v, fmt).unwrap();
    v
}

/// Byte length of a G1 element in a format (48 / 96).
pub fn g1_len(fmt: SerdeFormat) -> usize {
    midnight_proofs::utils::helpers::byte_length::<G1Projective>(fmt)
}

/// Canonical code of an error returned by a key reader.
pub fn err_code(e: &io::Error) -> String {
    let msg = e.to_string();
    if e.kind() == io::ErrorKind::UnexpectedEof {
        "eof".into()
    } else if msg.contains("ZKStd version") {
        "version".into()
    } else if msg.contains("pow2range columns") {
        "pow2".into()
    } else if msg.contains("Decode") || msg.contains("UnexpectedEnd") || msg.contains("invalid") && msg.contains("bool") {
        "invalid".into()
    } else if msg.contains("version byte") {
        "version".into()
    } else if msg.contains("exceeds maxium") {
        "k".into()
    } else if msg.contains("too large for a circuit of degree") {
        "kext".into()
    } else if msg.contains("number of fixed commitments") {
        "count".into()
    } else if msg.contains("unexpected number or length of") {
        // ProvingKey::read / permutation::ProvingKey::read: polynomial lists that do not fit
        "shape".into()
    } else {
        "point".into()
    }
}

/// Field element from its raw (Montgomery, little-endian) 32-byte image, through the real
/// checked decoder.
pub fn f_from_raw(b: &[u8]) -> Option<F> {
    let mut r = b;
    <F as SerdeObject>::read_raw(&mut r).ok()
}

pub fn f_raw(f: &F) -> Vec<u8> {
    let mut v = vec![];
    f.write_raw(&mut v).unwrap();
    v
}

pub fn fhex(f: &F) -> String {
    mzkh::fe_hex(f)
}

/// Independent slicing of a `Vec<Polynomial>` image (`helpers.rs: write_polynomial_slice`):
/// big-endian u32 count, then per polynomial a big-endian u32 length and raw field elements.
/// Returns the polynomials and the number of bytes consumed.
pub fn slice_polyvec(b: &[u8]) -> Option<(Vec<Vec<F>>, usize)> {
    let mut off = 0usize;
    let rd32 = |b: &[u8], off: &mut usize| -> Option<u32> {
        let s = b.get(*off..*off + 4)?;
        *off += 4;
        Some(u32::from_be_bytes(s.try_into().unwrap()))
    };
    let n = rd32(b, &mut off)?;
    let mut out = vec![];
    for _ in 0..n {
        let len = rd32(b, &mut off)?;
        let mut p = vec![];
        for _ in 0..len {
            let s = b.get(off..off + 32)?;
            off += 32;
            p.push(f_from_raw(s)?);
        }
        out.push(p);
    }
    Some((out, off))
}

pub fn modulus_is_bls_scalar() -> bool {
    F::MODULUS.to_lowercase().ends_with("73eda753299d7d483339d80809a1d80553bda402fffe5bfeffffffff00000001")
}
