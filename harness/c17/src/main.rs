//! Correspondence harness of property C17: key generation is deterministic and keys survive
//! serialisation unchanged.
//!
//! Correspondence lines (model = Lean `MidnightZK.C17`):
//!   `vkparse <shape> <hex>`      real vk byte image (and structural variants) parsed by the
//!                                model's `readVK`; impl = the real object's parts / real reader;
//!   `trepr <shape> <raw> <desc>` transcript identity recomputed by the model (BLAKE2b);
//!   `perm t=.. copies=..`        `Assembly::copy` + `build_pk` on the recorded copies against
//!                                the permutation polynomials inside the real pk bytes;
//!   `commit k s values`          scalar `p(s)` whose multiple of G is the real commitment;
//!   `lagrange via=setup|downsize` Lagrange-basis scalars of `unsafe_setup` (chunked for `t`
//!                                threads) / `downsize`;
//!   `paramslayout`, `paramsparse`, `pkparse`, `mvkparse`, `mpkparse` (wrapper headers of
//!                                zk_stdlib and their structural variants).
//! Oracle: determinism over pools × repetitions, write-A/read-B matrix for vk, pk, params,
//! 4-way proof cross-verification, downsize = fresh setup.

mod keys;
mod params;
mod rec;
mod rel;
mod ser;

use mzkh::{
    family::{sample_params, FamParams, GateKind, LookupKind},
    Ctx,
};

fn main() {
    let mut ctx = Ctx::from_args("C17");
    assert!(ser::modulus_is_bls_scalar());
    let (n_members, reps, kmax, all_pk, commit_cols) = match ctx.tier.as_str() {
        "quick" => (10usize, 2usize, 7u32, false, 6usize),
        "thorough" => (48, 4, 10, true, 64),
        _ => (30, 3, 8, true, 4),
    };
    let every = FamParams {
        n_adv0: 4,
        n_adv1: 1,
        unblinded: true,
        n_committed: 1,
        n_plain: 2,
        gates: vec![GateKind::Mul, GateKind::LinRot, GateKind::Additive, GateKind::Chal],
        lookups: vec![LookupKind::Range, LookupKind::Pair],
        copies: true,
        const_copies: true,
        inst_copies: true,
        steps: 6,
        table_bits: 3,
    };
    let minimal = FamParams { copies: false, inst_copies: false, n_plain: 0, steps: 2, ..FamParams::default() };
    let mut members: Vec<(FamParams, u64)> = vec![(every, 31), (minimal, 32), (FamParams::default(), 33)];
    let mut rng = ctx.rng("family");
    for i in 0..n_members {
        members.push((sample_params(&mut rng), 5000 + ctx.seed * 100 + i as u64));
    }
    for (fp, seed) in &members {
        let s = keys::fam_subject(fp, *seed);
        ctx.count(&format!("family:k{}", s.k));
        keys::determinism(&mut ctx, &s, reps);
        keys::vk_bytes_cases(&mut ctx, &s);
        keys::pk_bytes_case(&mut ctx, &s);
        let (vks, pks) = keys::roundtrip_matrix(&mut ctx, &s);
        keys::proof_matrix(&mut ctx, &s, &vks, &pks, all_pk);
        keys::commit_cases(&mut ctx, &s, commit_cols);
    }
    for (i, (fp, seed)) in members.iter().enumerate() {
        if i % 3 == 0 {
            keys::v1_case(&mut ctx, fp, *seed, reps.min(2));
        }
    }
    let seed = ctx.seed;
    params::params_cases(&mut ctx, kmax, 4242 + seed);
    if !ctx.quick() {
        params::params_cases(&mut ctx, 3, 77 + seed);
    }
    rel::relation_cases(&mut ctx);
    ctx.finish();
}
