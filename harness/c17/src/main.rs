//! Correspondence harness of property C17 (stub).
use mzkh::Ctx;

fn main() {
    let ctx = Ctx::from_args("C17");
    ctx.finish();
}
