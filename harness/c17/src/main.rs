//! Correspondence harness of property C17: key generation is deterministic and keys survive
//! serialisation unchanged.
//!
//! Correspondence lines (model = Lean `MidnightZK.C17`):
//!   `vkparse <shape> <hex>`      real vk byte image (and structural variants) parsed by the
//!                                model's `readVK`; impl = the real object's parts / real reader;
//!   `trepr <shape> <raw> <desc>` transcript identity recomputed by the model (BLAKE2b);
//!   `perm t=.. copies=..`        `Assembly::copy` + `build_pk` on the recorded copies against
//!                                the permutation polynomials inside the real pk bytes;
//!   `commit k s values`          scalar `p(s)` whose multiple of G is the real commitment;
//!   `lagrange via=setup|downsize` Lagrange-basis scalars of `unsafe_setup` (chunked for `t`
//!                                threads) / `downsize`;
//!   `paramslayout`, `paramsparse`, `pkparse`, `mvkparse`, `mpkparse` (wrapper headers of
//!                                zk_stdlib and their structural variants);
//!   `pkfull via=keygen|read`     every part of a proving key that is not serialised (l0, l_last,
//!                                l_active_row, coefficient / extended forms of the fixed and
//!                                permutation columns) of the real generated / reloaded key
//!                                against the model of the tail of `keygen_pk` / of
//!                                `ProvingKey::read` run on the real byte image (also on images
//!                                with a permutation polynomial too few / too many);
//!   `perminv`                    classes of the recorded copies by plain closure against the
//!                                union-find state (and invariant) of the model's `Assembly`,
//!                                also for the reversed and the flipped copy list;
//!   `paramsreload`               `read_custom` in format B of an image written in format A.
//! Oracle: determinism over pools × repetitions × processes (child processes of this binary:
//! other hash-map seeds), write-A/read-B matrix for vk, pk, params, downsized params, verifier
//! params with byte identity, basis consistency (commit = commit_lagrange = [f(s)]G) and
//! interchangeable keys/proofs across original / reloaded / downsized / fresh parameter sets,
//! 4-way proof cross-verification for every compatible format pair, downsize = fresh setup.

mod keys;
mod params;
mod rec;
mod rel;
mod ser;

use mzkh::{
    family::{sample_params, FamParams, GateKind, LookupKind},
    Ctx,
};

/// The three fixed members of the family every run starts with.
fn fixed_members() -> Vec<(FamParams, u64)> {
    let every = FamParams {
        n_adv0: 4,
        n_adv1: 1,
        unblinded: true,
        n_committed: 1,
        n_plain: 2,
        gates: vec![GateKind::Mul, GateKind::LinRot, GateKind::Additive, GateKind::Chal],
        lookups: vec![LookupKind::Range, LookupKind::Pair],
        copies: true,
        const_copies: true,
        inst_copies: true,
        steps: 6,
        table_bits: 3,
    };
    let minimal = FamParams { copies: false, inst_copies: false, n_plain: 0, steps: 2, ..FamParams::default() };
    vec![(every, 31), (minimal, 32), (FamParams::default(), 33)]
}

/// One line per subject: everything that identifies the keys a process generates (vk bytes in
/// all formats, transcript identity, description, pk bytes, recomputed parts of the pk). Run
/// in this process and in child processes (where `std::collections::HashMap`'s `RandomState`
/// has other keys) under several pools.
fn identity_lines(pool: usize) -> Vec<String> {
    let mut out = vec![];
    let dig = |b: &[u8]| ser::hex(blake2b_simd::Params::new().hash_length(16).hash(b).as_bytes());
    keys::in_pool(pool, || {
        for (fp, seed) in fixed_members() {
            let s = keys::fam_subject(&fp, seed);
            let img = keys::vk_image(&s.vk);
            out.push(format!(
                "fam{seed} k={} vk={} {} {} trepr={} desc={} pk={} derived={}",
                s.k,
                dig(&img.bytes[0]),
                dig(&img.bytes[1]),
                dig(&img.bytes[2]),
                img.repr,
                dig(img.desc.as_bytes()),
                dig(&s.pk.to_bytes(midnight_proofs::utils::SerdeFormat::RawBytes)),
                keys::pk_full_digest(&s.pk)
            ));
            if let Some(l) = keys::v1_identity(&fp, seed) {
                out.push(format!("v1-fam{seed} {l}"));
            }
        }
        out.extend(rel::identity_lines());
    });
    out
}

fn main() {
    if let Ok(pool) = std::env::var("H_C17_CHILD") {
        // child mode: print the identity lines and leave (no files are written)
        mzkh::quiet_panics();
        for l in identity_lines(pool.parse().expect("pool")) {
            println!("{l}");
        }
        return;
    }
    let mut ctx = Ctx::from_args("C17");
    assert!(ser::modulus_is_bls_scalar());
    let (n_members, reps, kmax, all_pk, commit_cols) = match ctx.tier.as_str() {
        "quick" => (10usize, 2usize, 7u32, true, 6usize),
        "thorough" => (48, 4, 10, true, 64),
        _ => (30, 3, 8, true, 4),
    };
    let mut members: Vec<(FamParams, u64)> = fixed_members();
    let mut rng = ctx.rng("family");
    for i in 0..n_members {
        members.push((sample_params(&mut rng), 5000 + ctx.seed * 100 + i as u64));
    }
    let mut fit: Option<(FamParams, u64, u32)> = None;
    for (idx, (fp, seed)) in members.iter().enumerate() {
        let s = keys::fam_subject(fp, *seed);
        ctx.count(&format!("family:k{}", s.k));
        if s.k <= kmax && (fit.is_none() || idx == 2) {
            fit = Some((fp.clone(), *seed, s.k));
        }
        keys::determinism(&mut ctx, &s, reps);
        keys::vk_bytes_cases(&mut ctx, &s);
        keys::pk_bytes_case(&mut ctx, &s);
        let every_format = !ctx.quick() || idx < 3;
        keys::pk_full_cases(&mut ctx, &s, idx, every_format);
        let (vks, pks) = keys::roundtrip_matrix(&mut ctx, &s);
        keys::proof_matrix(&mut ctx, &s, &vks, &pks, all_pk);
        keys::commit_cases(&mut ctx, &s, commit_cols);
    }
    for (i, (fp, seed)) in members.iter().enumerate() {
        if i % 3 == 0 {
            keys::v1_case(&mut ctx, fp, *seed, reps.min(2));
        }
    }
    let seed = ctx.seed;
    let circ = fit.as_ref().map(|(fp, s, k)| (fp, *s, *k));
    params::params_cases(&mut ctx, kmax, 4242 + seed, circ);
    if !ctx.quick() {
        params::params_cases(&mut ctx, 3, 77 + seed, None);
    }
    rel::relation_cases(&mut ctx);
    cross_process(&mut ctx);
    ctx.finish();
}

/// Priority "schedules": the same keys from other processes (other `RandomState` keys for every
/// `HashMap` of the layouters and of key generation) under other pools.
fn cross_process(ctx: &mut Ctx) {
    let base = identity_lines(1);
    let exe = match std::env::current_exe() {
        Ok(e) => e,
        Err(e) => {
            ctx.count(&format!("cross-process:skipped:{e}"));
            return;
        }
    };
    let pools: &[usize] = if ctx.quick() { &[1, 5, 16] } else { &[1, 2, 3, 5, 8, 16, 1, 5] };
    let children: Vec<_> = pools
        .iter()
        .map(|t| (*t, std::process::Command::new(&exe).env("H_C17_CHILD", t.to_string()).stdout(std::process::Stdio::piped()).stderr(std::process::Stdio::null()).spawn()))
        .collect();
    for (t, ch) in children {
        let out = match ch.and_then(|c| c.wait_with_output()) {
            Ok(o) if o.status.success() => String::from_utf8_lossy(&o.stdout).to_string(),
            other => {
                ctx.oracle_fail("cross-process:child-failed", "a child process generating the same keys failed", serde_json::json!({"threads": t, "result": format!("{:?}", other.map(|o| o.status))}));
                continue;
            }
        };
        let lines: Vec<String> = out.lines().map(|l| l.to_string()).collect();
        ctx.count(&format!("cross-process:pool{t}"));
        ctx.count_n("cross-process:subjects", lines.len() as u64);
        if lines.len() != base.len() {
            ctx.oracle_fail("cross-process:subject-count", "a child process reported another number of subjects", serde_json::json!({"threads": t, "child": lines.len(), "parent": base.len()}));
            continue;
        }
        for (a, b) in base.iter().zip(lines.iter()) {
            if a != b {
                let id = a.split(' ').next().unwrap_or("?").to_string();
                ctx.oracle_fail(
                    &format!("keygen-differs-across-processes:{id}"),
                    "another process (other hash-map seeds, other thread count) generated different keys for the same parameters and circuit",
                    serde_json::json!({"threads": t, "parent": a, "child": b}),
                );
            }
        }
    }
}
