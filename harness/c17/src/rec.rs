//! `Rec`: an `Assignment` backend logging what `keygen.rs: Assembly` observes during one
//! synthesis (copies, fixed cells, fills, selectors). `Assignment` is a public trait and
//! `FloorPlanner::synthesize` accepts any implementation, so no hook is needed.

use midnight_curves::Fq as F;
use midnight_proofs::{
    circuit::Value,
    plonk::{
        Advice, Any, Assignment, Challenge, Circuit, Column, ConstraintSystem, Error, Fixed, FloorPlanner,
        Instance, Selector,
    },
    utils::rational::Rational,
};

#[derive(Default)]
pub struct Rec {
    /// (left column, left row, right column, right row) in call order
    pub copies: Vec<(Column<Any>, usize, Column<Any>, usize)>,
    /// fixed-column writes in call order: (is_fill, fixed column, row / from-row, value)
    pub fixed: Vec<(bool, usize, usize, F)>,
    /// (selector, row)
    pub selectors: Vec<(usize, usize)>,
}

fn eval<VR: Into<Rational<F>>>(v: Value<VR>) -> Option<F> {
    let mut out = None;
    v.map(|x| {
        let r: Rational<F> = x.into();
        out = Some(r.evaluate());
    });
    out
}

impl Assignment<F> for Rec {
    fn enter_region<NR, N>(&mut self, _: N)
    where
        NR: Into<String>,
        N: FnOnce() -> NR,
    {
    }
    fn annotate_column<A, AR>(&mut self, _: A, _: Column<Any>)
    where
        A: FnOnce() -> AR,
        AR: Into<String>,
    {
    }
    fn exit_region(&mut self) {}
    fn enable_selector<A, AR>(&mut self, _: A, selector: &Selector, row: usize) -> Result<(), Error>
    where
        A: FnOnce() -> AR,
        AR: Into<String>,
    {
        self.selectors.push((selector.index(), row));
        Ok(())
    }
    fn query_instance(&self, _: Column<Instance>, _: usize) -> Result<Value<F>, Error> {
        Ok(Value::unknown())
    }
    fn assign_advice<V, VR, A, AR>(&mut self, _: A, _: Column<Advice>, _: usize, _: V) -> Result<(), Error>
    where
        V: FnOnce() -> Value<VR>,
        VR: Into<Rational<F>>,
        A: FnOnce() -> AR,
        AR: Into<String>,
    {
        Ok(())
    }
    fn assign_fixed<V, VR, A, AR>(&mut self, _: A, column: Column<Fixed>, row: usize, to: V) -> Result<(), Error>
    where
        V: FnOnce() -> Value<VR>,
        VR: Into<Rational<F>>,
        A: FnOnce() -> AR,
        AR: Into<String>,
    {
        let v = eval(to()).ok_or(Error::Synthesis("unknown fixed value".into()))?;
        self.fixed.push((false, column.index(), row, v));
        Ok(())
    }
    fn copy(&mut self, lc: Column<Any>, lr: usize, rc: Column<Any>, rr: usize) -> Result<(), Error> {
        self.copies.push((lc, lr, rc, rr));
        Ok(())
    }
    fn fill_from_row(&mut self, column: Column<Fixed>, row: usize, to: Value<Rational<F>>) -> Result<(), Error> {
        let v = eval(to).ok_or(Error::Synthesis("unknown fill value".into()))?;
        self.fixed.push((true, column.index(), row, v));
        Ok(())
    }
    fn get_challenge(&self, _: Challenge) -> Value<F> {
        Value::unknown()
    }
    fn push_namespace<NR, N>(&mut self, _: N)
    where
        NR: Into<String>,
        N: FnOnce() -> NR,
    {
    }
    fn pop_namespace(&mut self, _: Option<String>) {}
}

/// What one keygen-style synthesis of `circuit` does, as seen at the `Assignment` interface.
pub struct Recorded {
    pub cs: ConstraintSystem<F>,
    pub rec: Rec,
    /// copies with columns replaced by their position among the permutation columns
    pub copies_idx: Vec<(usize, usize, usize, usize)>,
}

pub fn record<C: Circuit<F>>(circuit: &C) -> Result<Recorded, String> {
    let mut cs = ConstraintSystem::default();
    let config = C::configure_with_params(&mut cs, circuit.params());
    let mut rec = Rec::default();
    C::FloorPlanner::synthesize(&mut rec, circuit, config, cs.constants().clone()).map_err(|e| format!("{e:?}"))?;
    let cols = cs.permutation().get_columns();
    let pos = |c: &Column<Any>| cols.iter().position(|x| x == c);
    let mut copies_idx = vec![];
    for (lc, lr, rc, rr) in &rec.copies {
        match (pos(lc), pos(rc)) {
            (Some(a), Some(b)) => copies_idx.push((a, *lr, b, *rr)),
            _ => return Err("copy on a column outside the permutation".into()),
        }
    }
    Ok(Recorded { cs, rec, copies_idx })
}

impl Recorded {
    /// The fixed columns keygen builds (`keygen.rs: keygen_vk_with_k`): assigned fixed columns
    /// (unassigned cells are zero, fills cover the usable rows from `from_row` on), followed by
    /// one 0/1 column per selector.
    pub fn fixed_columns(&self, n: usize) -> Vec<Vec<F>> {
        use ff::Field;
        let usable = n - (self.cs.blinding_factors() + 1);
        let nf = self.cs.num_fixed_columns();
        let ns = self.cs.num_selectors();
        let mut cols = vec![vec![F::ZERO; n]; nf + ns];
        // writes are replayed in call order
        for (is_fill, c, r, v) in &self.rec.fixed {
            if *is_fill {
                for row in *r..usable {
                    cols[*c][row] = *v;
                }
            } else {
                cols[*c][*r] = *v;
            }
        }
        for (s, r) in &self.rec.selectors {
            cols[nf + *s][*r] = F::ONE;
        }
        cols
    }
}
