//! Standard-library relations (zk_stdlib API: `setup_vk`, `setup_pk`, `MidnightVK`/`MidnightPK`
//! write/read, `prove`, `verify`).

use blake2b_simd::State as Blake2bState;
use ff::Field;
use midnight_circuits::{
    hash::poseidon::PoseidonChip,
    instructions::{
        hash::HashCPU, ArithInstructions, AssertionInstructions, AssignmentInstructions, BitwiseInstructions,
        DecompositionInstructions, PublicInputInstructions,
    },
};
use midnight_circuits::{hash::sha256::Sha256Chip, types::{AssignedByte, Instantiable}};
use midnight_curves::Fq as F;
use midnight_proofs::{
    circuit::{Layouter, Value},
    plonk::Error,
    utils::SerdeFormat,
};
use midnight_zk_stdlib::{MidnightCircuit, MidnightPK, MidnightVK, Relation, ZkStdLib, ZkStdLibArch};
use mzkh::Ctx;
use rand::SeedableRng;
use rand_chacha::ChaCha8Rng;
use serde_json::json;

use crate::{
    keys::{in_pool, pk_full_digest, setup, vk_image, POOLS},
    ser::{compatible, fhex, g1_bytes, hex, FORMATS},
};

// ---- relations ---------------------------------------------------------------------------

/// `tests/serialization.rs: DummyCircuit`: x² = instance, with a chosen architecture that is
/// written into the proving key.
#[derive(Clone)]
pub struct Square {
    pub architecture: ZkStdLibArch,
}

impl Relation for Square {
    type Instance = F;
    type Witness = F;
    fn format_instance(x: &F) -> Result<Vec<F>, Error> {
        Ok(vec![*x])
    }
    fn circuit(&self, std_lib: &ZkStdLib, layouter: &mut impl Layouter<F>, instance: Value<F>, witness: Value<F>) -> Result<(), Error> {
        let instance = std_lib.assign_as_public_input(layouter, instance)?;
        let witness = std_lib.assign(layouter, witness)?;
        let x = std_lib.mul(layouter, &witness, &witness, None)?;
        std_lib.assert_equal(layouter, &instance, &x)
    }
    fn used_chips(&self) -> ZkStdLibArch {
        self.architecture
    }
    fn write_relation<W: std::io::Write>(&self, writer: &mut W) -> std::io::Result<()> {
        self.architecture.write(writer)
    }
    fn read_relation<R: std::io::Read>(reader: &mut R) -> std::io::Result<Self> {
        ZkStdLibArch::read(reader).map(|architecture| Square { architecture })
    }
}

/// `examples/poseidon.rs`.
#[derive(Clone, Default)]
pub struct PoseidonRel;

impl Relation for PoseidonRel {
    type Instance = F;
    type Witness = [F; 3];
    fn format_instance(instance: &F) -> Result<Vec<F>, Error> {
        Ok(vec![*instance])
    }
    fn circuit(&self, std_lib: &ZkStdLib, layouter: &mut impl Layouter<F>, _instance: Value<F>, witness: Value<[F; 3]>) -> Result<(), Error> {
        let assigned_message = std_lib.assign_many(layouter, &witness.transpose_array())?;
        let output = std_lib.poseidon(layouter, &assigned_message)?;
        std_lib.constrain_as_public_input(layouter, &output)
    }
    fn used_chips(&self) -> ZkStdLibArch {
        ZkStdLibArch { poseidon: true, ..ZkStdLibArch::default() }
    }
    fn write_relation<W: std::io::Write>(&self, _writer: &mut W) -> std::io::Result<()> {
        Ok(())
    }
    fn read_relation<R: std::io::Read>(_reader: &mut R) -> std::io::Result<Self> {
        Ok(PoseidonRel)
    }
}

/// Native gadget: bits, range comparison, fixed cells (many copy constraints and lookups).
/// instance = x·y, witness = (x, y) with x < y < 2^16; `bits` is relation data written in the key.
#[derive(Clone)]
pub struct RangeRel {
    pub bits: u8,
}

impl Relation for RangeRel {
    type Instance = F;
    type Witness = (F, F);
    fn format_instance(instance: &F) -> Result<Vec<F>, Error> {
        Ok(vec![*instance])
    }
    fn circuit(&self, std_lib: &ZkStdLib, layouter: &mut impl Layouter<F>, _instance: Value<F>, witness: Value<(F, F)>) -> Result<(), Error> {
        let (a, b) = witness.unzip();
        let x = std_lib.assign(layouter, a)?;
        let y = std_lib.assign(layouter, b)?;
        let one = std_lib.assign_fixed(layouter, true)?;
        let lt = std_lib.lower_than(layouter, &x, &y, self.bits as u32)?;
        std_lib.assert_equal(layouter, &lt, &one)?;
        let bits = std_lib.assigned_to_le_bits(layouter, &x, Some(self.bits as usize), true)?;
        let back = std_lib.assigned_from_le_bits(layouter, &bits)?;
        std_lib.assert_equal(layouter, &back, &x)?;
        let _ = std_lib.band(layouter, &x, &y, self.bits as usize)?;
        let xy = std_lib.mul(layouter, &x, &y, None)?;
        std_lib.constrain_as_public_input(layouter, &xy)
    }
    fn write_relation<W: std::io::Write>(&self, writer: &mut W) -> std::io::Result<()> {
        writer.write_all(&[self.bits])
    }
    fn read_relation<R: std::io::Read>(reader: &mut R) -> std::io::Result<Self> {
        let mut b = [0u8; 1];
        reader.read_exact(&mut b)?;
        Ok(RangeRel { bits: b[0] })
    }
}

/// `examples/sha_preimage.rs`: knowledge of a 24-byte SHA-256 preimage (k = 13: many fixed
/// columns, lookup tables loaded on demand).
#[derive(Clone, Default)]
pub struct ShaRel;

impl Relation for ShaRel {
    type Instance = [u8; 32];
    type Witness = [u8; 24];
    fn format_instance(instance: &Self::Instance) -> Result<Vec<F>, Error> {
        Ok(instance.iter().flat_map(AssignedByte::<F>::as_public_input).collect())
    }
    fn circuit(&self, std_lib: &ZkStdLib, layouter: &mut impl Layouter<F>, _instance: Value<[u8; 32]>, witness: Value<[u8; 24]>) -> Result<(), Error> {
        let assigned_input = std_lib.assign_many(layouter, &witness.transpose_array())?;
        let output = std_lib.sha2_256(layouter, &assigned_input)?;
        output.iter().try_for_each(|b| std_lib.constrain_as_public_input(layouter, b))
    }
    fn used_chips(&self) -> ZkStdLibArch {
        ZkStdLibArch { sha2_256: true, ..ZkStdLibArch::default() }
    }
    fn write_relation<W: std::io::Write>(&self, _writer: &mut W) -> std::io::Result<()> {
        Ok(())
    }
    fn read_relation<R: std::io::Read>(_reader: &mut R) -> std::io::Result<Self> {
        Ok(ShaRel)
    }
}

// ---- checks ------------------------------------------------------------------------------

fn mvk_bytes(vk: &MidnightVK, fmt: SerdeFormat) -> Vec<u8> {
    let mut v = vec![];
    vk.write(&mut v, fmt).unwrap();
    v
}

fn mpk_bytes<R: Relation>(pk: &MidnightPK<R>, fmt: SerdeFormat) -> Vec<u8> {
    let mut v = vec![];
    pk.write(&mut v, fmt).unwrap();
    v
}

fn subject<R: Relation + Send + Sync>(
    ctx: &mut Ctx,
    name: &str,
    relation: &R,
    instance: R::Instance,
    witness: R::Witness,
    wrong_instance: R::Instance,
    reps: usize,
) where
    R::Instance: Send + Sync,
    R::Witness: Send + Sync,
{
    let desc = json!({"relation": name});
    let k = MidnightCircuit::from_relation(relation).min_k();
    ctx.count(&format!("relation:{name}:k{k}"));
    let srs_seed = 2000 + k as u64;
    let params = setup(k, srs_seed);
    let vk = midnight_zk_stdlib::setup_vk(&params, relation);
    let pk = midnight_zk_stdlib::setup_pk(relation, &vk);
    let base = vk_image(vk.vk());
    let base_vkb: Vec<Vec<u8>> = FORMATS.iter().map(|(f, _)| mvk_bytes(&vk, *f)).collect();
    let base_pkb = mpk_bytes(&pk, SerdeFormat::RawBytes);
    let base_full = pk_full_digest(pk.pk());

    // determinism
    for &t in POOLS.iter() {
        for rep in 0..reps {
            ctx.count(&format!("keygen:pool{t}"));
            let (vkb, img, pkb, full) = in_pool(t, || {
                let v = midnight_zk_stdlib::setup_vk(&params, relation);
                let p = midnight_zk_stdlib::setup_pk(relation, &v);
                (FORMATS.iter().map(|(f, _)| mvk_bytes(&v, *f)).collect::<Vec<_>>(), vk_image(v.vk()), mpk_bytes(&p, SerdeFormat::RawBytes), pk_full_digest(p.pk()))
            });
            if full != base_full {
                ctx.oracle_fail("keygen-nondeterministic:pk-derived:stdlib", "two key generations for the same parameters and relation gave proving keys whose recomputed parts differ", json!({"case": desc, "threads": t, "rep": rep}));
            }
            if vkb != base_vkb || img != base {
                ctx.oracle_fail("keygen-nondeterministic:vk:stdlib", "two key generations for the same parameters and relation gave different verifying keys", json!({"case": desc, "threads": t, "rep": rep}));
            }
            if pkb != base_pkb {
                ctx.oracle_fail("keygen-nondeterministic:pk:stdlib", "two key generations for the same parameters and relation gave different proving keys", json!({"case": desc, "threads": t, "rep": rep}));
            }
        }
    }

    // byte-level: MidnightVK image = architecture header | max_bit_len | nb_public_inputs | vk image
    let inner_cs = vk.vk().cs();
    let nfixed = vk.vk().fixed_commitments().len();
    let nperm = vk.vk().permutation().commitments().len();
    for (i, (fmt, fname)) in FORMATS.iter().enumerate() {
        let inner = vk.vk().to_bytes(*fmt);
        let outer = &base_vkb[i];
        if outer.len() < inner.len() || outer[outer.len() - inner.len()..] != inner[..] {
            ctx.oracle_fail("mvk-bytes-structure", "MidnightVK image does not end with the image of the inner verifying key", desc.clone());
            continue;
        }
        let header = &outer[..outer.len() - inner.len()];
        let mut arch_b = vec![];
        relation.used_chips().write(&mut arch_b).unwrap();
        let ok = header.len() == arch_b.len() + 5
            && header[..arch_b.len()] == arch_b[..]
            && u32::from_le_bytes(header[arch_b.len() + 1..].try_into().unwrap()) as usize == R::format_instance(&instance).map(|v| v.len()).unwrap_or(usize::MAX);
        if !ok {
            ctx.oracle_fail("mvk-header", "MidnightVK header is not architecture | max_bit_len | number of public inputs", desc.clone());
        }
        let fixed: Vec<String> = vk.vk().fixed_commitments().iter().map(|c| hex(&g1_bytes(c, *fmt))).collect();
        let perm: Vec<String> = vk.vk().permutation().commitments().iter().map(|c| hex(&g1_bytes(c, *fmt))).collect();
        ctx.case(
            "vkparse:stdlib",
            true,
            &format!("vkparse fmt={fname} nf={nfixed} np={nperm} deg={} {}", inner_cs.degree(), hex(&inner)),
            &format!("ok k={k} fixed={} perm={} rest=0 rewrite=1 len={}", fixed.join(","), perm.join(","), inner.len()),
        );
    }
    // wrapper headers: model's readMVK / readMPK on the real images and on header variants
    let arch = relation.used_chips();
    let arch_s = format!(
        "{}:{}",
        [arch.jubjub, arch.poseidon, arch.sha2_256, arch.sha2_512, arch.keccak_256, arch.sha3_256, arch.blake2b, arch.secp256k1, arch.bls12_381, arch.base64, arch.automaton]
            .iter()
            .map(|b| if *b { '1' } else { '0' })
            .collect::<String>(),
        arch.nr_pow2range_cols
    );
    let npi = R::format_instance(&instance).map(|v| v.len()).unwrap_or(0);
    let mut rel_b = vec![];
    relation.write_relation(&mut rel_b).unwrap();
    for (i, (fmt, fname)) in FORMATS.iter().enumerate() {
        let shape = format!("fmt={fname} nf={nfixed} np={nperm} deg={}", inner_cs.degree());
        let outer = base_vkb[i].clone();
        ctx.case(
            "mvkparse",
            true,
            &format!("mvkparse {shape} {}", hex(&outer)),
            &format!("ok arch={arch_s} npi={npi} k={k} nf={nfixed} np={nperm} rest=0 rewrite=1"),
        );
        let mut variants: Vec<(&str, Vec<u8>)> = vec![];
        let mut b = outer.clone();
        b[0] = 2;
        variants.push(("zkstd-version", b));
        let mut b = outer.clone();
        b[4] = 2;
        variants.push(("flag-2", b));
        let mut b = outer.clone();
        b[15] = 5;
        variants.push(("pow2-5", b));
        let mut b = outer.clone();
        b[15] = 4;
        variants.push(("pow2-4", b));
        variants.push(("header-cut", outer[..9].to_vec()));
        variants.push(("header-only", outer[..21].to_vec()));
        let mut b = outer.clone();
        b[21] ^= 0x40;
        variants.push(("inner-version", b));
        for (vname, vb) in variants {
            // a different pow2range count configures a different constraint system: skip variants
            // the model cannot follow (its shape is the one of the written architecture)
            let r = mzkh::catch(|| {
                // which phase refuses: the architecture header (version / bincode / column range)
                // or the rest
                if let Err(e) = ZkStdLibArch::read(&mut &vb[..]) {
                    let c = crate::ser::err_code(&e);
                    return Err(if c == "version" || c == "pow2" { c } else { "invalid".to_string() });
                }
                MidnightVK::read(&mut &vb[..], *fmt).map_err(|e| crate::ser::err_code(&e))
            });
            let ans = match r {
                Err(p) => {
                    if *fname != "U" {
                        ctx.oracle_fail(&format!("mvk-read-panic:{vname}"), "MidnightVK::read panicked on an edited header", json!({"case": desc, "variant": vname, "fmt": fname, "panic": p}));
                    }
                    "panic".to_string()
                }
                Ok(Err(code)) => format!("err {code}"),
                Ok(Ok(_)) => "accepted".to_string(),
            };
            if vname == "pow2-4" {
                // accepted or refused depending on the circuit the new architecture configures:
                // only "no panic" is required
                ctx.count(&format!("mvk:pow2-4:{}", ans.split(' ').next().unwrap_or("")));
                continue;
            }
            ctx.case(&format!("mvkparse:{vname}"), true, &format!("mvkparse {shape} {}", hex(&vb)), &ans);
        }
        // proving key wrapper
        let pkb = mpk_bytes(&pk, *fmt);
        if pkb.len() < 1_500_000 {
            let inner_pk = pk.pk().to_bytes(*fmt);
            let vklen = vk.vk().to_bytes(*fmt).len();
            let lens = |b: &[u8]| -> Option<(String, usize)> {
                let (v, used) = crate::ser::slice_polyvec(b)?;
                Some((mzkh::join(&v.iter().map(|p| p.len()).collect::<Vec<_>>()), used))
            };
            let ans = (|| {
                let (f, u1) = lens(&inner_pk[vklen..])?;
                let (p, u2) = lens(&inner_pk[vklen + u1..])?;
                let ok = pkb.len() == 2 + rel_b.len() + inner_pk.len() && pkb[2..2 + rel_b.len()] == rel_b[..] && pkb[2 + rel_b.len()..] == inner_pk[..];
                Some(format!(
                    "ok k={} rel={} vk.k={k} fixed={f} perm={p} rest={} rewrite={}",
                    pk.k(),
                    hex(&rel_b),
                    inner_pk.len() - vklen - u1 - u2,
                    ok as u8
                ))
            })()
            .unwrap_or_else(|| "unsliceable".into());
            ctx.case("mpkparse", true, &format!("mpkparse fmt={fname} rel={} nf={nfixed} np={nperm} deg={} {}", rel_b.len(), inner_cs.degree(), hex(&pkb)), &ans);
        }
    }
    let desc_s = crate::keys::vk_desc(vk.vk());
    if desc_s.len() < 400_000 {
        ctx.case(
            "trepr:stdlib",
            true,
            &format!("trepr nf={nfixed} np={nperm} {} {}", hex(&vk.vk().to_bytes(SerdeFormat::RawBytesUnchecked)), hex(desc_s.as_bytes())),
            &fhex(&vk.vk().transcript_repr()),
        );
    }
    ctx.count_n("trepr:desc-bytes", desc_s.len() as u64);

    // write A / read B
    let mut vks: Vec<(String, MidnightVK)> = vec![];
    let mut pks: Vec<(String, MidnightPK<R>)> = vec![];
    for (ai, (fa, an)) in FORMATS.iter().enumerate() {
        let vkb = &base_vkb[ai];
        let pkb = mpk_bytes(&pk, *fa);
        for (fb, bn) in FORMATS.iter() {
            let pair = format!("{an}->{bn}");
            ctx.count(&format!("roundtrip:{pair}"));
            match mzkh::catch(|| MidnightVK::read(&mut &vkb[..], *fb)) {
                Err(p) => {
                    if compatible(an, bn) {
                        ctx.oracle_fail(&format!("vk-read-panic:stdlib:{pair}"), "MidnightVK::read panicked on its own output", json!({"case": desc, "pair": pair, "panic": p}));
                    } else {
                        ctx.count(&format!("mismatch-rejected:mvk:{pair}:panic"));
                    }
                }
                Ok(Ok(v2)) => {
                    if !compatible(an, bn) {
                        ctx.oracle_fail(&format!("vk-format-mismatch-accepted:stdlib:{pair}"), "a MidnightVK written in one format was accepted when read in an incompatible one", json!({"case": desc, "pair": pair}));
                    } else {
                        if mvk_bytes(&v2, *fa) != *vkb {
                            ctx.oracle_fail(&format!("vk-roundtrip-bytes:stdlib:{pair}"), "MidnightVK re-serialises to different bytes after write/read", json!({"case": desc, "pair": pair}));
                        }
                        if vk_image(v2.vk()) != base {
                            ctx.oracle_fail(&format!("vk-roundtrip-identity:stdlib:{pair}"), "MidnightVK has another identity after write/read", json!({"case": desc, "pair": pair}));
                        }
                        vks.push((pair.clone(), v2));
                    }
                }
                Ok(Err(_)) => {
                    if compatible(an, bn) {
                        ctx.oracle_fail(&format!("vk-roundtrip-rejected:stdlib:{pair}"), "MidnightVK written then read in a compatible format was rejected", json!({"case": desc, "pair": pair}));
                    } else {
                        ctx.count(&format!("mismatch-rejected:mvk:{pair}"));
                    }
                }
            }
            match mzkh::catch(|| MidnightPK::<R>::read(&mut &pkb[..], *fb)) {
                Err(p) => {
                    if compatible(an, bn) {
                        ctx.oracle_fail(&format!("pk-read-panic:stdlib:{pair}"), "MidnightPK::read panicked on its own output", json!({"case": desc, "pair": pair, "panic": p}));
                    } else {
                        ctx.count(&format!("mismatch-rejected:mpk:{pair}:panic"));
                    }
                }
                Ok(Ok(p2)) => {
                    if !compatible(an, bn) {
                        ctx.oracle_fail(&format!("pk-format-mismatch-accepted:stdlib:{pair}"), "a MidnightPK written in one format was accepted when read in an incompatible one", json!({"case": desc, "pair": pair}));
                    } else {
                        if mpk_bytes(&p2, *fa) != pkb {
                            ctx.oracle_fail(&format!("pk-roundtrip-bytes:stdlib:{pair}"), "MidnightPK re-serialises to different bytes after write/read", json!({"case": desc, "pair": pair}));
                        }
                        if pk_full_digest(p2.pk()) != base_full {
                            ctx.oracle_fail(&format!("pk-roundtrip-derived:stdlib:{pair}"), "the parts a reloaded MidnightPK recomputes differ from the generated key's", json!({"case": desc, "pair": pair}));
                        }
                        if vk_image(p2.pk().get_vk()) != base || p2.k() != pk.k() {
                            ctx.oracle_fail(&format!("pk-roundtrip-vk-identity:stdlib:{pair}"), "the verifying key inside a reloaded MidnightPK has another identity", json!({"case": desc, "pair": pair}));
                        }
                        pks.push((pair.clone(), p2));
                    }
                }
                Ok(Err(_)) => {
                    if compatible(an, bn) {
                        ctx.oracle_fail(&format!("pk-roundtrip-rejected:stdlib:{pair}"), "MidnightPK written then read in a compatible format was rejected", json!({"case": desc, "pair": pair}));
                    } else {
                        ctx.count(&format!("mismatch-rejected:mpk:{pair}"));
                    }
                }
            }
        }
    }

    // proofs: original / reloaded pk × original / reloaded vk
    let prove = |pk: &MidnightPK<R>| -> Result<Vec<u8>, String> {
        mzkh::catch(|| {
            midnight_zk_stdlib::prove::<R, Blake2bState>(&params, pk, relation, &instance, witness.clone(), ChaCha8Rng::seed_from_u64(99))
                .map_err(|e| format!("{e:?}"))
        })
        .and_then(|r| r)
    };
    let verify = |vk: &MidnightVK, inst: &R::Instance, proof: &[u8]| -> Result<bool, String> {
        mzkh::catch(|| midnight_zk_stdlib::verify::<R, Blake2bState>(&params.verifier_params(), vk, inst, None, proof).is_ok())
    };
    let p0 = match prove(&pk) {
        Ok(p) => p,
        Err(e) => {
            ctx.oracle_fail("honest-proof-failed:stdlib", "proving with the generated key failed", json!({"case": desc, "err": e}));
            return;
        }
    };
    let mut vlist: Vec<(String, &MidnightVK)> = vec![("orig".into(), &vk)];
    for (n, v) in &vks {
        vlist.push((format!("vk:{n}"), v));
    }
    let mut plist: Vec<(String, &MidnightPK<R>)> = vec![("orig".into(), &pk)];
    for (n, p) in &pks {
        if ctx.quick() && !(n == "P->P" || n == "R->U") {
            continue;
        }
        plist.push((format!("pk:{n}"), p));
    }
    let mut bad = p0.clone();
    let mid = bad.len() / 2;
    bad[mid] ^= 0x10;
    for (pn, pkx) in &plist {
        let proof = if pn == "orig" {
            p0.clone()
        } else {
            match prove(pkx) {
                Ok(p) => p,
                Err(e) => {
                    ctx.oracle_fail(&format!("reloaded-pk-cannot-prove:stdlib:{pn}"), "proving with a reloaded MidnightPK failed", json!({"case": desc, "pk": pn, "err": e}));
                    continue;
                }
            }
        };
        ctx.count("proof:made");
        for (vn, vkx) in &vlist {
            ctx.count("proof:verified-combination");
            match verify(vkx, &instance, &proof) {
                Ok(true) => {}
                other => ctx.oracle_fail(&format!("cross-verify-rejected:stdlib:{pn}:{vn}"), "honest proof rejected under an original/reloaded key combination", json!({"case": desc, "pk": pn, "vk": vn, "result": format!("{other:?}")})),
            }
        }
    }
    for (vn, vkx) in &vlist {
        ctx.count("proof:rejection-compared");
        let r1 = verify(vkx, &instance, &bad);
        let r2 = verify(vkx, &wrong_instance, &p0);
        if r1 != Ok(false) || r2 != Ok(false) {
            ctx.oracle_fail(&format!("reloaded-vk-accepts-more:stdlib:{vn}"), "a key accepted a mutated proof / wrong statement", json!({"case": desc, "vk": vn, "mutated": format!("{r1:?}"), "wrong-statement": format!("{r2:?}")}));
        }
    }
}

pub fn relation_cases(ctx: &mut Ctx) {
    let reps = if ctx.thorough() { 2 } else { 1 };
    let mut rng = ctx.rng("relations");
    // Square with the default architecture
    let w = F::random(&mut rng);
    subject(ctx, "square-default", &Square { architecture: ZkStdLibArch::default() }, w * w, w, w * w + F::ONE, reps);
    // Poseidon
    let wit: [F; 3] = core::array::from_fn(|_| F::random(&mut rng));
    let inst = <PoseidonChip<F> as HashCPU<F, F>>::hash(&wit);
    subject(ctx, "poseidon", &PoseidonRel, inst, wit, inst + F::ONE, reps);
    if !ctx.quick() {
        let arch = ZkStdLibArch { jubjub: true, poseidon: true, sha2_256: true, nr_pow2range_cols: 4, ..ZkStdLibArch::default() };
        subject(ctx, "square-arch", &Square { architecture: arch }, w * w, w, w * w + F::ONE, reps);
        let (x, y) = (F::from(1234u64), F::from(40000u64));
        subject(ctx, "range16", &RangeRel { bits: 16 }, x * y, (x, y), x * y + F::ONE, reps);
    }
    if ctx.thorough() {
        let w: [u8; 24] = core::array::from_fn(|i| (i as u8).wrapping_mul(37).wrapping_add(ctx.seed as u8));
        let inst: [u8; 32] = <Sha256Chip<F> as HashCPU<u8, [u8; 32]>>::hash(&w);
        let mut wrong = inst;
        wrong[0] ^= 1;
        subject(ctx, "sha256-preimage", &ShaRel, inst, w, wrong, 1);
    }
}


/// Identity lines of the keys of two standard-library relations (for the cross-process
/// comparison of `main.rs`).
pub fn identity_lines() -> Vec<String> {
    fn one<R: Relation>(name: &str, relation: &R) -> String {
        let k = MidnightCircuit::from_relation(relation).min_k();
        let params = setup(k, 2000 + k as u64);
        let vk = midnight_zk_stdlib::setup_vk(&params, relation);
        let pk = midnight_zk_stdlib::setup_pk(relation, &vk);
        let dig = |b: &[u8]| hex(blake2b_simd::Params::new().hash_length(16).hash(b).as_bytes());
        format!(
            "rel-{name} k={k} mvk={} trepr={} mpk={} derived={}",
            dig(&mvk_bytes(&vk, SerdeFormat::RawBytes)),
            fhex(&vk.vk().transcript_repr()),
            dig(&mpk_bytes(&pk, SerdeFormat::RawBytes)),
            pk_full_digest(pk.pk())
        )
    }
    vec![one("square-default", &Square { architecture: ZkStdLibArch::default() }), one("poseidon", &PoseidonRel)]
}
