//! Standard-library relations (zk_stdlib API: `setup_vk`, `setup_pk`, `MidnightVK`/`MidnightPK`
//! write/read, `prove`, `verify`).

use blake2b_simd::State as Blake2bState;
use ff::Field;
use midnight_circuits::{
    hash::poseidon::PoseidonChip,
    instructions::{
        hash::HashCPU, ArithInstructions, AssertionInstructions, AssignmentInstructions, BitwiseInstructions,
        DecompositionInstructions, PublicInputInstructions,
    },
};
use midnight_curves::Fq as F;
use midnight_proofs::{
    circuit::{Layouter, Value},
    plonk::Error,
    utils::SerdeFormat,
};
use midnight_zk_stdlib::{MidnightCircuit, MidnightPK, MidnightVK, Relation, ZkStdLib, ZkStdLibArch};
use mzkh::Ctx;
use rand::SeedableRng;
use rand_chacha::ChaCha8Rng;
use serde_json::json;

use crate::{
    keys::{in_pool, pk_full_digest, setup, vk_image, POOLS},
    ser::{compatible, fhex, g1_bytes, hex, FORMATS},
};

// ---- relations ---------------------------------------------------------------------------

/// `tests/serialization.rs: DummyCircuit`: x² = instance, with a chosen architecture that is
/// written into the proving key.
#[derive(Clone)]
pub struct Square {
    pub architecture: ZkStdLibArch,
}

impl Relation for Square {
    type Instance = F;
    type Witness = F;
    fn format_instance(x: &F) -> Result<Vec<F>, Error> {
        Ok(vec![*x])
    }
    fn circuit(&self, std_lib: &ZkStdLib, layouter: &mut impl Layouter<F>, instance: Value<F>, witness: Value<F>) -> Result<(), Error> {
        let instance = std_lib.assign_as_public_input(layouter, instance)?;
        let witness = std_lib.assign(layouter, witness)?;
        let x = std_lib.mul(layouter, &witness, &witness, None)?;
        std_lib.assert_equal(layouter, &instance, &x)
    }
    fn used_chips(&self) -> ZkStdLibArch {
        self.architecture
    }
    fn write_relation<W: std::io::Write>(&self, writer: &mut W) -> std::io::Result<()> {
        self.architecture.write(writer)
    }
    fn read_relation<R: std::io::Read>(reader: &mut R) -> std::io::Result<Self> {
        ZkStdLibArch::read(reader).map(|architecture| Square { architecture })
    }
}

/// `examples/poseidon.rs`.
#[derive(Clone, Default)]
pub struct PoseidonRel;

impl Relation for PoseidonRel {
    type Instance = F;
    type Witness = [F; 3];
    fn format_instance(instance: &F) -> Result<Vec<F>, Error> {
        Ok(vec![*instance])
    }
    fn circuit(&self, std_lib: &ZkStdLib, layouter: &mut impl Layouter<F>, _instance: Value<F>, witness: Value<[F; 3]>) -> Result<(), Error> {
        let assigned_message = std_lib.assign_many(layouter, &witness.transpose_array())?;
        let output = std_lib.poseidon(layouter, &assigned_message)?;
        std_lib.constrain_as_public_input(layouter, &output)
    }
    fn used_chips(&self) -> ZkStdLibArch {
        ZkStdLibArch { poseidon: true, ..ZkStdLibArch::default() }
    }
    fn write_relation<W: std::io::Write>(&self, _writer: &mut W) -> std::io::Result<()> {
        Ok(())
    }
    fn read_relation<R: std::io::Read>(_reader: &mut R) -> std::io::Result<Self> {
        Ok(PoseidonRel)
    }
}

/// Native gadget: bits, range comparison, fixed cells (many copy constraints and lookups).
/// instance = x·y, witness = (x, y) with x < y < 2^16; `bits` is relation data written in the key.
#[derive(Clone)]
pub struct RangeRel {
    pub bits: u8,
}

impl Relation for RangeRel {
    type Instance = F;
    type Witness = (F, F);
    fn format_instance(instance: &F) -> Result<Vec<F>, Error> {
        Ok(vec![*instance])
    }
    fn circuit(&self, std_lib: &ZkStdLib, layouter: &mut impl Layouter<F>, _instance: Value<F>, witness: Value<(F, F)>) -> Result<(), Error> {
        let (a, b) = witness.unzip();
        let x = std_lib.assign(layouter, a)?;
        let y = std_lib.assign(layouter, b)?;
        let one = std_lib.assign_fixed(layouter, true)?;
        let lt = std_lib.lower_than(layouter, &x, &y, self.bits as u32)?;
        std_lib.assert_equal(layouter, &lt, &one)?;
        let bits = std_lib.assigned_to_le_bits(layouter, &x, Some(self.bits as usize), true)?;
        let back = std_lib.assigned_from_le_bits(layouter, &bits)?;
        std_lib.assert_equal(layouter, &back, &x)?;
        let _ = std_lib.band(layouter, &x, &y, self.bits as usize)?;
        let xy = std_lib.mul(layouter, &x, &y, None)?;
        std_lib.constrain_as_public_input(layouter, &xy)
    }
    fn write_relation<W: std::io::Write>(&self, writer: &mut W) -> std::io::Result<()> {
        writer.write_all(&[self.bits])
    }
    fn read_relation<R: std::io::Read>(reader: &mut R) -> std::io::Result<Self> {
        let mut b = [0u8; 1];
        reader.read_exact(&mut b)?;
        Ok(RangeRel { bits: b[0] })
    }
}

// ---- checks ------------------------------------------------------------------------------

fn mvk_bytes(vk: &MidnightVK, fmt: SerdeFormat) -> Vec<u8> {
    let mut v = vec![];
    vk.write(&mut v, fmt).unwrap();
    v
}

fn mpk_bytes<R: Relation>(pk: &MidnightPK<R>, fmt: SerdeFormat) -> Vec<u8> {
    let mut v = vec![];
    pk.write(&mut v, fmt).unwrap();
    v
}

fn subject<R: Relation + Send + Sync>(
    ctx: &mut Ctx,
    name: &str,
    relation: &R,
    instance: R::Instance,
    witness: R::Witness,
    wrong_instance: R::Instance,
    reps: usize,
) where
    R::Instance: Send + Sync,
    R::Witness: Send + Sync,
{
    let desc = json!({"relation": name});
    let k = MidnightCircuit::from_relation(relation).min_k();
    ctx.count(&format!("relation:{name}:k{k}"));
    let srs_seed = 2000 + k as u64;
    let params = setup(k, srs_seed);
    let vk = midnight_zk_stdlib::setup_vk(&params, relation);
    let pk = midnight_zk_stdlib::setup_pk(relation, &vk);
    let base = vk_image(vk.vk());
    let base_vkb: Vec<Vec<u8>> = FORMATS.iter().map(|(f, _)| mvk_bytes(&vk, *f)).collect();
    let base_pkb = mpk_bytes(&pk, SerdeFormat::RawBytes);
    let base_full = pk_full_digest(pk.pk());

    // determinism
    for &t in POOLS.iter() {
        for rep in 0..reps {
            ctx.count(&format!("keygen:pool{t}"));
            let (vkb, img, pkb, full) = in_pool(t, || {
                let v = midnight_zk_stdlib::setup_vk(&params, relation);
                let p = midnight_zk_stdlib::setup_pk(relation, &v);
                (FORMATS.iter().map(|(f, _)| mvk_bytes(&v, *f)).collect::<Vec<_>>(), vk_image(v.vk()), mpk_bytes(&p, SerdeFormat::RawBytes), pk_full_digest(p.pk()))
            });
            if full != base_full {
                ctx.oracle_fail("keygen-nondeterministic:pk-derived:stdlib", "two key generations for the same parameters and relation gave proving keys whose recomputed parts differ", json!({"case": desc, "threads": t, "rep": rep}));
            }
            if vkb != base_vkb || img != base {
                ctx.oracle_fail("keygen-nondeterministic:vk:stdlib", "two key generations for the same parameters and relation gave different verifying keys", json!({"case": desc, "threads": t, "rep": rep}));
            }
            if pkb != base_pkb {
                ctx.oracle_fail("keygen-nondeterministic:pk:stdlib", "two key generations for the same parameters and relation gave different proving keys", json!({"case": desc, "threads": t, "rep": rep}));
            }
        }
    }

    // byte-level: MidnightVK image = architecture header | max_bit_len | nb_public_inputs | vk image
    let inner_cs = vk.vk().cs();
    let nfixed = vk.vk().fixed_commitments().len();
    let nperm = vk.vk().permutation().commitments().len();
    for (i, (fmt, fname)) in FORMATS.iter().enumerate() {
        let inner = vk.vk().to_bytes(*fmt);
        let outer = &base_vkb[i];
        if outer.len() < inner.len() || outer[outer.len() - inner.len()..] != inner[..] {
            ctx.oracle_fail("mvk-bytes-structure", "MidnightVK image does not end with the image of the inner verifying key", desc.clone());
            continue;
        }
        let header = &outer[..outer.len() - inner.len()];
        let mut arch_b = vec![];
        relation.used_chips().write(&mut arch_b).unwrap();
        let ok = header.len() == arch_b.len() + 5
            && header[..arch_b.len()] == arch_b[..]
            && u32::from_le_bytes(header[arch_b.len() + 1..].try_into().unwrap()) as usize == R::format_instance(&instance).map(|v| v.len()).unwrap_or(usize::MAX);
        if !ok {
            ctx.oracle_fail("mvk-header", "MidnightVK header is not architecture | max_bit_len | number of public inputs", desc.clone());
        }
        let fixed: Vec<String> = vk.vk().fixed_commitments().iter().map(|c| hex(&g1_bytes(c, *fmt))).collect();
        let perm: Vec<String> = vk.vk().permutation().commitments().iter().map(|c| hex(&g1_bytes(c, *fmt))).collect();
        ctx.case(
            "vkparse:stdlib",
            true,
            &format!("vkparse fmt={fname} nf={nfixed} np={nperm} deg={} {}", inner_cs.degree(), hex(&inner)),
            &format!("ok k={k} fixed={} perm={} rest=0 rewrite=1 len={}", fixed.join(","), perm.join(","), inner.len()),
        );
    }
    let desc_s = crate::keys::vk_desc(vk.vk());
    if desc_s.len() < 400_000 {
        ctx.case(
            "trepr:stdlib",
            true,
            &format!("trepr nf={nfixed} np={nperm} {} {}", hex(&vk.vk().to_bytes(SerdeFormat::RawBytesUnchecked)), hex(desc_s.as_bytes())),
            &fhex(&vk.vk().transcript_repr()),
        );
    }
    ctx.count_n("trepr:desc-bytes", desc_s.len() as u64);

    // write A / read B
    let mut vks: Vec<(String, MidnightVK)> = vec![];
    let mut pks: Vec<(String, MidnightPK<R>)> = vec![];
    for (ai, (fa, an)) in FORMATS.iter().enumerate() {
        let vkb = &base_vkb[ai];
        let pkb = mpk_bytes(&pk, *fa);
        for (fb, bn) in FORMATS.iter() {
            let pair = format!("{an}->{bn}");
            ctx.count(&format!("roundtrip:{pair}"));
            match mzkh::catch(|| MidnightVK::read(&mut &vkb[..], *fb)) {
                Err(p) => {
                    if compatible(an, bn) {
                        ctx.oracle_fail(&format!("vk-read-panic:stdlib:{pair}"), "MidnightVK::read panicked on its own output", json!({"case": desc, "pair": pair, "panic": p}));
                    } else {
                        ctx.count(&format!("mismatch-rejected:mvk:{pair}:panic"));
                    }
                }
                Ok(Ok(v2)) => {
                    if !compatible(an, bn) {
                        ctx.oracle_fail(&format!("vk-format-mismatch-accepted:stdlib:{pair}"), "a MidnightVK written in one format was accepted when read in an incompatible one", json!({"case": desc, "pair": pair}));
                    } else {
                        if mvk_bytes(&v2, *fa) != *vkb {
                            ctx.oracle_fail(&format!("vk-roundtrip-bytes:stdlib:{pair}"), "MidnightVK re-serialises to different bytes after write/read", json!({"case": desc, "pair": pair}));
                        }
                        if vk_image(v2.vk()) != base {
                            ctx.oracle_fail(&format!("vk-roundtrip-identity:stdlib:{pair}"), "MidnightVK has another identity after write/read", json!({"case": desc, "pair": pair}));
                        }
                        vks.push((pair.clone(), v2));
                    }
                }
                Ok(Err(_)) => {
                    if compatible(an, bn) {
                        ctx.oracle_fail(&format!("vk-roundtrip-rejected:stdlib:{pair}"), "MidnightVK written then read in a compatible format was rejected", json!({"case": desc, "pair": pair}));
                    } else {
                        ctx.count(&format!("mismatch-rejected:mvk:{pair}"));
                    }
                }
            }
            match mzkh::catch(|| MidnightPK::<R>::read(&mut &pkb[..], *fb)) {
                Err(p) => {
                    if compatible(an, bn) {
                        ctx.oracle_fail(&format!("pk-read-panic:stdlib:{pair}"), "MidnightPK::read panicked on its own output", json!({"case": desc, "pair": pair, "panic": p}));
                    } else {
                        ctx.count(&format!("mismatch-rejected:mpk:{pair}:panic"));
                    }
                }
                Ok(Ok(p2)) => {
                    if !compatible(an, bn) {
                        ctx.oracle_fail(&format!("pk-format-mismatch-accepted:stdlib:{pair}"), "a MidnightPK written in one format was accepted when read in an incompatible one", json!({"case": desc, "pair": pair}));
                    } else {
                        if mpk_bytes(&p2, *fa) != pkb {
                            ctx.oracle_fail(&format!("pk-roundtrip-bytes:stdlib:{pair}"), "MidnightPK re-serialises to different bytes after write/read", json!({"case": desc, "pair": pair}));
                        }
                        if pk_full_digest(p2.pk()) != base_full {
                            ctx.oracle_fail(&format!("pk-roundtrip-derived:stdlib:{pair}"), "the parts a reloaded MidnightPK recomputes differ from the generated key's", json!({"case": desc, "pair": pair}));
                        }
                        if vk_image(p2.pk().get_vk()) != base || p2.k() != pk.k() {
                            ctx.oracle_fail(&format!("pk-roundtrip-vk-identity:stdlib:{pair}"), "the verifying key inside a reloaded MidnightPK has another identity", json!({"case": desc, "pair": pair}));
                        }
                        pks.push((pair.clone(), p2));
                    }
                }
                Ok(Err(_)) => {
                    if compatible(an, bn) {
                        ctx.oracle_fail(&format!("pk-roundtrip-rejected:stdlib:{pair}"), "MidnightPK written then read in a compatible format was rejected", json!({"case": desc, "pair": pair}));
                    } else {
                        ctx.count(&format!("mismatch-rejected:mpk:{pair}"));
                    }
                }
            }
        }
    }

    // proofs: original / reloaded pk × original / reloaded vk
    let prove = |pk: &MidnightPK<R>| -> Result<Vec<u8>, String> {
        mzkh::catch(|| {
            midnight_zk_stdlib::prove::<R, Blake2bState>(&params, pk, relation, &instance, witness.clone(), ChaCha8Rng::seed_from_u64(99))
                .map_err(|e| format!("{e:?}"))
        })
        .and_then(|r| r)
    };
    let verify = |vk: &MidnightVK, inst: &R::Instance, proof: &[u8]| -> Result<bool, String> {
        mzkh::catch(|| midnight_zk_stdlib::verify::<R, Blake2bState>(&params.verifier_params(), vk, inst, None, proof).is_ok())
    };
    let p0 = match prove(&pk) {
        Ok(p) => p,
        Err(e) => {
            ctx.oracle_fail("honest-proof-failed:stdlib", "proving with the generated key failed", json!({"case": desc, "err": e}));
            return;
        }
    };
    let mut vlist: Vec<(String, &MidnightVK)> = vec![("orig".into(), &vk)];
    for (n, v) in &vks {
        vlist.push((format!("vk:{n}"), v));
    }
    let mut plist: Vec<(String, &MidnightPK<R>)> = vec![("orig".into(), &pk)];
    for (n, p) in &pks {
        if ctx.quick() && !(n == "P->P" || n == "R->U") {
            continue;
        }
        plist.push((format!("pk:{n}"), p));
    }
    let mut bad = p0.clone();
    let mid = bad.len() / 2;
    bad[mid] ^= 0x10;
    for (pn, pkx) in &plist {
        let proof = if pn == "orig" {
            p0.clone()
        } else {
            match prove(pkx) {
                Ok(p) => p,
                Err(e) => {
                    ctx.oracle_fail(&format!("reloaded-pk-cannot-prove:stdlib:{pn}"), "proving with a reloaded MidnightPK failed", json!({"case": desc, "pk": pn, "err": e}));
                    continue;
                }
            }
        };
        ctx.count("proof:made");
        for (vn, vkx) in &vlist {
            ctx.count("proof:verified-combination");
            match verify(vkx, &instance, &proof) {
                Ok(true) => {}
                other => ctx.oracle_fail(&format!("cross-verify-rejected:stdlib:{pn}:{vn}"), "honest proof rejected under an original/reloaded key combination", json!({"case": desc, "pk": pn, "vk": vn, "result": format!("{other:?}")})),
            }
        }
    }
    for (vn, vkx) in &vlist {
        ctx.count("proof:rejection-compared");
        let r1 = verify(vkx, &instance, &bad);
        let r2 = verify(vkx, &wrong_instance, &p0);
        if r1 != Ok(false) || r2 != Ok(false) {
            ctx.oracle_fail(&format!("reloaded-vk-accepts-more:stdlib:{vn}"), "a key accepted a mutated proof / wrong statement", json!({"case": desc, "vk": vn, "mutated": format!("{r1:?}"), "wrong-statement": format!("{r2:?}")}));
        }
    }
}

pub fn relation_cases(ctx: &mut Ctx) {
    let reps = if ctx.thorough() { 2 } else { 1 };
    let mut rng = ctx.rng("relations");
    // Square with the default architecture
    let w = F::random(&mut rng);
    subject(ctx, "square-default", &Square { architecture: ZkStdLibArch::default() }, w * w, w, w * w + F::ONE, reps);
    // Poseidon
    let wit: [F; 3] = core::array::from_fn(|_| F::random(&mut rng));
    let inst = <PoseidonChip<F> as HashCPU<F, F>>::hash(&wit);
    subject(ctx, "poseidon", &PoseidonRel, inst, wit, inst + F::ONE, reps);
    if !ctx.quick() {
        let arch = ZkStdLibArch { jubjub: true, poseidon: true, sha2_256: true, nr_pow2range_cols: 4, ..ZkStdLibArch::default() };
        subject(ctx, "square-arch", &Square { architecture: arch }, w * w, w, w * w + F::ONE, reps);
        let (x, y) = (F::from(1234u64), F::from(40000u64));
        subject(ctx, "range16", &RangeRel { bits: 16 }, x * y, (x, y), x * y + F::ONE, reps);
    }
}
