//! Family circuits (midnight-proofs API): keygen determinism over thread pools and repeated
//! runs, byte-level key correspondence, write/read matrix, proof cross-verification.

use blake2b_simd::State as Blake2bState;
use ff::Field;
use group::{Curve, Group};
use midnight_curves::{Bls12, Fq as F, G1Projective};
use midnight_proofs::{
    plonk::{
        commit_to_instances, create_proof, keygen_pk, keygen_vk_with_k, prepare, ProvingKey, VerifyingKey,
    },
    poly::{
        commitment::Guard,
        kzg::{params::ParamsKZG, KZGCommitmentScheme},
    },
    transcript::{CircuitTranscript, Transcript},
    utils::SerdeFormat,
};
use mzkh::{
    family::{FamCircuit, FamParams},
    Ctx,
};
use rand::SeedableRng;
use rand_chacha::ChaCha8Rng;
use serde_json::json;

use crate::{
    rec,
    ser::{self, compatible, err_code, fhex, g1_bytes, g1_len, hex, FORMATS},
};

pub type Scheme = KZGCommitmentScheme<Bls12>;
pub type VK = VerifyingKey<F, Scheme>;
pub type PK = ProvingKey<F, Scheme>;

pub const POOLS: [usize; 6] = [1, 2, 3, 5, 8, 16];

pub fn in_pool<T: Send>(t: usize, f: impl FnOnce() -> T + Send) -> T {
    rayon::ThreadPoolBuilder::new().num_threads(t).build().unwrap().install(f)
}

/// The secret `unsafe_setup(k, ChaCha8Rng::seed_from_u64(seed))` draws (`params.rs:
/// unsafe_setup`: `let s = <E::Fr>::random(rng)`, the only use of the rng).
pub fn secret_of(seed: u64) -> F {
    F::random(ChaCha8Rng::seed_from_u64(seed))
}

pub fn setup(k: u32, seed: u64) -> ParamsKZG<Bls12> {
    ParamsKZG::<Bls12>::unsafe_setup(k, ChaCha8Rng::seed_from_u64(seed))
}

/// Everything an identity comparison of two verifying keys looks at.
#[derive(PartialEq, Eq, Clone)]
pub struct VkImage {
    pub bytes: [Vec<u8>; 3],
    pub repr: String,
    pub desc: String,
}

pub fn vk_desc(vk: &VK) -> String {
    format!("{:?}{:?}", vk.get_domain().pinned(), vk.cs().pinned())
}

pub fn vk_image(vk: &VK) -> VkImage {
    VkImage {
        bytes: [
            vk.to_bytes(SerdeFormat::Processed),
            vk.to_bytes(SerdeFormat::RawBytes),
            vk.to_bytes(SerdeFormat::RawBytesUnchecked),
        ],
        repr: fhex(&vk.transcript_repr()),
        desc: vk_desc(vk),
    }
}

/// Digest of the whole proving key: the stored parts and (through the `verif_derived_parts`
/// hook) everything `ProvingKey::read` recomputes, including the evaluator's rendering.
pub fn pk_full_digest(pk: &PK) -> String {
    use ff::PrimeField;
    let (parts, ev) = pk.verif_derived_parts();
    let mut st = blake2b_simd::Params::new().hash_length(32).to_state();
    for (name, polys) in parts {
        st.update(name.as_bytes());
        st.update(&(polys.len() as u64).to_le_bytes());
        for p in polys {
            st.update(&(p.len() as u64).to_le_bytes());
            for v in p {
                st.update(v.to_repr().as_ref());
            }
        }
    }
    st.update(ev.as_bytes());
    hex(st.finalize().as_bytes())
}

pub struct FamSubject {
    pub fp: FamParams,
    pub seed: u64,
    pub k: u32,
    pub srs_seed: u64,
    pub params: ParamsKZG<Bls12>,
    pub circuit: FamCircuit,
    pub vk: VK,
    pub pk: PK,
}

impl FamSubject {
    pub fn desc(&self) -> serde_json::Value {
        json!({"family": format!("{:?}", self.fp), "seed": self.seed, "k": self.k, "srs_seed": self.srs_seed})
    }
    pub fn id(&self) -> String {
        format!("fam{}", self.seed)
    }
}

pub fn fam_subject(fp: &FamParams, seed: u64) -> FamSubject {
    let circuit = FamCircuit::new(fp.clone(), seed);
    let mut k = 4;
    loop {
        let srs_seed = 1000 + k as u64;
        let params = setup(k, srs_seed);
        match keygen_vk_with_k::<F, Scheme, _>(&params, &circuit, k) {
            Ok(vk) => {
                let pk = keygen_pk(vk.clone(), &circuit).unwrap();
                return FamSubject { fp: fp.clone(), seed, k, srs_seed, params, circuit, vk, pk };
            }
            Err(_) if k < 10 => k += 1,
            Err(e) => panic!("keygen failed: {e:?}"),
        }
    }
}

/// Honest proof for the subject's circuit with witness seed `wseed`.
pub fn fam_prove(params: &ParamsKZG<Bls12>, pk: &PK, fp: &FamParams, wseed: u64) -> Result<Vec<u8>, String> {
    let c = FamCircuit::new(fp.clone(), wseed);
    let insts = c.instances();
    let refs: Vec<&[F]> = insts.iter().map(|c| &c[..]).collect();
    mzkh::catch(|| {
        let mut tr = CircuitTranscript::<Blake2bState>::init();
        create_proof::<F, Scheme, _, _>(
            params,
            pk,
            std::slice::from_ref(&c),
            fp.n_committed,
            &[&refs[..]],
            ChaCha8Rng::seed_from_u64(wseed ^ 0xbeef),
            &mut tr,
        )
        .map(|_| tr.finalize())
        .map_err(|e| format!("{e:?}"))
    })
    .and_then(|r| r)
}

/// Ok(true) accepted, Ok(false) error value, Err = panic.
pub fn fam_verify(params: &ParamsKZG<Bls12>, vk: &VK, fp: &FamParams, wseed: u64, proof: &[u8]) -> Result<bool, String> {
    let c = FamCircuit::new(fp.clone(), wseed);
    let insts = c.instances();
    let coms: Vec<G1Projective> = insts[..fp.n_committed]
        .iter()
        .map(|col| commit_to_instances::<F, Scheme>(params, vk.get_domain(), col))
        .collect();
    let plain: Vec<&[F]> = insts[fp.n_committed..].iter().map(|c| &c[..]).collect();
    mzkh::catch(|| {
        let mut tr = CircuitTranscript::<Blake2bState>::init_from_bytes(proof);
        let g = match prepare::<F, Scheme, _>(vk, &[&coms[..]], &[&plain[..]], &mut tr) {
            Ok(g) => g,
            Err(_) => return false,
        };
        if tr.assert_empty().is_err() {
            return false;
        }
        g.verify(&params.verifier_params()).is_ok()
    })
}

fn read_vk(bytes: &[u8], fmt: SerdeFormat, fp: &FamParams) -> Result<Result<VK, String>, String> {
    mzkh::catch(|| VK::from_bytes::<FamCircuit>(bytes, fmt, fp.clone()).map_err(|e| err_code(&e)))
}

fn read_pk(bytes: &[u8], fmt: SerdeFormat, fp: &FamParams) -> Result<Result<PK, String>, String> {
    mzkh::catch(|| PK::from_bytes::<FamCircuit>(bytes, fmt, fp.clone()).map_err(|e| err_code(&e)))
}

/// Keygen under every pool, `reps` times: byte-identical vk (all formats), identical
/// transcript identity and description, byte-identical pk.
pub fn determinism(ctx: &mut Ctx, s: &FamSubject, reps: usize) {
    let base = vk_image(&s.vk);
    let base_pk = s.pk.to_bytes(SerdeFormat::RawBytes);
    let base_full = pk_full_digest(&s.pk);
    for &t in POOLS.iter() {
        for rep in 0..reps {
            ctx.count(&format!("keygen:pool{t}"));
            let (vk, pk) = in_pool(t, || {
                let vk = keygen_vk_with_k::<F, Scheme, _>(&s.params, &s.circuit, s.k).unwrap();
                let pk = keygen_pk(vk.clone(), &s.circuit).unwrap();
                (vk, pk)
            });
            let img = vk_image(&vk);
            if img != base {
                let which = if img.bytes != base.bytes { "bytes" } else if img.repr != base.repr { "transcript_repr" } else { "description" };
                ctx.oracle_fail(
                    &format!("keygen-nondeterministic:vk:{which}"),
                    "two key generations for the same parameters and circuit gave different verifying keys",
                    json!({"subject": s.desc(), "threads": t, "rep": rep, "differs": which}),
                );
            }
            let pkb = pk.to_bytes(SerdeFormat::RawBytes);
            if pkb != base_pk {
                ctx.oracle_fail(
                    "keygen-nondeterministic:pk",
                    "two key generations for the same parameters and circuit gave different proving keys",
                    json!({"subject": s.desc(), "threads": t, "rep": rep}),
                );
            }
            if pk_full_digest(&pk) != base_full {
                ctx.oracle_fail(
                    "keygen-nondeterministic:pk-derived",
                    "two key generations for the same parameters and circuit gave proving keys whose recomputed parts differ",
                    json!({"subject": s.desc(), "threads": t, "rep": rep}),
                );
            }
            if rep == 0 {
                perm_case(ctx, s, &pk, t);
                // the key generated under this pool proves, and the baseline vk accepts
                let wseed = s.seed + 23;
                match fam_prove(&s.params, &pk, &s.fp, wseed).map(|p| fam_verify(&s.params, &s.vk, &s.fp, wseed, &p)) {
                    Ok(Ok(true)) => ctx.count("proof:per-pool-key"),
                    other => ctx.oracle_fail(
                        "pool-key-not-interchangeable",
                        "a proving key generated under another thread count does not produce proofs the baseline verifying key accepts",
                        json!({"subject": s.desc(), "threads": t, "result": format!("{other:?}")}),
                    ),
                }
            }
        }
    }
}

/// Correspondence `perm`: the permutation polynomials stored in the proving key (sliced out of
/// its byte image) against the model's `Assembly::copy` + `build_pk` on the recorded copies,
/// chunked for `t` threads.
pub fn perm_case(ctx: &mut Ctx, s: &FamSubject, pk: &PK, t: usize) {
    let recd = match rec::record(&s.circuit) {
        Ok(r) => r,
        Err(e) => {
            ctx.oracle_fail("record-failed", "recording synthesis failed", json!({"subject": s.desc(), "err": e}));
            return;
        }
    };
    let bytes = pk.to_bytes(SerdeFormat::RawBytes);
    let vklen = pk.get_vk().to_bytes(SerdeFormat::RawBytes).len();
    let Some((fixed, used)) = ser::slice_polyvec(&bytes[vklen..]) else {
        ctx.oracle_fail("pk-bytes-unsliceable", "pk byte image does not have the documented structure", s.desc());
        return;
    };
    let Some((perms, used2)) = ser::slice_polyvec(&bytes[vklen + used..]) else {
        ctx.oracle_fail("pk-bytes-unsliceable", "pk byte image does not have the documented structure", s.desc());
        return;
    };
    if vklen + used + used2 != bytes.len() {
        ctx.oracle_fail("pk-bytes-trailing", "pk byte image has trailing bytes", s.desc());
    }
    let ncols = recd.cs.permutation().get_columns().len();
    let copies: Vec<String> = recd.copies_idx.iter().map(|(a, b, c, d)| format!("{a}.{b}.{c}.{d}")).collect();
    let op = format!("perm t={} k={} ncols={} copies={}", t, s.k, ncols, if copies.is_empty() { "-".into() } else { copies.join(",") });
    let ans = perms.iter().map(|p| p.iter().map(fhex).collect::<Vec<_>>().join(",")).collect::<Vec<_>>().join("/");
    ctx.case("perm", !copies.is_empty(), &op, &if ans.is_empty() { "-".to_string() } else { ans });
    ctx.count_n("perm:copies", recd.copies_idx.len() as u64);
    if t == 1 {
        // `perminv`: the classes of the requested copies by plain closure (no union-find, no
        // sizes, no cycles) against the state of the model's `Assembly` and its invariant
        perminv_case(ctx, s.k, ncols, &recd.copies_idx, false);
        // the same copies in reversed and in rotated order: same classes (σ may differ)
        let mut rev = recd.copies_idx.clone();
        rev.reverse();
        perminv_case(ctx, s.k, ncols, &rev, true);
        let flipped: Vec<_> = recd.copies_idx.iter().map(|(a, b, c, d)| (*c, *d, *a, *b)).collect();
        perminv_case(ctx, s.k, ncols, &flipped, true);
    }
    // the fixed columns stored in the pk are the ones the recorded synthesis determines
    let n = 1usize << s.k;
    let want = recd.fixed_columns(n);
    if want != fixed {
        ctx.oracle_fail(
            "pk-fixed-values-differ-from-synthesis",
            "fixed values stored in the proving key differ from the circuit's fixed assignments",
            s.desc(),
        );
    }
    ctx.count("pk:fixed-values-vs-synthesis");
}

/// Correspondence `vkparse` on the real byte image + structural variants; `trepr`.
pub fn vk_bytes_cases(ctx: &mut Ctx, s: &FamSubject) {
    let vk = &s.vk;
    let cs = vk.cs();
    let nfixed = vk.fixed_commitments().len();
    let nperm = vk.permutation().commitments().len();
    let deg = cs.degree();
    for (fmt, fname) in FORMATS {
        let bytes = vk.to_bytes(fmt);
        let shape = format!("fmt={fname} nf={nfixed} np={nperm} deg={deg}");
        let fixed: Vec<String> = vk.fixed_commitments().iter().map(|c| hex(&g1_bytes(c, fmt))).collect();
        let perm: Vec<String> = vk.permutation().commitments().iter().map(|c| hex(&g1_bytes(c, fmt))).collect();
        let ans = format!(
            "ok k={} fixed={} perm={} rest=0 rewrite=1 len={}",
            s.k,
            if fixed.is_empty() { "-".into() } else { fixed.join(",") },
            if perm.is_empty() { "-".into() } else { perm.join(",") },
            bytes.len()
        );
        ctx.case("vkparse", true, &format!("vkparse {shape} {}", hex(&bytes)), &ans);
        if vk.bytes_length(fmt) != bytes.len() {
            ctx.count("note:vk.bytes_length!=to_bytes.len");
        }
        // structural variants, answered by the real reader
        let plen = g1_len(fmt);
        let mut variants: Vec<(&str, Vec<u8>)> = vec![];
        let mut b = bytes.clone();
        b[0] ^= 1;
        variants.push(("version", b));
        let mut b = bytes.clone();
        b[0] = 0;
        variants.push(("version0", b));
        let mut b = bytes.clone();
        b[1] = 33;
        variants.push(("k33", b));
        let mut b = bytes.clone();
        b[1] = 32;
        variants.push(("k32", b));
        let mut b = bytes.clone();
        b[2] = b[2].wrapping_add(1);
        variants.push(("count+1", b));
        let mut b = bytes.clone();
        b[5] = 1;
        variants.push(("count-high", b));
        variants.push(("truncated-1", bytes[..bytes.len() - 1].to_vec()));
        variants.push(("truncated-point", bytes[..bytes.len() - plen].to_vec()));
        variants.push(("header-only", bytes[..6].to_vec()));
        variants.push(("empty", vec![]));
        variants.push(("one-byte", bytes[..1].to_vec()));
        let mut b = bytes.clone();
        b.extend_from_slice(&[7, 7, 7]);
        variants.push(("trailing", b));
        for (vname, vb) in variants {
            let r = read_vk(&vb, fmt, &s.fp);
            let ans = match r {
                Err(p) => {
                    // the unchecked element readers unwrap a short read (trusted input only)
                    if fname != "U" {
                        ctx.oracle_fail(
                            &format!("vk-read-panic:{vname}"),
                            "VerifyingKey::read panicked on a structurally edited key",
                            json!({"subject": s.desc(), "variant": vname, "fmt": fname, "panic": p}),
                        );
                    }
                    "panic".to_string()
                }
                Ok(Err(code)) => format!("err {code}"),
                Ok(Ok(v2)) => {
                    let fixed: Vec<String> = v2.fixed_commitments().iter().map(|c| hex(&g1_bytes(c, fmt))).collect();
                    let perm: Vec<String> = v2.permutation().commitments().iter().map(|c| hex(&g1_bytes(c, fmt))).collect();
                    let re = v2.to_bytes(fmt);
                    format!(
                        "ok k={} fixed={} perm={} rest={} rewrite={} len={}",
                        v2.get_domain().k(),
                        if fixed.is_empty() { "-".into() } else { fixed.join(",") },
                        if perm.is_empty() { "-".into() } else { perm.join(",") },
                        vb.len() - re.len(),
                        (re[..] == vb[..re.len()]) as u8,
                        vb.len()
                    )
                }
            };
            ctx.case(&format!("vkparse:{vname}"), true, &format!("vkparse {shape} {}", hex(&vb)), &ans);
        }
    }
    // transcript identity recomputed by the model from the raw byte image and the description
    let raw = vk.to_bytes(SerdeFormat::RawBytesUnchecked);
    let desc = vk_desc(vk);
    ctx.case(
        "trepr",
        true,
        &format!("trepr nf={nfixed} np={nperm} {} {}", hex(&raw), hex(desc.as_bytes())),
        &fhex(&vk.transcript_repr()),
    );
    ctx.count_n("trepr:desc-bytes", desc.len() as u64);
}

/// Write in A, read in B, for verifying and proving keys.
pub fn roundtrip_matrix(ctx: &mut Ctx, s: &FamSubject) -> (Vec<(String, VK)>, Vec<(String, PK)>) {
    let base = vk_image(&s.vk);
    let base_full = pk_full_digest(&s.pk);
    let mut vks = vec![];
    let mut pks = vec![];
    for (ai, (fa, an)) in FORMATS.iter().enumerate() {
        let vkb = s.vk.to_bytes(*fa);
        let pkb = s.pk.to_bytes(*fa);
        for (fb, bn) in FORMATS.iter() {
            let pair = format!("{an}->{bn}");
            ctx.count(&format!("roundtrip:{pair}"));
            // verifying key
            match read_vk(&vkb, *fb, &s.fp) {
                Err(p) => {
                    if compatible(an, bn) {
                        ctx.oracle_fail(&format!("vk-read-panic:{pair}"), "VerifyingKey::read panicked on its own output", json!({"subject": s.desc(), "pair": pair, "panic": p}));
                    } else {
                        ctx.count(&format!("mismatch-rejected:vk:{pair}:panic"));
                    }
                }
                Ok(Ok(v2)) => {
                    if !compatible(an, bn) {
                        ctx.oracle_fail(&format!("vk-format-mismatch-accepted:{pair}"), "a verifying key written in one format was accepted when read in an incompatible one", json!({"subject": s.desc(), "pair": pair}));
                    } else {
                        let img = vk_image(&v2);
                        if img.bytes[ai] != vkb {
                            ctx.oracle_fail(&format!("vk-roundtrip-bytes:{pair}"), "verifying key re-serialises to different bytes after write/read", json!({"subject": s.desc(), "pair": pair}));
                        } else if img != base {
                            let which = if img.repr != base.repr { "transcript_repr" } else if img.desc != base.desc { "description" } else { "bytes-other-format" };
                            ctx.oracle_fail(&format!("vk-roundtrip-identity:{which}:{pair}"), "verifying key has another identity after write/read", json!({"subject": s.desc(), "pair": pair, "differs": which}));
                        }
                        vks.push((pair.clone(), v2));
                    }
                }
                Ok(Err(code)) => {
                    if compatible(an, bn) {
                        ctx.oracle_fail(&format!("vk-roundtrip-rejected:{pair}"), "verifying key written then read in a compatible format was rejected", json!({"subject": s.desc(), "pair": pair, "err": code}));
                    } else {
                        ctx.count(&format!("mismatch-rejected:vk:{pair}:{code}"));
                    }
                }
            }
            // proving key
            match read_pk(&pkb, *fb, &s.fp) {
                Err(p) => {
                    if compatible(an, bn) {
                        ctx.oracle_fail(&format!("pk-read-panic:{pair}"), "ProvingKey::read panicked on its own output", json!({"subject": s.desc(), "pair": pair, "panic": p}));
                    } else {
                        ctx.count(&format!("mismatch-rejected:pk:{pair}:panic"));
                    }
                }
                Ok(Ok(p2)) => {
                    if !compatible(an, bn) {
                        ctx.oracle_fail(&format!("pk-format-mismatch-accepted:{pair}"), "a proving key written in one format was accepted when read in an incompatible one", json!({"subject": s.desc(), "pair": pair}));
                    } else {
                        if p2.to_bytes(*fa) != pkb {
                            ctx.oracle_fail(&format!("pk-roundtrip-bytes:{pair}"), "proving key re-serialises to different bytes after write/read", json!({"subject": s.desc(), "pair": pair}));
                        }
                        if vk_image(p2.get_vk()) != base {
                            ctx.oracle_fail(&format!("pk-roundtrip-vk-identity:{pair}"), "the verifying key inside a reloaded proving key has another identity", json!({"subject": s.desc(), "pair": pair}));
                        }
                        if pk_full_digest(&p2) != base_full {
                            ctx.oracle_fail(&format!("pk-roundtrip-derived:{pair}"), "the parts a reloaded proving key recomputes (l0, l_last, l_active_row, polys, cosets, evaluator) differ from the generated key's", json!({"subject": s.desc(), "pair": pair}));
                        }
                        pks.push((pair.clone(), p2));
                    }
                }
                Ok(Err(code)) => {
                    if compatible(an, bn) {
                        ctx.oracle_fail(&format!("pk-roundtrip-rejected:{pair}"), "proving key written then read in a compatible format was rejected", json!({"subject": s.desc(), "pair": pair, "err": code}));
                    } else {
                        ctx.count(&format!("mismatch-rejected:pk:{pair}:{code}"));
                    }
                }
            }
        }
    }
    (vks, pks)
}

/// Proofs made with original / reloaded pk, verified with original / reloaded vk.
pub fn proof_matrix(ctx: &mut Ctx, s: &FamSubject, vks: &[(String, VK)], pks: &[(String, PK)], all: bool) {
    let wseed = s.seed + 17;
    let p0 = match fam_prove(&s.params, &s.pk, &s.fp, wseed) {
        Ok(p) => p,
        Err(e) => {
            ctx.oracle_fail("honest-proof-failed", "proving with the generated key failed", json!({"subject": s.desc(), "err": e}));
            return;
        }
    };
    // (proof bytes are not compared: the prover draws from OsRng, vanishing/prover.rs)
    // verifying keys: original, reloaded, and the one inside each reloaded pk
    let mut vlist: Vec<(String, &VK)> = vec![("orig".into(), &s.vk)];
    for (n, v) in vks {
        vlist.push((format!("vk:{n}"), v));
    }
    for (n, p) in pks {
        vlist.push((format!("pk.vk:{n}"), p.get_vk()));
    }
    let mut plist: Vec<(String, &PK)> = vec![("orig".into(), &s.pk)];
    for (n, p) in pks {
        plist.push((format!("pk:{n}"), p));
    }
    if !all {
        // quick: one reloaded pk per written format
        plist.retain(|(n, _)| n == "orig" || n.ends_with("P->P") || n.ends_with("R->R") || n.ends_with("R->U"));
    }
    // a mutated proof and a wrong statement, to compare rejections
    let mut bad = p0.clone();
    let mid = bad.len() / 2;
    bad[mid] ^= 0x10;
    for (pn, pk) in &plist {
        let proof = if pn == "orig" {
            p0.clone()
        } else {
            match fam_prove(&s.params, pk, &s.fp, wseed) {
                Ok(p) => p,
                Err(e) => {
                    ctx.oracle_fail(&format!("reloaded-pk-cannot-prove:{pn}"), "proving with a reloaded proving key failed", json!({"subject": s.desc(), "pk": pn, "err": e}));
                    continue;
                }
            }
        };
        ctx.count("proof:made");
        for (vn, vk) in &vlist {
            ctx.count("proof:verified-combination");
            match fam_verify(&s.params, vk, &s.fp, wseed, &proof) {
                Ok(true) => {}
                other => ctx.oracle_fail(&format!("cross-verify-rejected:{pn}:{vn}"), "honest proof rejected under an original/reloaded key combination", json!({"subject": s.desc(), "pk": pn, "vk": vn, "result": format!("{other:?}")})),
            }
        }
    }
    for (vn, vk) in &vlist {
        ctx.count("proof:rejection-compared");
        let r1 = fam_verify(&s.params, vk, &s.fp, wseed, &bad);
        let same_statement = FamCircuit::new(s.fp.clone(), wseed).instances() == FamCircuit::new(s.fp.clone(), wseed + 1).instances();
        let r2 = if same_statement { Ok(false) } else { fam_verify(&s.params, vk, &s.fp, wseed + 1, &p0) };
        if r1 != Ok(false) || r2 != Ok(false) {
            ctx.oracle_fail(&format!("reloaded-vk-accepts-more:{vn}"), "a key accepted a mutated proof / wrong statement", json!({"subject": s.desc(), "vk": vn, "mutated": format!("{r1:?}"), "wrong-statement": format!("{r2:?}")}));
        }
    }
}

/// Correspondence `commit`: every commitment of the vk is `[p(s)]G` for the polynomial stored
/// in the pk (fixed values / permutations) and the secret `s` of the parameters.
pub fn commit_cases(ctx: &mut Ctx, s: &FamSubject, max_cols: usize) {
    let bytes = s.pk.to_bytes(SerdeFormat::RawBytes);
    let vklen = s.vk.to_bytes(SerdeFormat::RawBytes).len();
    let Some((fixed, used)) = ser::slice_polyvec(&bytes[vklen..]) else { return };
    let Some((perms, _)) = ser::slice_polyvec(&bytes[vklen + used..]) else { return };
    let sec = secret_of(s.srs_seed);
    let n = 1u64 << s.k;
    let lag = crate::params::lagrange_scalars(s.k, sec);
    let g = G1Projective::generator();
    let doit = |ctx: &mut Ctx, kind: &str, polys: &[Vec<F>], coms: &[G1Projective]| {
        if polys.len() != coms.len() {
            ctx.oracle_fail(&format!("pk-vk-count-mismatch:{kind}"), "number of stored polynomials differs from the number of commitments", s.desc());
            return;
        }
        for (i, (p, c)) in polys.iter().zip(coms.iter()).enumerate().take(max_cols) {
            if p.len() as u64 != n {
                ctx.oracle_fail(&format!("pk-poly-length:{kind}"), "stored polynomial has a length other than 2^k", s.desc());
                continue;
            }
            let scalar: F = p.iter().zip(lag.iter()).map(|(v, l)| *v * *l).sum();
            let ok = (g * scalar).to_affine() == c.to_affine();
            if !ok {
                ctx.oracle_fail(&format!("commitment-not-function-of-stored-values:{kind}"), "a vk commitment is not the commitment of the values stored in the pk under the parameters' secret", json!({"subject": s.desc(), "kind": kind, "column": i}));
            }
            let vals = p.iter().map(fhex).collect::<Vec<_>>().join(",");
            ctx.case(
                &format!("commit:{kind}"),
                true,
                &format!("commit k={} s={} {}", s.k, fhex(&sec), vals),
                &if ok { fhex(&scalar) } else { "MISMATCH".into() },
            );
        }
    };
    doit(ctx, "fixed", &fixed, s.vk.fixed_commitments());
    doit(ctx, "perm", &perms, s.vk.permutation().commitments());
}

/// Correspondence `pkparse`: the model's `readPK` on the real proving-key byte image; impl =
/// independent slicing with the real field decoder.
pub fn pk_bytes_case(ctx: &mut Ctx, s: &FamSubject) {
    let nfixed = s.vk.fixed_commitments().len();
    let nperm = s.vk.permutation().commitments().len();
    let deg = s.vk.cs().degree();
    for (fmt, fname) in FORMATS {
        let bytes = s.pk.to_bytes(fmt);
        let vklen = s.vk.to_bytes(fmt).len();
        if bytes[..vklen] != s.vk.to_bytes(fmt)[..] {
            ctx.oracle_fail("pk-bytes-prefix", "pk byte image does not start with the vk byte image", s.desc());
        }
        let Some((fixed, used)) = ser::slice_polyvec(&bytes[vklen..]) else {
            ctx.oracle_fail("pk-bytes-unsliceable", "pk byte image does not have the documented structure", s.desc());
            return;
        };
        let Some((perms, used2)) = ser::slice_polyvec(&bytes[vklen + used..]) else {
            ctx.oracle_fail("pk-bytes-unsliceable", "pk byte image does not have the documented structure", s.desc());
            return;
        };
        let chk: F = fixed.iter().chain(perms.iter()).flat_map(|p| p.iter().copied()).sum();
        let lens = |v: &Vec<Vec<F>>| mzkh::join(&v.iter().map(|p| p.len()).collect::<Vec<_>>());
        let ans = format!(
            "ok k={} fixed={} perm={} chk={} rest={} rewrite=1 len={}",
            s.k,
            lens(&fixed),
            lens(&perms),
            fhex(&chk),
            bytes.len() - vklen - used - used2,
            bytes.len()
        );
        ctx.case("pkparse", true, &format!("pkparse fmt={fname} nf={nfixed} np={nperm} deg={deg} {}", hex(&bytes)), &ans);
        if s.pk.bytes_length(fmt) != bytes.len() {
            ctx.count("note:pk.bytes_length!=to_bytes.len");
        }
        // truncated inside the polynomial section: real reader must refuse
        let cut = bytes.len() - 5;
        let r = read_pk(&bytes[..cut], fmt, &s.fp);
        let ans = match r {
            Err(p) => {
                if fname != "U" {
                    ctx.oracle_fail("pk-read-panic:truncated", "ProvingKey::read panicked on a truncated key", json!({"subject": s.desc(), "panic": p}));
                }
                "panic".into()
            }
            Ok(Err(c)) => format!("err {c}"),
            Ok(Ok(_)) => "ok".to_string(),
        };
        ctx.case("pkparse:truncated", true, &format!("pkparse fmt={fname} nf={nfixed} np={nperm} deg={deg} {}", hex(&bytes[..cut])), &ans);
    }
}

/// The family circuit laid out by the `V1` floor planner (two passes, region sorting, hash-map
/// based column allocation) instead of `SimpleFloorPlanner`.
#[derive(Clone, Debug)]
pub struct V1Fam(pub FamCircuit);

impl midnight_proofs::plonk::Circuit<F> for V1Fam {
    type Config = <FamCircuit as midnight_proofs::plonk::Circuit<F>>::Config;
    type FloorPlanner = midnight_proofs::circuit::floor_planner::V1;
    type Params = FamParams;
    fn without_witnesses(&self) -> Self {
        V1Fam(self.0.without_witnesses())
    }
    fn params(&self) -> FamParams {
        self.0.params()
    }
    fn configure(_: &mut midnight_proofs::plonk::ConstraintSystem<F>) -> Self::Config {
        unreachable!()
    }
    fn configure_with_params(meta: &mut midnight_proofs::plonk::ConstraintSystem<F>, p: FamParams) -> Self::Config {
        FamCircuit::configure_with_params(meta, p)
    }
    fn synthesize(&self, cfg: Self::Config, layouter: impl midnight_proofs::circuit::Layouter<F>) -> Result<(), midnight_proofs::plonk::Error> {
        self.0.synthesize(cfg, layouter)
    }
}

/// Determinism, write/read and one proof for the family member under the V1 floor planner.
pub fn v1_case(ctx: &mut Ctx, fp: &FamParams, seed: u64, reps: usize) {
    use midnight_proofs::plonk::Circuit;
    let c = V1Fam(FamCircuit::new(fp.clone(), seed));
    let desc = json!({"family": format!("{fp:?}"), "seed": seed, "floor_planner": "V1"});
    let mut k = 4;
    let (params, vk, pk) = loop {
        let params = setup(k, 1000 + k as u64);
        match mzkh::catch(|| keygen_vk_with_k::<F, Scheme, _>(&params, &c, k)) {
            Ok(Ok(vk)) => {
                let pk = keygen_pk(vk.clone(), &c).unwrap();
                break (params, vk, pk);
            }
            _ if k < 10 => k += 1,
            other => {
                ctx.count(&format!("v1:keygen-failed:{}", other.is_err()));
                return;
            }
        }
    };
    ctx.count(&format!("v1:k{k}"));
    let base = vk_image(&vk);
    let base_full = pk_full_digest(&pk);
    for &t in POOLS.iter() {
        for rep in 0..reps {
            ctx.count(&format!("keygen:v1:pool{t}"));
            let (v2, p2) = in_pool(t, || {
                let v = keygen_vk_with_k::<F, Scheme, _>(&params, &c, k).unwrap();
                let p = keygen_pk(v.clone(), &c).unwrap();
                (v, p)
            });
            if vk_image(&v2) != base {
                ctx.oracle_fail("keygen-nondeterministic:vk:v1", "two key generations (V1 floor planner) gave different verifying keys", json!({"case": desc, "threads": t, "rep": rep}));
            }
            if pk_full_digest(&p2) != base_full {
                ctx.oracle_fail("keygen-nondeterministic:pk:v1", "two key generations (V1 floor planner) gave different proving keys", json!({"case": desc, "threads": t, "rep": rep}));
            }
        }
    }
    for (fmt, fname) in FORMATS {
        let r = mzkh::catch(|| PK::from_bytes::<V1Fam>(&pk.to_bytes(fmt), fmt, fp.clone()));
        match r {
            Ok(Ok(p2)) => {
                if pk_full_digest(&p2) != base_full || vk_image(p2.get_vk()) != base {
                    ctx.oracle_fail(&format!("pk-roundtrip-derived:v1:{fname}"), "reloaded proving key (V1 floor planner) differs from the generated one", desc.clone());
                }
            }
            other => ctx.oracle_fail(&format!("pk-roundtrip-rejected:v1:{fname}"), "proving key (V1 floor planner) written then read was rejected", json!({"case": desc, "result": format!("{:?}", other.map(|r| r.map(|_| "ok").map_err(|e| e.to_string())))})),
        }
    }
    // one proof (the InstRot gate's witness is only valid for the layout of the simple floor
    // planner: it reads the instance column at the absolute rows of the first region)
    if fp.gates.contains(&mzkh::family::GateKind::InstRot) {
        ctx.count("v1:proof-skipped-layout-dependent-witness");
        return;
    }
    let wc = V1Fam(FamCircuit::new(fp.clone(), seed + 5));
    let insts = wc.0.instances();
    let refs: Vec<&[F]> = insts.iter().map(|c| &c[..]).collect();
    let proof = mzkh::catch(|| {
        let mut tr = CircuitTranscript::<Blake2bState>::init();
        create_proof::<F, Scheme, _, _>(&params, &pk, std::slice::from_ref(&wc), fp.n_committed, &[&refs[..]], ChaCha8Rng::seed_from_u64(5), &mut tr)
            .map(|_| tr.finalize())
            .map_err(|e| format!("{e:?}"))
    });
    match proof {
        Ok(Ok(p)) => {
            if fam_verify(&params, &vk, fp, seed + 5, &p) != Ok(true) {
                ctx.oracle_fail("honest-proof-rejected:v1", "honest proof (V1 floor planner) rejected", desc.clone());
            }
            ctx.count("proof:v1");
        }
        other => ctx.oracle_fail("honest-proof-failed:v1", "proving (V1 floor planner) failed", json!({"case": desc, "result": format!("{other:?}")})),
    }
    let _ = c.params();
}


/// Checksum of a vector of field elements: its length and its value as a polynomial at the
/// point `0x10001` (the Lean driver's `ck`).
pub fn ck(v: &[F]) -> String {
    let x = F::from(0x10001u64);
    let mut acc = F::ZERO;
    for c in v.iter().rev() {
        acc = acc * x + *c;
    }
    format!("{}:{}", v.len(), fhex(&acc))
}

fn cks(vs: &[Vec<F>]) -> String {
    if vs.is_empty() {
        "-".into()
    } else {
        vs.iter().map(|v| ck(v)).collect::<Vec<_>>().join(",")
    }
}

/// The recomputed parts of a proving key in the order and by the names of the Lean driver's
/// `pkfull` answer.
pub fn derived_line(pk: &PK) -> String {
    let (parts, _) = pk.verif_derived_parts();
    let get = |name: &str| -> Vec<Vec<F>> { parts.iter().find(|(n, _)| *n == name).map(|(_, v)| v.clone()).unwrap_or_default() };
    let one = |name: &str| -> String { get(name).first().map(|v| ck(v)).unwrap_or_else(|| "missing".into()) };
    format!(
        "ok ek={} l0={} l_last={} l_active_row={} fixed_polys={} fixed_cosets={} permutation_polys={} permutation_cosets={}",
        pk.get_vk().get_domain().extended_k(),
        one("l0"),
        one("l_last"),
        one("l_active_row"),
        cks(&get("fixed_polys")),
        cks(&get("fixed_cosets")),
        cks(&get("permutation_polys")),
        cks(&get("permutation_cosets"))
    )
}

/// Correspondence `pkfull`: the Lean model of the tail of `keygen_pk` (`via=keygen`) and of
/// `ProvingKey::read` (`via=read`) on the real byte image, against the recomputed parts of the
/// real generated / reloaded key (through the `verif_derived_parts` hook), part by part. The
/// generated key is made under pool `t`, the reloaded one is read under pool `t2`.
pub fn pk_full_cases(ctx: &mut Ctx, s: &FamSubject, idx: usize, every_format: bool) {
    let nfixed = s.vk.fixed_commitments().len();
    let nperm = s.vk.permutation().commitments().len();
    let cs = s.vk.cs();
    let (deg, bf) = (cs.degree(), cs.blinding_factors());
    let t = POOLS[idx % POOLS.len()];
    let t2 = POOLS[(idx + 2) % POOLS.len()];
    let pk_t = in_pool(t, || keygen_pk(s.vk.clone(), &s.circuit).unwrap());
    let rawb = pk_t.to_bytes(SerdeFormat::RawBytes);
    ctx.case(
        "pkfull:keygen",
        true,
        &format!("pkfull via=keygen fmt=R nf={nfixed} np={nperm} deg={deg} bf={bf} t={t} {}", hex(&rawb)),
        &derived_line(&pk_t),
    );
    for (fi, (fmt, fname)) in FORMATS.iter().enumerate() {
        if !every_format && fi != idx % 3 {
            continue;
        }
        let bytes = pk_t.to_bytes(*fmt);
        let r = in_pool(t2, || read_pk(&bytes, *fmt, &s.fp));
        let ans = match r {
            Ok(Ok(p2)) => {
                // independent of the model: field by field against the generated key
                let (a, _) = pk_t.verif_derived_parts();
                let (b, _) = p2.verif_derived_parts();
                for ((na, va), (_, vb)) in a.iter().zip(b.iter()) {
                    if va != vb {
                        ctx.oracle_fail(
                            &format!("pk-reloaded-part-differs:{na}:{fname}"),
                            "a part that ProvingKey::read recomputes differs from the generated key's",
                            json!({"subject": s.desc(), "part": na, "fmt": fname, "threads-keygen": t, "threads-read": t2}),
                        );
                    }
                }
                derived_line(&p2)
            }
            Ok(Err(c)) => format!("err {c}"),
            Err(_) => "panic".into(),
        };
        ctx.case(
            "pkfull:read",
            true,
            &format!("pkfull via=read fmt={fname} nf={nfixed} np={nperm} deg={deg} bf={bf} t={t2} {}", hex(&bytes)),
            &ans,
        );
        // key files whose polynomial lists do not fit the circuit: one fixed / permutation
        // polynomial too few or too many, or a polynomial one value too short / too long
        // (`read_polynomial_vec` takes every count and length from the file; since /repo commit
        // c2433f0 `ProvingKey::read` checks them — before, the short list panicked with index
        // out of bounds, a wrong length on an assertion, and surplus / missing columns were
        // accepted: regression cases, the answer is `err shape` in every format)
        if nperm >= 1 && nfixed >= 1 && every_format {
            let vklen = s.vk.to_bytes(*fmt).len();
            let Some((fixed, used)) = ser::slice_polyvec(&bytes[vklen..]) else { continue };
            let Some((perms, _)) = ser::slice_polyvec(&bytes[vklen + used..]) else { continue };
            let enc = |f: &Vec<Vec<F>>, p: &Vec<Vec<F>>| -> Vec<u8> {
                let mut out = bytes[..vklen].to_vec();
                for list in [f, p] {
                    out.extend_from_slice(&(list.len() as u32).to_be_bytes());
                    for poly in list {
                        out.extend_from_slice(&(poly.len() as u32).to_be_bytes());
                        for v in poly {
                            out.extend_from_slice(&ser::f_raw(v));
                        }
                    }
                }
                out
            };
            if enc(&fixed, &perms) != bytes {
                ctx.oracle_fail("pk-bytes-reencode", "re-encoding the sliced polynomial lists does not give back the key image", s.desc());
            }
            let drop_last = |l: &Vec<Vec<F>>| l[..l.len() - 1].to_vec();
            let dup_last = |l: &Vec<Vec<F>>| {
                let mut v = l.clone();
                v.push(l[l.len() - 1].clone());
                v
            };
            let relen = |l: &Vec<Vec<F>>, longer: bool| {
                let mut v = l.clone();
                let last = v.last_mut().unwrap();
                if longer {
                    last.push(F::ONE);
                } else {
                    last.pop();
                }
                v
            };
            let variants: Vec<(&str, Vec<u8>)> = vec![
                ("perm-short", enc(&fixed, &drop_last(&perms))),
                ("perm-long", enc(&fixed, &dup_last(&perms))),
                ("fixed-short", enc(&drop_last(&fixed), &perms)),
                ("fixed-long", enc(&dup_last(&fixed), &perms)),
                ("perm-poly-short", enc(&fixed, &relen(&perms, false))),
                ("perm-poly-long", enc(&fixed, &relen(&perms, true))),
                ("fixed-poly-short", enc(&relen(&fixed, false), &perms)),
                ("fixed-poly-long", enc(&relen(&fixed, true), &perms)),
            ];
            for (vname, vb) in variants {
                let ans = match read_pk(&vb, *fmt, &s.fp) {
                    Ok(Ok(p2)) => {
                        ctx.oracle_fail(
                            &format!("pk-read-accepts:{vname}:{fname}"),
                            "ProvingKey::read accepted a key file whose polynomial lists do not fit the circuit (number of polynomials / number of values)",
                            json!({"subject": s.desc(), "variant": vname, "fmt": fname}),
                        );
                        derived_line(&p2)
                    }
                    Ok(Err(c)) => format!("err {c}"),
                    Err(pn) => {
                        // (also for the unchecked format: the count and the lengths are
                        // structure, not element encodings)
                        ctx.oracle_fail(
                            &format!("pk-read-panic:{vname}:{fname}"),
                            "ProvingKey::read panicked on a key file whose polynomial lists do not fit the circuit (number of polynomials / number of values)",
                            json!({"subject": s.desc(), "variant": vname, "fmt": fname, "panic": pn}),
                        );
                        "panic".into()
                    }
                };
                ctx.case(
                    &format!("pkfull:{vname}"),
                    true,
                    &format!("pkfull via=read fmt={fname} nf={nfixed} np={nperm} deg={deg} bf={bf} t=1 {}", hex(&vb)),
                    &ans,
                );
            }
        }
    }
}

/// Keys and proofs under two parameter sets that must be the same set (original vs reloaded /
/// downsized): byte-identical vk, identical pk (stored and recomputed parts), proofs made
/// under either accepted under the other (commitments to instances and verifier parameters
/// taken from the verifying side's set).
pub fn params_interchangeable(ctx: &mut Ctx, label: &str, fp: &FamParams, seed: u64, k: u32, a: &ParamsKZG<Bls12>, b: &ParamsKZG<Bls12>, detail: serde_json::Value) {
    let circuit = FamCircuit::new(fp.clone(), seed);
    let gen = |p: &ParamsKZG<Bls12>| -> Result<(VK, PK), String> {
        mzkh::catch(|| {
            let vk = keygen_vk_with_k::<F, Scheme, _>(p, &circuit, k).map_err(|e| format!("{e:?}"))?;
            let pk = keygen_pk(vk.clone(), &circuit).map_err(|e| format!("{e:?}"))?;
            Ok((vk, pk))
        })
        .and_then(|r| r)
    };
    let (ka, kb) = match (gen(a), gen(b)) {
        (Ok(x), Ok(y)) => (x, y),
        (x, y) => {
            ctx.oracle_fail(
                &format!("params-keygen-failed:{label}"),
                "key generation failed under one of two parameter sets that should be the same",
                json!({"case": detail, "a": x.err(), "b": y.err()}),
            );
            return;
        }
    };
    ctx.count(&format!("params-interchange:{label}"));
    if vk_image(&ka.0) != vk_image(&kb.0) {
        ctx.oracle_fail(
            &format!("params-vk-differs:{label}"),
            "the same circuit gets a different verifying key under a reloaded / downsized parameter set",
            json!({"case": detail}),
        );
    }
    if pk_full_digest(&ka.1) != pk_full_digest(&kb.1) {
        ctx.oracle_fail(&format!("params-pk-differs:{label}"), "the same circuit gets a different proving key under a reloaded / downsized parameter set", json!({"case": detail}));
    }
    let wseed = seed + 41;
    for (pn, pp, ppk, vp, vvk) in [("a->b", a, &ka.1, b, &kb.0), ("b->a", b, &kb.1, a, &ka.0)] {
        match fam_prove(pp, ppk, fp, wseed).map(|proof| fam_verify(vp, vvk, fp, wseed, &proof)) {
            Ok(Ok(true)) => ctx.count("proof:across-parameter-sets"),
            other => ctx.oracle_fail(
                &format!("params-proof-not-interchangeable:{label}:{pn}"),
                "a proof made under one parameter set is rejected under a parameter set that should be the same",
                json!({"case": detail, "direction": pn, "result": format!("{other:?}")}),
            ),
        }
    }
}


/// Identity of the keys of the family member laid out by the V1 floor planner (`None` if it
/// does not fit `k <= 10`).
pub fn v1_identity(fp: &FamParams, seed: u64) -> Option<String> {
    let c = V1Fam(FamCircuit::new(fp.clone(), seed));
    for k in 4..=10u32 {
        let params = setup(k, 1000 + k as u64);
        if let Ok(Ok(vk)) = mzkh::catch(|| keygen_vk_with_k::<F, Scheme, _>(&params, &c, k)) {
            let pk = keygen_pk(vk.clone(), &c).ok()?;
            let img = vk_image(&vk);
            return Some(format!("k={k} vk={} trepr={} derived={}", hex(&blake2b_simd::Params::new().hash_length(16).hash(&img.bytes[1]).as_bytes()[..]), img.repr, pk_full_digest(&pk)));
        }
    }
    None
}


/// Correspondence `perminv` (see the driver): classes of the cells under the requested copies.
pub fn perminv_case(ctx: &mut Ctx, k: u32, ncols: usize, copies: &[(usize, usize, usize, usize)], variant: bool) {
    let n = 1usize << k;
    let mut label: Vec<usize> = (0..ncols * n).collect();
    for (a, b, c, d) in copies {
        let (la, lb) = (label[a * n + b], label[c * n + d]);
        if la != lb {
            let keep = la.min(lb);
            let drop = la.max(lb);
            for l in label.iter_mut() {
                if *l == drop {
                    *l = keep;
                }
            }
        }
    }
    // labels are least indices by construction (a class keeps the smaller label)
    let mut count = std::collections::BTreeMap::new();
    for l in &label {
        *count.entry(*l).or_insert(0usize) += 1;
    }
    let mx = count.values().copied().max().unwrap_or(0);
    let sum = label.iter().enumerate().fold(0u64, |acc, (i, l)| (acc + (i as u64 + 1) * (*l as u64)) % 1_000_000_007);
    let cs: Vec<String> = copies.iter().map(|(a, b, c, d)| format!("{a}.{b}.{c}.{d}")).collect();
    ctx.case(
        if variant { "perminv:reordered" } else { "perminv" },
        !copies.is_empty(),
        &format!("perminv k={k} ncols={ncols} copies={}", if cs.is_empty() { "-".into() } else { cs.join(",") }),
        &format!("ok classes={} max={mx} sum={sum}", count.len()),
    );
}
