//! `ParamsKZG`: write/read matrix, downsize to every k' ≤ k against a fresh setup from the same
//! secret, and the scalar-level correspondence of both bases with the Lean model.

use ff::{Field, PrimeField};
use group::{Curve, Group};
use midnight_curves::{Bls12, Fq as F, G1Projective, G2Projective};
use midnight_proofs::{
    poly::{
        commitment::{Params, PolynomialCommitmentScheme},
        kzg::{
            params::{ParamsKZG, ParamsVerifierKZG},
            KZGCommitmentScheme,
        },
        EvaluationDomain,
    },
    utils::SerdeFormat,
};
use mzkh::family::FamParams;
use mzkh::Ctx;
use serde_json::json;

use crate::{
    keys::{in_pool, params_interchangeable, secret_of, setup, POOLS},
    ser::{compatible, fhex, g1_bytes, g1_len, g2_bytes, hex, FORMATS},
};

/// `L_i(s)` for the size-`2^k` domain, by the closed formula used in `unsafe_setup`
/// (independent re-implementation: own root derivation, own loop).
pub fn lagrange_scalars(k: u32, s: F) -> Vec<F> {
    let n = 1u64 << k;
    let mut root = F::ROOT_OF_UNITY;
    for _ in k..F::S {
        root = root.square();
    }
    let n_inv = F::from(n).invert().unwrap();
    let mult = (s.pow_vartime([n]) - F::ONE) * n_inv;
    let mut out = Vec::with_capacity(n as usize);
    let mut w = F::ONE;
    for _ in 0..n {
        out.push(mult * w * (s - w).invert().unwrap());
        w *= root;
    }
    out
}

pub fn params_bytes(p: &ParamsKZG<Bls12>, fmt: SerdeFormat) -> Vec<u8> {
    let mut v = vec![];
    p.write_custom(&mut v, fmt).unwrap();
    v
}

fn read_params(b: &[u8], fmt: SerdeFormat) -> Result<Result<ParamsKZG<Bls12>, String>, String> {
    mzkh::catch(|| {
        let mut r = b;
        ParamsKZG::<Bls12>::read_custom(&mut r, fmt).map(|p| (p, r.len())).map_err(|e| e.to_string())
    })
    .map(|r| r.map(|(p, _)| p))
}

/// Slice the raw image: (g, g_lagrange, g2, s_g2) as byte chunks.
fn slice_params(b: &[u8], fmt: SerdeFormat) -> Option<(u32, Vec<Vec<u8>>, Vec<Vec<u8>>, Vec<u8>, Vec<u8>)> {
    let k = u32::from_le_bytes(b.get(..4)?.try_into().ok()?);
    let n = 1usize << k;
    let l1 = g1_len(fmt);
    let l2 = 2 * l1;
    if b.len() != 4 + 2 * n * l1 + 2 * l2 {
        return None;
    }
    let g = (0..n).map(|i| b[4 + i * l1..4 + (i + 1) * l1].to_vec()).collect();
    let gl = (0..n).map(|i| b[4 + (n + i) * l1..4 + (n + i + 1) * l1].to_vec()).collect();
    let o = 4 + 2 * n * l1;
    Some((k, g, gl, b[o..o + l2].to_vec(), b[o + l2..].to_vec()))
}


type Scheme = KZGCommitmentScheme<Bls12>;

/// (b) of the reload oracle: under parameter set `p` (size `2^k`, secret `s`) the monomial
/// basis and the Lagrange basis describe the same commitment function: `commit(f)` (monomial
/// basis) = `commit_lagrange(values of f on the domain)` (Lagrange basis) = `[f(s)]G`, for the
/// monomials `1, X, X^(n-1)`, and seeded random polynomials. Returns the first failure.
pub fn bases_consistent(p: &ParamsKZG<Bls12>, k: u32, s: F, rng: &mut impl rand::RngCore) -> Result<(), String> {
    let n = 1usize << k;
    if p.max_k() != k || p.g_lagrange().len() != n {
        return Err(format!("size: max_k={} g_lagrange.len={}", p.max_k(), p.g_lagrange().len()));
    }
    let dom = EvaluationDomain::<F>::new(3, k);
    let g = G1Projective::generator();
    let mut polys: Vec<(String, Vec<F>)> = vec![];
    for i in [0usize, 1, n / 2, n - 1] {
        if i < n {
            let mut c = vec![F::ZERO; n];
            c[i] = F::ONE;
            polys.push((format!("X^{i}"), c));
        }
    }
    for j in 0..2 {
        polys.push((format!("random{j}"), (0..n).map(|_| F::random(&mut *rng)).collect()));
    }
    for (name, coeffs) in polys {
        let f = dom.coeff_from_vec(coeffs.clone());
        let c1 = Scheme::commit(p, &f);
        let evals = dom.coeff_to_lagrange(f);
        let c2 = Scheme::commit_lagrange(p, &evals);
        // f(s) by Horner
        let mut fs = F::ZERO;
        for c in coeffs.iter().rev() {
            fs = fs * s + *c;
        }
        let want = (g * fs).to_affine();
        if c1.to_affine() != want {
            return Err(format!("commit({name}) is not [f(s)]G: the monomial basis is not [s^i]G"));
        }
        if c2.to_affine() != want {
            return Err(format!("commit_lagrange({name}) differs from commit({name}): the Lagrange basis does not belong to the monomial basis"));
        }
    }
    Ok(())
}

/// Everything observable of a parameter set: the three byte images, the Lagrange basis and
/// the G2 elements through the accessors.
fn params_view(p: &ParamsKZG<Bls12>) -> (Vec<Vec<u8>>, Vec<Vec<u8>>, Vec<u8>, Vec<u8>) {
    (
        FORMATS.iter().map(|(f, _)| params_bytes(p, *f)).collect(),
        p.g_lagrange().iter().map(|q| g1_bytes(q, SerdeFormat::RawBytes)).collect(),
        g2_bytes(&p.g2(), SerdeFormat::RawBytes),
        g2_bytes(&p.s_g2(), SerdeFormat::RawBytes),
    )
}

/// The reload oracle for one parameter set `orig` of size `2^k` from secret `s`: for every
/// (write format, read format): compatible pairs must give back a set with (a) identical byte
/// images in all formats and identical accessors, (b) consistent bases, (c) the same keys and
/// interchangeable proofs for a family circuit that fits (`circuit_k <= k`: both sets are
/// downsized to `circuit_k` first).
pub fn reload_oracle(ctx: &mut Ctx, what: &str, orig: &ParamsKZG<Bls12>, k: u32, s: F, desc: &serde_json::Value, circuit: Option<(&FamParams, u64, u32)>) {
    let base = params_view(orig);
    let mut rng = ctx.rng(&format!("reload:{what}:{k}"));
    if let Err(e) = bases_consistent(orig, k, s, &mut rng) {
        ctx.oracle_fail(&format!("params-bases-inconsistent:{what}:orig"), "monomial and Lagrange bases of a parameter set do not commit consistently", json!({"case": desc, "what": what, "why": e}));
    }
    for (fa, an) in FORMATS.iter() {
        let bytes = params_bytes(orig, *fa);
        for (fb, bn) in FORMATS.iter() {
            if !compatible(an, bn) {
                continue;
            }
            let pair = format!("{an}->{bn}");
            ctx.count(&format!("params-reload:{what}:{pair}"));
            let p2 = match read_params(&bytes, *fb) {
                Ok(Ok(p2)) => p2,
                other => {
                    ctx.oracle_fail(&format!("params-reload-rejected:{what}:{pair}"), "parameters written then read in a compatible format were rejected", json!({"case": desc, "what": what, "pair": pair, "result": format!("{:?}", other.map(|r| r.map(|_| "ok")))}));
                    continue;
                }
            };
            // (a)
            let v2 = params_view(&p2);
            if v2 != base || p2.max_k() != k {
                let which = if v2.0 != base.0 { "bytes" } else if v2.1 != base.1 { "g_lagrange" } else { "g2/s_g2" };
                ctx.oracle_fail(&format!("params-reload-differs:{what}:{which}:{pair}"), "a reloaded parameter set differs from the written one", json!({"case": desc, "what": what, "pair": pair, "differs": which}));
            }
            // (b)
            if let Err(e) = bases_consistent(&p2, k, s, &mut rng) {
                ctx.oracle_fail(&format!("params-bases-inconsistent:{what}:{pair}"), "monomial and Lagrange bases of a reloaded parameter set do not commit consistently (commit != commit_lagrange on the same polynomial)", json!({"case": desc, "what": what, "pair": pair, "why": e}));
            }
            // (c)
            if let Some((fp, seed, ck)) = circuit {
                if ck <= k {
                    let mut a = orig.clone();
                    a.downsize(ck);
                    let mut b = p2.clone();
                    b.downsize(ck);
                    params_interchangeable(ctx, &format!("{what}:{pair}"), fp, seed, ck, &a, &b, json!({"case": desc, "what": what, "pair": pair, "circuit_k": ck}));
                }
            }
        }
    }
}

pub fn params_cases(ctx: &mut Ctx, kmax: u32, srs_seed: u64, circuit: Option<(&FamParams, u64, u32)>) {
    let s = secret_of(srs_seed);
    let g = G1Projective::generator();
    let big = setup(kmax, srs_seed);
    let desc = json!({"k": kmax, "srs_seed": srs_seed});
    // setup is independent of the pool
    let base = params_bytes(&big, SerdeFormat::RawBytes);
    for &t in POOLS.iter() {
        ctx.count(&format!("setup:pool{t}"));
        let p = in_pool(t, || setup(kmax, srs_seed));
        if params_bytes(&p, SerdeFormat::RawBytes) != base {
            ctx.oracle_fail("setup-depends-on-threads", "unsafe_setup gave different parameters under another thread count", json!({"case": desc, "threads": t}));
        }
    }
    // write/read matrix
    for (fa, an) in FORMATS.iter() {
        let bytes = params_bytes(&big, *fa);
        match slice_params(&bytes, *fa) {
            None => ctx.oracle_fail("params-bytes-structure", "parameter byte image does not have the structure k | g | g_lagrange | g2 | s_g2", json!({"case": desc, "fmt": an})),
            Some((k, gs, gl, g2, sg2)) => {
                let ok = k == kmax
                    && gs.iter().enumerate().all(|(i, c)| *c == g1_bytes(&(g * s.pow_vartime([i as u64])), *fa))
                    && gl.iter().zip(big.g_lagrange()).all(|(c, p)| *c == g1_bytes(p, *fa))
                    && g2 == g2_bytes(&G2Projective::generator(), *fa)
                    && sg2 == g2_bytes(&(G2Projective::generator() * s), *fa);
                if !ok {
                    ctx.oracle_fail("params-bytes-content", "parameter byte image does not contain [s^i]G1, the Lagrange basis, G2, [s]G2 in this order", json!({"case": desc, "fmt": an}));
                }
                ctx.case(
                    "paramslayout",
                    true,
                    &format!("paramslayout fmt={an} k={kmax}"),
                    &format!("len={} g=4 gl={} g2={} sg2={}", bytes.len(), 4 + gs.len() * g1_len(*fa), 4 + 2 * gs.len() * g1_len(*fa), 4 + 2 * gs.len() * g1_len(*fa) + 2 * g1_len(*fa)),
                );
            }
        }
        for (fb, bn) in FORMATS.iter() {
            let pair = format!("{an}->{bn}");
            ctx.count(&format!("params-roundtrip:{pair}"));
            match read_params(&bytes, *fb) {
                Err(p) => {
                    // RawBytesUnchecked unwraps on a short read: a format mismatch is misuse, but
                    // it must not be *accepted*; a panic here is recorded, not a violation of C17.
                    if compatible(an, bn) {
                        ctx.oracle_fail(&format!("params-read-panic:{pair}"), "ParamsKZG::read_custom panicked on its own output", json!({"case": desc, "pair": pair, "panic": p}));
                    } else {
                        ctx.count(&format!("mismatch-rejected:params:{pair}:panic"));
                    }
                }
                Ok(Ok(p2)) => {
                    if !compatible(an, bn) {
                        ctx.oracle_fail(&format!("params-format-mismatch-accepted:{pair}"), "parameters written in one format were accepted when read in an incompatible one", json!({"case": desc, "pair": pair}));
                    } else if params_bytes(&p2, *fa) != bytes || p2.max_k() != kmax {
                        ctx.oracle_fail(&format!("params-roundtrip-bytes:{pair}"), "parameters re-serialise to different bytes after write/read", json!({"case": desc, "pair": pair}));
                    }
                }
                Ok(Err(e)) => {
                    if compatible(an, bn) {
                        ctx.oracle_fail(&format!("params-roundtrip-rejected:{pair}"), "parameters written then read in a compatible format were rejected", json!({"case": desc, "pair": pair, "err": e}));
                    } else {
                        ctx.count(&format!("mismatch-rejected:params:{pair}:err"));
                    }
                }
            }
        }
    }
    reload_oracle(ctx, "setup", &big, kmax, s, &desc, circuit);
    // verifier parameters: s_g2 only; written, read back, and used
    for (fa, an) in FORMATS.iter() {
        let vp = big.verifier_params();
        let mut vb = vec![];
        vp.write(&mut vb, *fa).unwrap();
        if vb != g2_bytes(&big.s_g2(), *fa) {
            ctx.oracle_fail("verifier-params-bytes", "ParamsVerifierKZG::write does not write s_g2 alone", json!({"case": desc, "fmt": an}));
        }
        for (fb, bn) in FORMATS.iter() {
            if !compatible(an, bn) {
                continue;
            }
            ctx.count("verifier-params-roundtrip");
            let r = mzkh::catch(|| {
                let mut rd = &vb[..];
                ParamsVerifierKZG::<Bls12>::read(&mut rd, *fb).map(|v| (v, rd.len())).map_err(|e| e.to_string())
            });
            match r {
                Ok(Ok((v2, rest))) => {
                    let mut vb2 = vec![];
                    v2.write(&mut vb2, *fa).unwrap();
                    if vb2 != vb || rest != 0 {
                        ctx.oracle_fail("verifier-params-roundtrip-bytes", "verifier parameters re-serialise to different bytes after write/read", json!({"case": desc, "pair": format!("{an}->{bn}")}));
                    }
                }
                other => ctx.oracle_fail("verifier-params-roundtrip-rejected", "verifier parameters written then read were rejected", json!({"case": desc, "pair": format!("{an}->{bn}"), "result": format!("{:?}", other.map(|r| r.map(|_| "ok")))})),
            }
        }
    }
    // downsize to every k' (also k' = kmax: no-op) under every pool
    for kp in 0..=kmax {
        let fresh = setup(kp, srs_seed);
        let fresh_b = params_bytes(&fresh, SerdeFormat::RawBytes);
        let lag = lagrange_scalars(kp, s);
        // scalar-level tie of the fresh setup with the closed formulas (both bases)
        let ok_fresh = fresh.g_lagrange().iter().zip(lag.iter()).all(|(p, l)| p.to_affine() == (g * *l).to_affine());
        if !ok_fresh {
            ctx.oracle_fail("setup-lagrange-basis", "g_lagrange of unsafe_setup is not [L_i(s)]G", json!({"k": kp, "srs_seed": srs_seed}));
        }
        // [s^i]G for the monomial basis, read from the byte image
        let ok_g = slice_params(&fresh_b, SerdeFormat::RawBytes)
            .map(|(_, gs, _, _, _)| gs.iter().enumerate().all(|(i, c)| *c == g1_bytes(&(g * s.pow_vartime([i as u64])), SerdeFormat::RawBytes)))
            .unwrap_or(false);
        let t = POOLS[kp as usize % POOLS.len()];
        ctx.case(
            "lagrange:setup",
            kp > 0,
            &format!("lagrange via=setup t={t} k={kp} s={}", fhex(&s)),
            &if ok_fresh { format!("g={} {}", ok_g as u8, lag.iter().map(fhex).collect::<Vec<_>>().join(",")) } else { "MISMATCH".into() },
        );
        for (pi, &t) in POOLS.iter().enumerate() {
            if kp == 0 && pi > 0 {
                break;
            }
            ctx.count(&format!("downsize:pool{t}"));
            let r = mzkh::catch(|| {
                in_pool(t, || {
                    let mut p = big.clone();
                    p.downsize(kp);
                    p
                })
            });
            match r {
                Err(pn) => ctx.oracle_fail("downsize-panic", "downsize to k' <= k panicked", json!({"case": desc, "to": kp, "threads": t, "panic": pn})),
                Ok(p) => {
                    let same = params_bytes(&p, SerdeFormat::RawBytes) == fresh_b && p.max_k() == kp;
                    if !same {
                        ctx.oracle_fail(&format!("downsize-differs-from-setup:{}", if kp == kmax { "same-k" } else { "smaller" }), "parameters downsized to k' differ from parameters derived for k' from the same secret", json!({"case": desc, "to": kp, "threads": t}));
                    }
                    if p.g2() != big.g2() || p.s_g2() != big.s_g2() {
                        ctx.oracle_fail("downsize-touches-g2", "downsize changed g2 / s_g2", json!({"case": desc, "to": kp, "threads": t}));
                    }
                    if pi == kp as usize % POOLS.len() {
                        // the downsized set: write/read in every format, consistent bases, and —
                        // when the circuit fits — the same keys and interchangeable proofs as a
                        // fresh setup of that size (commit / open / verify across the two)
                        let circ = circuit.filter(|c| c.2 == kp);
                        reload_oracle(ctx, "downsized", &p, kp, s, &json!({"case": desc, "to": kp, "threads": t}), circ);
                        if let Some((fp, seed, ck)) = circ {
                            params_interchangeable(ctx, "downsized-vs-fresh", fp, seed, ck, &p, &fresh, json!({"case": desc, "to": kp, "threads": t}));
                        }
                    }
                    if pi == 0 {
                        let ok = same
                            && p.g_lagrange().iter().zip(lag.iter()).all(|(q, l)| q.to_affine() == (g * *l).to_affine());
                        ctx.case(
                            "lagrange:downsize",
                            kp < kmax,
                            &format!("lagrange via=downsize from={kmax} k={kp} s={}", fhex(&s)),
                            &if ok { lag.iter().map(fhex).collect::<Vec<_>>().join(",") } else { "MISMATCH".into() },
                        );
                    }
                    // downsizing twice = downsizing once
                    if kp >= 1 && pi == 0 {
                        let mut q = p.clone();
                        q.downsize(kp - 1);
                        let mut d = big.clone();
                        d.downsize(kp - 1);
                        if params_bytes(&q, SerdeFormat::RawBytes) != params_bytes(&d, SerdeFormat::RawBytes) {
                            ctx.oracle_fail("downsize-not-compositional", "downsize(k'') after downsize(k') differs from downsize(k'')", json!({"case": desc, "via": kp, "to": kp - 1}));
                        }
                        ctx.count("downsize:composition");
                    }
                }
            }
        }
    }
    // a small full parse for the model
    let small = setup(2, srs_seed);
    for (fa, an) in FORMATS.iter() {
        let b = params_bytes(&small, *fa);
        let gs: Vec<String> = (0..4).map(|i| hex(&g1_bytes(&(g * s.pow_vartime([i as u64])), *fa))).collect();
        let gl: Vec<String> = small.g_lagrange().iter().map(|p| hex(&g1_bytes(p, *fa))).collect();
        ctx.case(
            "paramsparse",
            true,
            &format!("paramsparse fmt={an} {}", hex(&b)),
            &format!("ok k=2 g={} gl={} g2={} sg2={} rest=0 rewrite=1", gs.join(","), gl.join(","), hex(&g2_bytes(&small.g2(), *fa)), hex(&g2_bytes(&small.s_g2(), *fa))),
        );
        for (fb, bn) in FORMATS.iter() {
            if !compatible(an, bn) {
                continue;
            }
            let ans = match read_params(&b, *fb) {
                Ok(Ok(p2)) => {
                    let re = params_bytes(&p2, *fa);
                    match slice_params(&re, *fa) {
                        Some((k2, g2s, gl2, a2, b2)) => {
                            let acc_ok = gl2.iter().zip(p2.g_lagrange()).all(|(c, q)| *c == g1_bytes(q, *fa)) && gl2.len() == p2.g_lagrange().len();
                            format!(
                                "ok k={k2} g={} gl={} g2={} sg2={} rest=0 rewrite={}",
                                g2s.iter().map(|c| hex(c)).collect::<Vec<_>>().join(","),
                                if acc_ok { gl2.iter().map(|c| hex(c)).collect::<Vec<_>>().join(",") } else { "ACCESSOR-MISMATCH".into() },
                                hex(&a2),
                                hex(&b2),
                                (re == b) as u8
                            )
                        }
                        None => "unsliceable".into(),
                    }
                }
                Ok(Err(e)) => format!("err {e}"),
                Err(_) => "panic".into(),
            };
            ctx.case("paramsreload", true, &format!("paramsreload wrote={an} read={bn} {}", hex(&b)), &ans);
        }
        if *an != "U" {
            // (the unchecked reader unwraps every element read: trusted input only)
            let tb = &b[..b.len() - 1];
            let ans = match read_params(tb, *fa) {
                Ok(Err(e)) if e.contains("fill whole buffer") => "err eof".to_string(),
                other => format!("unexpected {:?}", other.map(|r| r.map(|_| "accepted"))),
            };
            ctx.case("paramsparse:truncated", true, &format!("paramsparse fmt={an} {}", hex(tb)), &ans);
        }
    }
}
