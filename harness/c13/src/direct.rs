//! Requests that carry point coordinates / field elements instead of discrete logarithms:
//! * BN254 (pure Rust): the Miller-loop value of `multi_miller_loop` itself (before the final
//!   exponentiation) against the mirrored model, `final_exponentiation` against the mirror and
//!   against the plain power `f^((p¹²−1)/r)`;
//! * BLS12-381 (blst): `pairing(P, Q)` against the ate pairing computed from its definition;
//! * `Gt::generator()`; `DualMSM::check` of `proofs/src/poly/kzg/msm.rs`.
use ff::Field;
use group::{prime::PrimeCurveAffine, Curve, Group};
use midnight_curves::bn256;
use midnight_curves::pairing::{Engine, MillerLoopResult, MultiMillerLoop};
use midnight_curves::{Bls12, CurveAffine, G1Affine, G1Projective, G2Affine, G2Projective, Gt};
use midnight_proofs::poly::kzg::msm::{DualMSM, MSMKZG};
use midnight_proofs::poly::kzg::params::ParamsKZG;
use midnight_proofs::poly::CommitmentLabel;
use midnight_proofs::utils::arithmetic::MSM;
use mzkh::Ctx;
use num_bigint::BigUint;
use num_traits::{One, Zero};
use rand::Rng;
use rand_chacha::ChaCha8Rng;
use serde_json::json;

use crate::pair::scalar_class;
use crate::tower::{bls12_out, bls2_out, bn12, bn12_out, bn2_out, fmt_el, modulus, operand};

fn bn_g1_str(p: &bn256::G1Affine) -> String {
    // (`coordinates()` of the derive macro returns Some((0,0)) for the identity)
    if bool::from(p.is_identity()) {
        return "inf".to_string();
    }
    match Option::<midnight_curves::Coordinates<bn256::G1Affine>>::from(p.coordinates()) {
        Some(c) => format!("{},{}", mzkh::fe_hex(c.x()), mzkh::fe_hex(c.y())),
        None => "inf".to_string(),
    }
}
fn bn_g2_str(q: &bn256::G2Affine) -> String {
    if bool::from(q.is_identity()) {
        return "inf".to_string();
    }
    match Option::<midnight_curves::Coordinates<bn256::G2Affine>>::from(q.coordinates()) {
        Some(c) => format!("{},{}", fmt_el(&bn2_out(c.x())), fmt_el(&bn2_out(c.y()))),
        None => "inf".to_string(),
    }
}
fn bls_g1_str(p: &G1Affine) -> String {
    if bool::from(p.is_identity()) {
        "inf".to_string()
    } else {
        format!("{},{}", mzkh::fe_hex(&p.x()), mzkh::fe_hex(&p.y()))
    }
}
fn bls_g2_str(q: &G2Affine) -> String {
    if bool::from(q.is_identity()) {
        "inf".to_string()
    } else {
        format!("{},{}", fmt_el(&bls2_out(&q.x())), fmt_el(&bls2_out(&q.y())))
    }
}

fn bn_point_pair(rng: &mut ChaCha8Rng, r: &BigUint, kind: usize) -> (bn256::G1Affine, bn256::G2Affine) {
    let (cx, cy) = match kind % 8 {
        0 => (0, 9), // identity in G1
        1 => (9, 0), // identity in G2
        2 => (0, 0),
        3 => (1, 1), // generators
        4 => (2, 9), // −G1
        5 => (9, 2),
        6 => (3, 6),
        _ => (9, 9),
    };
    let x = scalar_class(rng, r, cx);
    let y = scalar_class(rng, r, cy);
    let p = (bn256::G1::generator() * mzkh::fe_from_big::<bn256::Fr>(&x)).to_affine();
    let q = (bn256::G2::generator() * mzkh::fe_from_big::<bn256::Fr>(&y)).to_affine();
    (p, q)
}

fn run_bn(ctx: &mut Ctx) {
    let mut rng = ctx.rng("direct-bn");
    let r = modulus::<bn256::Fr>();
    let p = modulus::<bn256::Fq>();
    let quick = ctx.quick();
    let reps = if quick { 1 } else { 4 };
    let mut outputs: Vec<bn256::Fq12> = vec![];
    for rep in 0..reps {
        for n in 0..=8usize {
            for variant in 0..(if n == 0 { 1 } else { 4 }) {
                let pts: Vec<(bn256::G1Affine, bn256::G2Affine)> = (0..n)
                    .map(|i| {
                        // variant 0: no identities; others: identities mixed in
                        let kind = if variant == 0 { 7 - (i % 2) * ((rep + i) % 5) } else { rng.gen_range(0..8) };
                        bn_point_pair(&mut rng, &r, kind)
                    })
                    .collect();
                let terms: Vec<(&bn256::G1Affine, &bn256::G2Affine)> = pts.iter().map(|(a, b)| (a, b)).collect();
                let f = bn256::multi_miller_loop(&terms);
                let f2 = <bn256::Bn256 as MultiMillerLoop>::multi_miller_loop(&terms);
                let arg = if n == 0 {
                    "-".to_string()
                } else {
                    pts.iter().map(|(a, b)| format!("{}|{}", bn_g1_str(a), bn_g2_str(b))).collect::<Vec<_>>().join(";")
                };
                let ids = pts.iter().filter(|(a, b)| bool::from(a.is_identity()) || bool::from(b.is_identity())).count();
                ctx.case("bn-miller", n > ids, &format!("bn-miller {arg}"), &fmt_el(&bn12_out(&f)));
                ctx.count(&format!("bn-miller:len={n}:identities={}", ids.min(3)));
                if f != f2 {
                    ctx.oracle_fail("bn:mml-trait-vs-fn", "Bn256::multi_miller_loop differs from the free function", json!({"terms": arg}));
                }
                // the Miller-loop value must reduce to the product of the pairings
                let expect: bn256::Gt = pts.iter().map(|(a, b)| bn256::Bn256::pairing(a, b)).sum();
                if f.final_exponentiation() != expect {
                    ctx.oracle_fail("bn:mml-product", "final_exponentiation(multi_miller_loop(list)) != Σ pairing", json!({"terms": arg}));
                }
                outputs.push(f);
            }
        }
    }
    // Observation (recorded, not an oracle failure): `Bn256::Result` is the bare `Fq12`, so the `+` that
    // the `MillerLoopResult` trait requires is the *field addition*; combining two Miller-loop results
    // with `+` (which multiplies for BLS12-381) does not give the product of the pairings here.
    {
        let (p1, q1) = bn_point_pair(&mut rng, &r, 7);
        let (p2, q2) = bn_point_pair(&mut rng, &r, 7);
        let a = bn256::multi_miller_loop(&[(&p1, &q1)]);
        let b = bn256::multi_miller_loop(&[(&p2, &q2)]);
        let expect = bn256::Bn256::pairing(&p1, &q1) + bn256::Bn256::pairing(&p2, &q2);
        let via_add = mzkh::catch(|| (a + b).final_exponentiation()).ok();
        let via_mul = (a * b).final_exponentiation();
        ctx.count(&format!("observation:bn-miller-result-add-is-field-addition:{}", if via_add == Some(expect) { "no" } else { "yes" }));
        if via_mul != expect {
            ctx.oracle_fail("bn:mml-mul-split", "product of two BN254 Miller-loop values does not reduce to the product of the pairings", json!({}));
        }
    }
    // the reduced pairing against the optimal ate pairing computed from its definition
    for i in 0..(if quick { 16 } else { 64 }) {
        let (pt, qt) = bn_point_pair(&mut rng, &r, i);
        let e = bn256::Bn256::pairing(&pt, &qt);
        let nontrivial = !bool::from(pt.is_identity()) && !bool::from(qt.is_identity());
        ctx.case("bn-ate", nontrivial, &format!("bn-ate {}|{}", bn_g1_str(&pt), bn_g2_str(&qt)), &fmt_el(&bn12_out(&e.verif_fq12())));
        ctx.count(&format!("bn-ate:{}", if nontrivial { "points" } else { "identity" }));
    }
    // final exponentiation: Miller-loop outputs, random and boundary field elements
    let mut inputs: Vec<(bn256::Fq12, &'static str)> = vec![];
    for (i, f) in outputs.iter().enumerate() {
        if i % (if quick { 3 } else { 1 }) == 0 {
            inputs.push((*f, "miller-output"));
        }
    }
    for c in 0..(if quick { 18 } else { 54 }) {
        let (e, _) = operand(&mut rng, &p, 12, c);
        inputs.push((bn12(&e), "field-element"));
    }
    let mut naive = 0;
    for (f, cls) in inputs.iter() {
        let s = fmt_el(&bn12_out(f));
        let res = mzkh::catch(|| f.final_exponentiation());
        let ans = match &res {
            Ok(g) => fmt_el(&bn12_out(&g.verif_fq12())),
            Err(_) => "panic".to_string(),
        };
        ctx.case("bn-fexp", !bool::from(f.is_zero()), &format!("bn-fexp {s}"), &ans);
        ctx.count(&format!("bn-fexp:{cls}:{}", if res.is_ok() { "value" } else { "panic" }));
        if res.is_ok() && naive < (if quick { 8 } else { 40 }) && (*cls == "miller-output" || naive % 2 == 0) {
            ctx.case("bn-fexp-naive", true, &format!("bn-fexp-naive {s}"), &ans);
            naive += 1;
        }
        if let Ok(g) = res {
            // the result of the final exponentiation lies in the order-r subgroup
            let rm1 = g * mzkh::fe_from_big::<bn256::Fr>(&(&r - BigUint::one()));
            if !bool::from((rm1 + g).is_identity()) {
                ctx.oracle_fail("bn:fexp-order", "final_exponentiation output is not of order dividing r", json!({"f": s}));
            }
        }
    }
}

fn bls_point_pair(rng: &mut ChaCha8Rng, r: &BigUint, kind: usize) -> (G1Affine, G2Affine) {
    let (cx, cy) = match kind % 8 {
        0 => (0, 9),
        1 => (9, 0),
        2 => (0, 0),
        3 => (1, 1),
        4 => (2, 9),
        5 => (9, 2),
        6 => (3, 6),
        _ => (9, 9),
    };
    let x = scalar_class(rng, r, cx);
    let y = scalar_class(rng, r, cy);
    let p = (G1Projective::generator() * mzkh::fe_from_big::<midnight_curves::Fq>(&x)).to_affine();
    let q = (G2Projective::generator() * mzkh::fe_from_big::<midnight_curves::Fq>(&y)).to_affine();
    (p, q)
}

fn run_bls(ctx: &mut Ctx) {
    let mut rng = ctx.rng("direct-bls");
    let r = modulus::<midnight_curves::Fq>();
    let n = if ctx.quick() { 16 } else { 64 };
    for i in 0..n {
        let (p, q) = bls_point_pair(&mut rng, &r, i);
        let e = midnight_curves::bls12_381::pairing(&p, &q);
        let line = format!("bls-ate {}|{}", bls_g1_str(&p), bls_g2_str(&q));
        let nontrivial = !bool::from(p.is_identity()) && !bool::from(q.is_identity());
        ctx.case("bls-ate", nontrivial, &line, &fmt_el(&bls12_out(&midnight_curves::bls12_381::Fp12::from(e))));
        ctx.count(&format!("bls-ate:{}", if nontrivial { "points" } else { "identity" }));
    }
    // The aggregate-verification context of bls_pairing.rs (blst_pairing_*): the same pairing through a
    // third entry point. pk = sk·G1, H = hash_to_curve(msg), sig = sk·H: e(pk, H) = e(G1, sig).
    let dst: &[u8] = b"MIDNIGHT-VERIF-C13-BLS12381G2_XMD:SHA-256_SSWU_RO_";
    for i in 0..(if ctx.quick() { 6 } else { 24 }) {
        let sk = scalar_class(&mut rng, &r, if i == 0 { 1 } else { 9 });
        let msg: Vec<u8> = (0..(i * 7 % 40)).map(|_| rng.gen::<u8>()).collect();
        let pk = (G1Projective::generator() * mzkh::fe_from_big::<midnight_curves::Fq>(&sk)).to_affine();
        let h = G2Projective::hash_to_curve(&msg, dst, &[]);
        let sig = (h * mzkh::fe_from_big::<midnight_curves::Fq>(&sk)).to_affine();
        let bad_sig = (h * mzkh::fe_from_big::<midnight_curves::Fq>(&sk) + G2Projective::generator()).to_affine();
        let verify = |s: &G2Affine| -> Result<bool, String> {
            let mut pc = midnight_curves::PairingG1G2::new(true, dst);
            pc.aggregate(&pk, Some(s), &msg, &[]).map_err(|e| format!("{e:?}"))?;
            pc.commit();
            Ok(pc.finalverify(None))
        };
        let direct = midnight_curves::bls12_381::pairing(&pk, &h.to_affine()) == midnight_curves::bls12_381::pairing(&G1Affine::generator(), &sig);
        let direct_bad = midnight_curves::bls12_381::pairing(&pk, &h.to_affine()) == midnight_curves::bls12_381::pairing(&G1Affine::generator(), &bad_sig);
        ctx.count("bls-aggregate-context");
        if verify(&sig) != Ok(true) || verify(&bad_sig) != Ok(false) || !direct || direct_bad {
            ctx.oracle_fail("bls:aggregate-context", "PairingG1G2 aggregate/commit/finalverify disagrees with the pairing equation e(pk, H(m)) = e(G1, sig)",
                json!({"sk": mzkh::big_hex(&sk), "msg_len": msg.len(), "good": format!("{:?}", verify(&sig)), "bad": format!("{:?}", verify(&bad_sig)), "direct": direct, "direct_bad": direct_bad}));
        }
    }
    // Gt::generator() is e(G1, G2)
    let g = Gt::generator();
    ctx.case("gtgen", true, "gtgen bls", &fmt_el(&bls12_out(&midnight_curves::bls12_381::Fp12::from(g))));
    if g != midnight_curves::bls12_381::pairing(&G1Affine::generator(), &G2Affine::generator()) {
        ctx.oracle_fail("bls:gt-generator", "Gt::generator() != pairing(G1::generator, G2::generator)", json!({}));
    }
}

/// `Gt` built from arbitrary `Fp12` values through the public, unchecked `From<Fp12> for Gt` (there is
/// no byte decoder for `Gt`): the operators are compared with the model on elements that are NOT in
/// the order-r subgroup, and what membership the API assumes is recorded.
fn run_gt_raw(ctx: &mut Ctx) {
    use midnight_curves::bls12_381::Fp12;
    let mut rng = ctx.rng("gt-raw");
    let r = modulus::<midnight_curves::Fq>();
    let p = modulus::<midnight_curves::bls12_381::Fp>();
    let fr = |b: &BigUint| mzkh::fe_from_big::<midnight_curves::Fq>(b);
    let n = if ctx.quick() { 4 } else { 16 };
    let mut vals: Vec<(Gt, &'static str)> = vec![(Gt::from(Fp12::ZERO), "zero")];
    for i in 0..n {
        let (e, _) = operand(&mut rng, &p, 12, 4 + (i % 2));
        let f = crate::tower::bls12(&e);
        vals.push((Gt::from(f), "field-element"));
        if let Some(inv) = Option::<Fp12>::from(f.invert()) {
            // easy part of the final exponentiation only: unitary, cyclotomic, not of order r
            let mut c = f;
            c.conjugate();
            let u = c * inv;
            let mut u2 = u;
            u2.frobenius_map(2);
            vals.push((Gt::from(u2 * u), "cyclotomic-not-order-r"));
        }
    }
    let (pp, qq) = bls_point_pair(&mut rng, &r, 7);
    vals.push((midnight_curves::bls12_381::pairing(&pp, &qq), "member"));
    let out = |g: &Gt| fmt_el(&bls12_out(&Fp12::from(*g)));
    for (i, (a, cls)) in vals.iter().enumerate() {
        let sa = out(a);
        ctx.case("gt-bls-neg", true, &format!("gt bls neg {sa}"), &out(&(-*a)));
        ctx.case("gt-bls-dbl", true, &format!("gt bls dbl {sa}"), &out(&a.double()));
        let rm1 = *a * fr(&(&r - BigUint::one()));
        let in_subgroup = bool::from((rm1 + *a).is_identity());
        ctx.case("order-bls", true, &format!("order bls {sa}"), if in_subgroup { "1" } else { "0" });
        let neg_is_inverse = *a + (-*a) == Gt::identity();
        ctx.count(&format!("gt-raw:{cls}:in-subgroup={}:neg-is-inverse={}", in_subgroup as u8, neg_is_inverse as u8));
        match *cls {
            "member" => {
                if !in_subgroup || !neg_is_inverse {
                    ctx.oracle_fail("bls:gt-raw-member", "a pairing value re-wrapped through From<Fp12> lost its group properties", json!({"value": sa}));
                }
            }
            "cyclotomic-not-order-r" => {
                // conjugation inverts every unitary element, member of the order-r subgroup or not
                if !neg_is_inverse {
                    ctx.oracle_fail("bls:gt-neg-unitary", "Gt::neg is not the inverse on a unitary element", json!({"value": sa}));
                }
            }
            _ => {
                // Observation (not a failure): `From<Fp12> for Gt` accepts any field element; on a non-unitary
                // one `-g` (conjugation) is not the inverse. The API makes no membership promise for this
                // constructor; every other way to obtain a `Gt` goes through the final exponentiation.
                ctx.count("observation:gt-from-fp12-is-unchecked (no byte decoder exists; pairing/final_exponentiation/random outputs are members)");
            }
        }
        for k in [0usize, 1, 2, 9] {
            let s = scalar_class(&mut rng, &r, k);
            ctx.case("gtmul-bls", true, &format!("gtmul bls {sa} {}", mzkh::big_hex(&s)), &out(&(*a * fr(&s))));
        }
        let (b, _) = &vals[(i * 7 + 3) % vals.len()];
        let sb = out(b);
        ctx.case("gt-bls-add", true, &format!("gt bls add {sa} {sb}"), &out(&(*a + *b)));
        ctx.case("gt-bls-sub", true, &format!("gt bls sub {sa} {sb}"), &out(&(*a - *b)));
    }
    // `Gt::random` goes through the final exponentiation: members
    for _ in 0..(if ctx.quick() { 2 } else { 8 }) {
        let g = Gt::random(&mut rng);
        let rm1 = g * fr(&(&r - BigUint::one()));
        ctx.count("gt-random");
        if !bool::from((rm1 + g).is_identity()) || g + (-g) != Gt::identity() {
            ctx.oracle_fail("bls:gt-random-member", "Gt::random returned an element outside the order-r subgroup", json!({"value": out(&g)}));
        }
    }
}

/// The remaining public items of `bls_pairing.rs`: `MillerLoopResult` default / `conditional_select` /
/// `+=`, `PairingG1G2::merge`, `aggregated` + `finalverify(Some(gtsig))`, `unique_messages`.
fn run_bls_misc(ctx: &mut Ctx) {
    use midnight_curves::bls12_381::MillerLoopResult as Mlr;
    use subtle::{Choice, ConditionallySelectable};
    let mut rng = ctx.rng("bls-misc");
    let r = modulus::<midnight_curves::Fq>();
    let fr = |b: &BigUint| mzkh::fe_from_big::<midnight_curves::Fq>(b);
    // MillerLoopResult
    if Mlr::default().final_exponentiation() != Gt::identity() {
        ctx.oracle_fail("bls:mlr-default", "MillerLoopResult::default() does not reduce to the identity", json!({}));
    }
    let (p1, q1) = bls_point_pair(&mut rng, &r, 7);
    let (p2, q2) = bls_point_pair(&mut rng, &r, 7);
    let prep1 = midnight_curves::G2Prepared::from(q1);
    let prep2 = midnight_curves::G2Prepared::from(q2);
    let a = Bls12::multi_miller_loop(&[(&p1, &prep1)]);
    let b = Bls12::multi_miller_loop(&[(&p2, &prep2)]);
    let both = Bls12::multi_miller_loop(&[(&p1, &prep1), (&p2, &prep2)]);
    let mut c = Mlr::default();
    c += a;
    c += &b;
    ctx.count("bls-misc:miller-loop-result");
    if Mlr::conditional_select(&a, &b, Choice::from(0)) != a
        || Mlr::conditional_select(&a, &b, Choice::from(1)) != b
        || c.final_exponentiation() != both.final_exponentiation()
        || (Mlr::default() + a).final_exponentiation() != a.final_exponentiation()
    {
        ctx.oracle_fail("bls:mlr-ops", "MillerLoopResult conditional_select / += / default + x disagree with the product of pairings", json!({}));
    }
    // merge of two aggregate contexts; aggregated signature in Gt
    let dst: &[u8] = b"MIDNIGHT-VERIF-C13-BLS12381G2_XMD:SHA-256_SSWU_RO_";
    for i in 0..(if ctx.quick() { 3 } else { 10 }) {
        let sk1 = scalar_class(&mut rng, &r, 9);
        let sk2 = scalar_class(&mut rng, &r, 9);
        let m1: Vec<u8> = (0..(5 + i)).map(|_| rng.gen::<u8>()).collect();
        let m2: Vec<u8> = (0..(9 + 2 * i)).map(|_| rng.gen::<u8>()).collect();
        let g1 = G1Projective::generator();
        let (pk1, pk2) = ((g1 * fr(&sk1)).to_affine(), (g1 * fr(&sk2)).to_affine());
        let h1 = G2Projective::hash_to_curve(&m1, dst, &[]);
        let h2 = G2Projective::hash_to_curve(&m2, dst, &[]);
        let sig = (h1 * fr(&sk1) + h2 * fr(&sk2)).to_affine();
        let bad = (h1 * fr(&sk1) + h2 * fr(&sk1)).to_affine();
        let run = |s: &G2Affine, via_gt: bool| -> Result<bool, String> {
            let mut c1 = midnight_curves::PairingG1G2::new(true, dst);
            let mut c2 = midnight_curves::PairingG1G2::new(true, dst);
            if via_gt {
                c1.aggregate(&pk1, None, &m1, &[]).map_err(|e| format!("{e:?}"))?;
            } else {
                c1.aggregate(&pk1, Some(s), &m1, &[]).map_err(|e| format!("{e:?}"))?;
            }
            c2.aggregate(&pk2, None, &m2, &[]).map_err(|e| format!("{e:?}"))?;
            c1.commit();
            c2.commit();
            c1.merge(&c2).map_err(|e| format!("{e:?}"))?;
            if via_gt {
                let mut gtsig = Gt::identity();
                midnight_curves::PairingG1G2::aggregated(&mut gtsig, s);
                Ok(c1.finalverify(Some(&gtsig)))
            } else {
                Ok(c1.finalverify(None))
            }
        };
        ctx.count("bls-misc:merge-aggregated");
        let got = (run(&sig, false), run(&bad, false), run(&sig, true), run(&bad, true));
        if got != (Ok(true), Ok(false), Ok(true), Ok(false)) {
            ctx.oracle_fail("bls:merge-aggregated", "PairingG1G2 merge / aggregated / finalverify(gtsig) disagree with e(pk1,H(m1))·e(pk2,H(m2)) = e(G1,sig)",
                json!({"got (good, bad, good-via-gt, bad-via-gt)": format!("{got:?}")}));
        }
    }
    // unique_messages against a set
    for i in 0..(if ctx.quick() { 12 } else { 60 }) {
        let n = 1 + i % 6;
        let msgs: Vec<Vec<u8>> = (0..n).map(|_| { let l = rng.gen_range(0..3); (0..l).map(|_| rng.gen_range(0u8..2)).collect() }).collect();
        let refs: Vec<&[u8]> = msgs.iter().map(|m| m.as_slice()).collect();
        let expect = { let mut s = std::collections::BTreeSet::new(); msgs.iter().all(|m| s.insert(m.clone())) };
        let got = midnight_curves::unique_messages(&refs);
        ctx.count(&format!("bls-misc:unique-messages:{}", if expect { "unique" } else { "duplicate" }));
        if got != expect {
            ctx.oracle_fail("bls:unique-messages", "unique_messages disagrees with set semantics", json!({"msgs": format!("{msgs:?}"), "got": got}));
        }
    }
}

/// `DualMSM::check` with verifier parameters `([σ]₂, −[γ]₂)` and left/right MSMs whose bases are
/// known multiples of the G1 generator: accepted iff `σ·L = γ·R` in the exponent.
fn run_dual(ctx: &mut Ctx) {
    let mut rng = ctx.rng("dual");
    let r = modulus::<midnight_curves::Fq>();
    let fr = |b: &BigUint| mzkh::fe_from_big::<midnight_curves::Fq>(b);
    let g1 = G1Projective::generator();
    let g2 = G2Projective::generator();
    let n = if ctx.quick() { 60 } else { 400 };
    for i in 0..n {
        // verifier parameters
        let sigma = match i % 7 {
            0 => BigUint::zero(), // [s]₂ is the identity: prepared point at infinity
            1 => BigUint::one(),
            _ => scalar_class(&mut rng, &r, 9),
        };
        let gamma = match i % 11 {
            0 => scalar_class(&mut rng, &r, 9),
            _ => BigUint::one(),
        };
        let params: ParamsKZG<Bls12> = ParamsKZG::from_parts(1, vec![g1, g1], Some(vec![g1, g1]), g2 * fr(&gamma), g2 * fr(&sigma));
        let vparams = params.verifier_params();
        // shapes of the two MSMs
        let shape = i % 9;
        let nl = match shape { 0 => 0, 1 | 2 => 1, _ => rng.gen_range(1..5) };
        let nr = match shape { 0 => 0, 1 => 1, _ => rng.gen_range(0..5) };
        let mut left: Vec<(BigUint, BigUint)> = (0..nl).map(|_| {
            let (a, b) = (rng.gen_range(0..12), rng.gen_range(0..12));
            (scalar_class(&mut rng, &r, a), scalar_class(&mut rng, &r, b))
        }).collect();
        if shape == 1 || shape == 2 {
            left[0].0 = BigUint::one(); // the `scalars == [1]` short-cut
        }
        let mut right: Vec<(BigUint, BigUint)> = (0..nr).map(|_| {
            let (a, b) = (rng.gen_range(0..12), rng.gen_range(0..12));
            (scalar_class(&mut rng, &r, a), scalar_class(&mut rng, &r, b))
        }).collect();
        // make about two thirds of the cases satisfy σ·L = γ·R by solving for one right term
        let lsum = left.iter().fold(BigUint::zero(), |acc, (s, b)| (acc + s * b) % &r);
        let want_valid = i % 3 != 2 && !gamma.is_zero();
        if want_valid {
            let rsum = right.iter().fold(BigUint::zero(), |acc, (s, b)| (acc + s * b) % &r);
            // γ·(rsum + s·b) = σ·lsum  with s = 1
            let ginv = gamma.modpow(&(&r - BigUint::from(2u32)), &r);
            let target = (&sigma * &lsum % &r) * ginv % &r;
            let b = (target + &r - rsum) % &r;
            right.push((BigUint::one(), b));
        }
        let build = |terms: &[(BigUint, BigUint)]| {
            let mut m = MSMKZG::<Bls12>::init();
            for (s, b) in terms {
                m.append_term(fr(s), g1 * fr(b), CommitmentLabel::Custom("c13".into()));
            }
            m
        };
        let dual = DualMSM::new(build(&left), build(&right));
        let res = mzkh::catch(|| dual.check(&vparams));
        let ans = match res {
            Ok(true) => "1",
            Ok(false) => "0",
            Err(_) => "panic",
        };
        let fmt = |t: &[(BigUint, BigUint)]| {
            if t.is_empty() { "-".to_string() } else { t.iter().map(|(s, b)| format!("{}:{}", mzkh::big_hex(s), mzkh::big_hex(b))).collect::<Vec<_>>().join(",") }
        };
        ctx.case("dual", true, &format!("dual bls {} {} {} {}", fmt(&left), fmt(&right), mzkh::big_hex(&sigma), mzkh::big_hex(&gamma)), ans);
        // oracle: accepted iff the pairing equation holds in the exponent
        let rsum = right.iter().fold(BigUint::zero(), |acc, (s, b)| (acc + s * b) % &r);
        let holds = (&sigma * &lsum) % &r == (&gamma * &rsum) % &r;
        ctx.count(&format!("dual:{}:{}", if holds { "equation-holds" } else { "equation-fails" }, if sigma.is_zero() { "s_g2-identity" } else { "s_g2-point" }));
        if ans != (if holds { "1" } else { "0" }) {
            ctx.oracle_fail("dual-msm-check", "DualMSM::check disagrees with the pairing equation e(L,[s]₂) = e(R,[1]₂)",
                json!({"left": fmt(&left), "right": fmt(&right), "sigma": mzkh::big_hex(&sigma), "gamma": mzkh::big_hex(&gamma), "check": ans, "equation": holds}));
        }
    }
}

pub fn run(ctx: &mut Ctx) {
    for (name, f) in [("bn", run_bn as fn(&mut Ctx)), ("bls", run_bls), ("gt-raw", run_gt_raw), ("bls-misc", run_bls_misc), ("dual", run_dual)] {
        let res = mzkh::catch(std::panic::AssertUnwindSafe(|| f(&mut *ctx)));
        if let Err(msg) = res {
            ctx.oracle_fail(&format!("{name}:panic:direct"), "a Miller loop / final exponentiation / pairing check panicked on valid points",
                json!({"part": name, "panic": msg}));
        }
    }
    let _ = bn12_out;
}
