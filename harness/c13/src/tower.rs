//! Tower arithmetic correspondence: every `Fp2 / Fp6 / Fp12` operation of both compiled-in
//! curves (BLS12-381: blst wrappers + hand-written Fp6 / Frobenius code; BN254: the generic
//! `ff_ext` extensions) on boundary and random operands, against the Lean tower model.
use ff::{Field, PrimeField};
use midnight_curves::bls12_381::{Fp, Fp12, Fp2, Fp6};
use midnight_curves::bn256::{Fq, Fq12, Fq2, Fq6};
use midnight_curves::ff_ext::cubic::CubicSparseMul;
use midnight_curves::ff_ext::quadratic::QuadSparseMul;
use midnight_curves::ff_ext::ExtField;
use mzkh::Ctx;
use num_bigint::BigUint;
use num_traits::{One, Zero};
use rand::Rng;
use rand_chacha::ChaCha8Rng;

pub type El = Vec<BigUint>;

pub fn fmt_el(e: &[BigUint]) -> String {
    e.iter().map(mzkh::big_hex).collect::<Vec<_>>().join(",")
}

fn big<F: PrimeField>(f: &F) -> BigUint {
    mzkh::fe_big(f)
}
fn fe<F: PrimeField>(b: &BigUint) -> F {
    mzkh::fe_from_big::<F>(b)
}

// ---- conversions: BN254
pub fn bn2(e: &[BigUint]) -> Fq2 {
    Fq2::new(fe::<Fq>(&e[0]), fe::<Fq>(&e[1]))
}
pub fn bn6(e: &[BigUint]) -> Fq6 {
    Fq6::new(bn2(&e[0..2]), bn2(&e[2..4]), bn2(&e[4..6]))
}
pub fn bn12(e: &[BigUint]) -> Fq12 {
    Fq12::new(bn6(&e[0..6]), bn6(&e[6..12]))
}
pub fn bn2_out(a: &Fq2) -> El {
    let (c0, c1) = a.verif_coeffs();
    vec![big(&c0), big(&c1)]
}
pub fn bn6_out(a: &Fq6) -> El {
    let (c0, c1, c2) = a.verif_coeffs();
    [bn2_out(&c0), bn2_out(&c1), bn2_out(&c2)].concat()
}
pub fn bn12_out(a: &Fq12) -> El {
    let (c0, c1) = a.verif_coeffs();
    [bn6_out(&c0), bn6_out(&c1)].concat()
}

// ---- conversions: BLS12-381
pub fn bls2(e: &[BigUint]) -> Fp2 {
    Fp2::new(fe::<Fp>(&e[0]), fe::<Fp>(&e[1]))
}
pub fn bls6(e: &[BigUint]) -> Fp6 {
    Fp6::new(bls2(&e[0..2]), bls2(&e[2..4]), bls2(&e[4..6]))
}
pub fn bls12(e: &[BigUint]) -> Fp12 {
    Fp12::new(bls6(&e[0..6]), bls6(&e[6..12]))
}
pub fn bls2_out(a: &Fp2) -> El {
    vec![big(&a.c0()), big(&a.c1())]
}
pub fn bls6_out(a: &Fp6) -> El {
    [bls2_out(&a.c0()), bls2_out(&a.c1()), bls2_out(&a.c2())].concat()
}
pub fn bls12_out(a: &Fp12) -> El {
    [bls6_out(&a.c0()), bls6_out(&a.c1())].concat()
}

pub fn modulus<F: PrimeField>() -> BigUint {
    big(&(-F::ONE)) + BigUint::one()
}

/// One coefficient of a boundary class.
fn coeff(rng: &mut ChaCha8Rng, p: &BigUint, class: usize) -> BigUint {
    let one = BigUint::one();
    match class % 12 {
        0 => BigUint::zero(),
        1 => one,
        2 => BigUint::from(2u32),
        3 => p - &one,
        4 => p - BigUint::from(2u32),
        5 => (p - &one) >> 1,
        6 => (p + &one) >> 1,
        7 => BigUint::from(u64::MAX),
        8 => (&one << 128) + &one,
        9 => (&one << (p.bits() - 1)) - &one,
        _ => {
            let bytes: Vec<u8> = (0..64).map(|_| rng.gen::<u8>()).collect();
            BigUint::from_bytes_le(&bytes) % p
        }
    }
}

/// Operand of `n` coefficients; the class index selects a structural pattern.
pub fn operand(rng: &mut ChaCha8Rng, p: &BigUint, n: usize, class: usize) -> (El, String) {
    let zero = BigUint::zero();
    let nclasses = 6 + n;
    let c = class % nclasses;
    match c {
        0 => (vec![zero; n], "zero".into()),
        1 => {
            let mut v = vec![zero; n];
            v[0] = BigUint::one();
            (v, "one".into())
        }
        2 => {
            let mut v = vec![zero; n];
            v[0] = p - BigUint::one();
            (v, "minus-one".into())
        }
        3 => (vec![p - BigUint::one(); n], "all-max".into()),
        4 => ((0..n).map(|_| coeff(rng, p, 11)).collect(), "random".into()),
        5 => ((0..n).map(|_| { let k = rng.gen_range(0..14); coeff(rng, p, k) }).collect(), "mixed-boundary".into()),
        _ => {
            // a single non-zero coefficient
            let j = c - 6;
            let mut v = vec![zero; n];
            let k = rng.gen_range(1..14);
            v[j] = coeff(rng, p, k);
            if v[j].is_zero() {
                v[j] = BigUint::one();
            }
            (v, "single-coeff".into())
        }
    }
}

struct Op<'a> {
    name: &'static str,
    /// number of full-size operands, number of extra `Fp2` coefficients (sparse operands), power?
    arity: usize,
    extra: usize,
    power: bool,
    f: Box<dyn Fn(&[El], &El, usize) -> Option<El> + 'a>,
}

fn run_level(ctx: &mut Ctx, rng: &mut ChaCha8Rng, cv: &str, level: &str, n: usize, p: &BigUint, ops: Vec<Op>, reps: usize) {
    let nclasses = 6 + n;
    for op in ops.iter() {
        let mut cases: Vec<(Vec<El>, El, usize, String)> = vec![];
        let powers: Vec<usize> = if op.power { vec![0, 1, 2, 3, 4, 5, 6, 7, 11, 12, 13, 14] } else { vec![0] };
        let reps_op = if op.arity == 1 && !op.power { reps * 3 } else { reps };
        for rep in 0..reps_op {
            for c1 in 0..nclasses {
                let classes2: Vec<usize> = if op.arity == 2 {
                    if rep == 0 { (0..nclasses).collect() } else { vec![4, 5] }
                } else {
                    vec![0]
                };
                for &c2 in &classes2 {
                    // keep the quadratic sweep of binary ops affordable at the top level
                    if op.arity == 2 && n == 12 && c1 >= 6 && c2 >= 6 && (c1 + c2) % 3 != 0 {
                        continue;
                    }
                    let (a, ca) = operand(rng, p, n, c1);
                    let mut args = vec![a];
                    let mut cls = ca;
                    if op.arity == 2 {
                        let (b, cb) = operand(rng, p, n, c2);
                        args.push(b);
                        cls = format!("{cls}*{cb}");
                    }
                    let extra: El = (0..op.extra).map(|i| { let k = rng.gen_range(0..14) + if i == 0 { 0 } else { 3 }; coeff(rng, p, k) }).collect();
                    for &k in &powers {
                        if op.power && rep > 0 && k > 3 {
                            continue;
                        }
                        cases.push((args.clone(), extra.clone(), k, cls.clone()));
                    }
                }
            }
        }
        for (args, extra, k, cls) in cases {
            let res = mzkh::catch(|| (op.f)(&args, &extra, k));
            let ans = match res {
                Ok(Some(v)) => fmt_el(&v),
                Ok(None) => "none".to_string(),
                Err(_) => "panic".to_string(),
            };
            let mut line = format!("{level} {cv} {}", op.name);
            for a in &args {
                line.push(' ');
                line.push_str(&fmt_el(a));
            }
            if op.extra > 0 {
                line.push(' ');
                line.push_str(&fmt_el(&extra));
            }
            if op.power {
                line.push_str(&format!(" {k}"));
            }
            let nontrivial = !cls.starts_with("zero") && !cls.starts_with("one");
            ctx.case(&format!("{level}-{cv}-{}", op.name), nontrivial, &line, &ans);
            ctx.count(&format!("operand:{level}:{cls}"));
        }
    }
}

macro_rules! op {
    ($name:expr, $arity:expr, $extra:expr, $power:expr, $f:expr) => {
        Op { name: $name, arity: $arity, extra: $extra, power: $power, f: Box::new($f) }
    };
}

/// Field laws and the defining property of the Frobenius map, checked directly on the real types
/// (the oracle of "target-group arithmetic is that of the degree-12 extension"): a failure is a
/// concrete failing input of the property, whatever the model says.
fn field_laws<F: Field>(
    ctx: &mut Ctx,
    rng: &mut ChaCha8Rng,
    name: &str,
    n: usize,
    p: &BigUint,
    degree: usize,
    make: &dyn Fn(&[BigUint]) -> F,
    show: &dyn Fn(&F) -> El,
    frob: &dyn Fn(&F, usize) -> F,
    samples: usize,
) {
    let p_limbs: Vec<u64> = p.to_u64_digits();
    let fail = |ctx: &mut Ctx, law: &str, args: Vec<&F>| {
        let detail: Vec<String> = args.iter().map(|a| fmt_el(&show(a))).collect();
        ctx.oracle_fail(&format!("tower:{name}:{law}"), &format!("{name}: field law `{law}` fails"), serde_json::json!({"type": name, "law": law, "operands": detail}));
    };
    for i in 0..samples {
        let (ea, _) = operand(rng, p, n, i);
        let (eb, _) = operand(rng, p, n, 4 + (i % 2));
        let (ec, _) = operand(rng, p, n, i / 2 + 3);
        let (a, b, c) = (make(&ea), make(&eb), make(&ec));
        ctx.count(&format!("field-laws:{name}"));
        if a * b != b * a {
            fail(ctx, "a*b = b*a", vec![&a, &b]);
        }
        if (a * b) * c != a * (b * c) {
            fail(ctx, "(a*b)*c = a*(b*c)", vec![&a, &b, &c]);
        }
        if a * (b + c) != a * b + a * c {
            fail(ctx, "a*(b+c) = a*b + a*c", vec![&a, &b, &c]);
        }
        if a.square() != a * a {
            fail(ctx, "square(a) = a*a", vec![&a]);
        }
        if a.double() != a + a || a - a != F::ZERO || a + (-a) != F::ZERO || a * F::ONE != a {
            fail(ctx, "additive structure / one", vec![&a]);
        }
        match Option::<F>::from(a.invert()) {
            Some(inv) => {
                if bool::from(a.is_zero()) || a * inv != F::ONE {
                    fail(ctx, "a * invert(a) = 1", vec![&a]);
                }
            }
            None => {
                if !bool::from(a.is_zero()) {
                    fail(ctx, "invert(a) is Some for a != 0", vec![&a]);
                }
            }
        }
        // Frobenius: frobenius_map(1) is the p-th power; powers compose; order divides the degree
        let f1 = frob(&a, 1);
        if f1 != a.pow_vartime(&p_limbs) {
            fail(ctx, "frobenius_map(1)(a) = a^p", vec![&a]);
        }
        let (j, k) = (i % 7, (i / 3) % 9);
        if frob(&frob(&a, j), k) != frob(&a, j + k) {
            fail(ctx, "frobenius_map(j) o frobenius_map(k) = frobenius_map(j+k)", vec![&a]);
        }
        if frob(&a, degree) != a || frob(&a, 0) != a {
            fail(ctx, "frobenius_map(degree) = id", vec![&a]);
        }
        if frob(&(a * b), k) != frob(&a, k) * frob(&b, k) {
            fail(ctx, "frobenius_map(k)(a*b) = frobenius_map(k)(a) * frobenius_map(k)(b)", vec![&a, &b]);
        }
    }
}

fn run_field_laws(ctx: &mut Ctx) {
    let mut rng = ctx.rng("field-laws");
    let samples = if ctx.quick() { 24 } else if ctx.search() { 300 } else { 120 };
    let p = modulus::<Fq>();
    field_laws::<Fq2>(ctx, &mut rng, "bn256::Fq2", 2, &p, 2, &|e| bn2(e), &|a| bn2_out(a), &|a, k| { let mut x = *a; x.frobenius_map(k); x }, samples);
    field_laws::<Fq6>(ctx, &mut rng, "bn256::Fq6", 6, &p, 6, &|e| bn6(e), &|a| bn6_out(a), &|a, k| { let mut x = *a; x.frobenius_map(k); x }, samples);
    field_laws::<Fq12>(ctx, &mut rng, "bn256::Fq12", 12, &p, 12, &|e| bn12(e), &|a| bn12_out(a), &|a, k| { let mut x = *a; x.frobenius_map(k); x }, samples);
    let p = modulus::<Fp>();
    field_laws::<Fp2>(ctx, &mut rng, "bls12_381::Fp2", 2, &p, 2, &|e| bls2(e), &|a| bls2_out(a), &|a, k| { let mut x = *a; x.frobenius_map(k); x }, samples);
    field_laws::<Fp6>(ctx, &mut rng, "bls12_381::Fp6", 6, &p, 6, &|e| bls6(e), &|a| bls6_out(a), &|a, k| { let mut x = *a; x.frobenius_map(k); x }, samples);
    field_laws::<Fp12>(ctx, &mut rng, "bls12_381::Fp12", 12, &p, 12, &|e| bls12(e), &|a| bls12_out(a), &|a, k| { let mut x = *a; x.frobenius_map(k); x }, samples);
}

pub fn run(ctx: &mut Ctx) {
    run_field_laws(ctx);
    let mut rng = ctx.rng("tower");
    let reps = if ctx.quick() { 1 } else if ctx.search() { 2 } else { 4 };

    // ------------------------------------------------------------------ BN254
    let p = modulus::<Fq>();
    let ops2: Vec<Op> = vec![
        op!("add", 2, 0, false, |a: &[El], _: &El, _| Some(bn2_out(&(bn2(&a[0]) + bn2(&a[1]))))),
        op!("sub", 2, 0, false, |a: &[El], _: &El, _| Some(bn2_out(&(bn2(&a[0]) - bn2(&a[1]))))),
        op!("mul", 2, 0, false, |a: &[El], _: &El, _| Some(bn2_out(&(bn2(&a[0]) * bn2(&a[1]))))),
        op!("neg", 1, 0, false, |a: &[El], _: &El, _| Some(bn2_out(&(-bn2(&a[0]))))),
        op!("dbl", 1, 0, false, |a: &[El], _: &El, _| Some(bn2_out(&Field::double(&bn2(&a[0]))))),
        op!("sqr", 1, 0, false, |a: &[El], _: &El, _| Some(bn2_out(&Field::square(&bn2(&a[0]))))),
        op!("inv", 1, 0, false, |a: &[El], _: &El, _| Option::<Fq2>::from(bn2(&a[0]).invert()).map(|x| bn2_out(&x))),
        op!("nr", 1, 0, false, |a: &[El], _: &El, _| Some(bn2_out(&bn2(&a[0]).mul_by_nonresidue()))),
        op!("conj", 1, 0, false, |a: &[El], _: &El, _| { let mut x = bn2(&a[0]); x.conjugate(); Some(bn2_out(&x)) }),
        op!("frob", 1, 0, true, |a: &[El], _: &El, k| { let mut x = bn2(&a[0]); x.frobenius_map(k); Some(bn2_out(&x)) }),
    ];
    run_level(ctx, &mut rng, "bn", "t2", 2, &p, ops2, reps * 3);
    let ops6: Vec<Op> = vec![
        op!("add", 2, 0, false, |a: &[El], _: &El, _| Some(bn6_out(&(bn6(&a[0]) + bn6(&a[1]))))),
        op!("sub", 2, 0, false, |a: &[El], _: &El, _| Some(bn6_out(&(bn6(&a[0]) - bn6(&a[1]))))),
        op!("mul", 2, 0, false, |a: &[El], _: &El, _| Some(bn6_out(&(bn6(&a[0]) * bn6(&a[1]))))),
        op!("neg", 1, 0, false, |a: &[El], _: &El, _| Some(bn6_out(&(-bn6(&a[0]))))),
        op!("sqr", 1, 0, false, |a: &[El], _: &El, _| Some(bn6_out(&Field::square(&bn6(&a[0]))))),
        op!("inv", 1, 0, false, |a: &[El], _: &El, _| Option::<Fq6>::from(bn6(&a[0]).invert()).map(|x| bn6_out(&x))),
        op!("nr", 1, 0, false, |a: &[El], _: &El, _| Some(bn6_out(&bn6(&a[0]).mul_by_nonresidue()))),
        op!("frob", 1, 0, true, |a: &[El], _: &El, k| { let mut x = bn6(&a[0]); x.frobenius_map(k); Some(bn6_out(&x)) }),
        op!("mul1", 1, 2, false, |a: &[El], e: &El, _| Some(bn6_out(&<Fq6 as CubicSparseMul>::mul_by_1(&bn6(&a[0]), &bn2(&e[0..2]))))),
        op!("mul01", 1, 4, false, |a: &[El], e: &El, _| Some(bn6_out(&<Fq6 as CubicSparseMul>::mul_by_01(&bn6(&a[0]), &bn2(&e[0..2]), &bn2(&e[2..4]))))),
    ];
    run_level(ctx, &mut rng, "bn", "t6", 6, &p, ops6, reps * 2);
    let ops12: Vec<Op> = vec![
        op!("add", 2, 0, false, |a: &[El], _: &El, _| Some(bn12_out(&(bn12(&a[0]) + bn12(&a[1]))))),
        op!("sub", 2, 0, false, |a: &[El], _: &El, _| Some(bn12_out(&(bn12(&a[0]) - bn12(&a[1]))))),
        op!("mul", 2, 0, false, |a: &[El], _: &El, _| Some(bn12_out(&(bn12(&a[0]) * bn12(&a[1]))))),
        op!("neg", 1, 0, false, |a: &[El], _: &El, _| Some(bn12_out(&(-bn12(&a[0]))))),
        op!("sqr", 1, 0, false, |a: &[El], _: &El, _| Some(bn12_out(&Field::square(&bn12(&a[0]))))),
        op!("inv", 1, 0, false, |a: &[El], _: &El, _| Option::<Fq12>::from(bn12(&a[0]).invert()).map(|x| bn12_out(&x))),
        op!("conj", 1, 0, false, |a: &[El], _: &El, _| { let mut x = bn12(&a[0]); x.conjugate(); Some(bn12_out(&x)) }),
        op!("frob", 1, 0, true, |a: &[El], _: &El, k| { let mut x = bn12(&a[0]); x.frobenius_map(k); Some(bn12_out(&x)) }),
        op!("cyc", 1, 0, false, |a: &[El], _: &El, _| { let mut x = bn12(&a[0]); x.cyclotomic_square(); Some(bn12_out(&x)) }),
        op!("mul014", 1, 6, false, |a: &[El], e: &El, _| { let mut x = bn12(&a[0]); <Fq12 as QuadSparseMul>::mul_by_014(&mut x, &bn2(&e[0..2]), &bn2(&e[2..4]), &bn2(&e[4..6])); Some(bn12_out(&x)) }),
        op!("mul034", 1, 6, false, |a: &[El], e: &El, _| { let mut x = bn12(&a[0]); <Fq12 as QuadSparseMul>::mul_by_034(&mut x, &bn2(&e[0..2]), &bn2(&e[2..4]), &bn2(&e[4..6])); Some(bn12_out(&x)) }),
    ];
    run_level(ctx, &mut rng, "bn", "t12", 12, &p, ops12, reps);

    // ------------------------------------------------------------------ BLS12-381
    let p = modulus::<Fp>();
    let ops2: Vec<Op> = vec![
        op!("add", 2, 0, false, |a: &[El], _: &El, _| Some(bls2_out(&(bls2(&a[0]) + bls2(&a[1]))))),
        op!("sub", 2, 0, false, |a: &[El], _: &El, _| Some(bls2_out(&(bls2(&a[0]) - bls2(&a[1]))))),
        op!("mul", 2, 0, false, |a: &[El], _: &El, _| Some(bls2_out(&(bls2(&a[0]) * bls2(&a[1]))))),
        op!("neg", 1, 0, false, |a: &[El], _: &El, _| Some(bls2_out(&(-bls2(&a[0]))))),
        op!("dbl", 1, 0, false, |a: &[El], _: &El, _| Some(bls2_out(&bls2(&a[0]).double()))),
        op!("sqr", 1, 0, false, |a: &[El], _: &El, _| Some(bls2_out(&bls2(&a[0]).square()))),
        op!("inv", 1, 0, false, |a: &[El], _: &El, _| Option::<Fp2>::from(bls2(&a[0]).invert()).map(|x| bls2_out(&x))),
        op!("nr", 1, 0, false, |a: &[El], _: &El, _| { let mut x = bls2(&a[0]); x.mul_by_nonresidue(); Some(bls2_out(&x)) }),
        op!("frob", 1, 0, true, |a: &[El], _: &El, k| { let mut x = bls2(&a[0]); x.frobenius_map(k); Some(bls2_out(&x)) }),
    ];
    run_level(ctx, &mut rng, "bls", "t2", 2, &p, ops2, reps * 3);
    let ops6: Vec<Op> = vec![
        op!("add", 2, 0, false, |a: &[El], _: &El, _| Some(bls6_out(&(bls6(&a[0]) + bls6(&a[1]))))),
        op!("sub", 2, 0, false, |a: &[El], _: &El, _| Some(bls6_out(&(bls6(&a[0]) - bls6(&a[1]))))),
        op!("mul", 2, 0, false, |a: &[El], _: &El, _| Some(bls6_out(&(bls6(&a[0]) * bls6(&a[1]))))),
        op!("neg", 1, 0, false, |a: &[El], _: &El, _| Some(bls6_out(&(-bls6(&a[0]))))),
        op!("sqr", 1, 0, false, |a: &[El], _: &El, _| Some(bls6_out(&bls6(&a[0]).square()))),
        op!("inv", 1, 0, false, |a: &[El], _: &El, _| Option::<Fp6>::from(bls6(&a[0]).invert()).map(|x| bls6_out(&x))),
        op!("nr", 1, 0, false, |a: &[El], _: &El, _| { let mut x = bls6(&a[0]); x.mul_by_nonresidue(); Some(bls6_out(&x)) }),
        op!("frob", 1, 0, true, |a: &[El], _: &El, k| { let mut x = bls6(&a[0]); x.frobenius_map(k); Some(bls6_out(&x)) }),
    ];
    run_level(ctx, &mut rng, "bls", "t6", 6, &p, ops6, reps * 2);
    let ops12: Vec<Op> = vec![
        op!("add", 2, 0, false, |a: &[El], _: &El, _| Some(bls12_out(&(bls12(&a[0]) + bls12(&a[1]))))),
        op!("sub", 2, 0, false, |a: &[El], _: &El, _| Some(bls12_out(&(bls12(&a[0]) - bls12(&a[1]))))),
        op!("mul", 2, 0, false, |a: &[El], _: &El, _| Some(bls12_out(&(bls12(&a[0]) * bls12(&a[1]))))),
        op!("neg", 1, 0, false, |a: &[El], _: &El, _| Some(bls12_out(&(-bls12(&a[0]))))),
        op!("sqr", 1, 0, false, |a: &[El], _: &El, _| Some(bls12_out(&bls12(&a[0]).square()))),
        op!("inv", 1, 0, false, |a: &[El], _: &El, _| Option::<Fp12>::from(bls12(&a[0]).invert()).map(|x| bls12_out(&x))),
        op!("conj", 1, 0, false, |a: &[El], _: &El, _| { let mut x = bls12(&a[0]); x.conjugate(); Some(bls12_out(&x)) }),
        op!("frob", 1, 0, true, |a: &[El], _: &El, k| { let mut x = bls12(&a[0]); x.frobenius_map(k); Some(bls12_out(&x)) }),
    ];
    run_level(ctx, &mut rng, "bls", "t12", 12, &p, ops12, reps);
}
