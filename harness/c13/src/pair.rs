//! Pairing entry points of both engines against the Lean model, plus the direct oracles of the
//! property statement (bilinearity, non-degeneracy, product law, entry-point consistency).
//!
//! Points are known multiples `x·G1`, `y·G2` of the generators, so that the model can answer
//! every request from discrete logarithms: `e(xG1, yG2) = gT^(xy)`.
use ff::Field;
use group::{prime::PrimeCurveAffine, Curve, Group};
use midnight_curves::pairing::{Engine, MillerLoopResult, MultiMillerLoop, PairingCurveAffine};
use mzkh::Ctx;
use num_bigint::BigUint;
use num_traits::{One, Zero};
use rand::Rng;
use rand_chacha::ChaCha8Rng;
use serde_json::json;

use crate::tower::{fmt_el, modulus, El};

/// What the harness needs to know about an engine beyond the `pairing` traits.
pub trait Eng {
    type E: Engine + MultiMillerLoop;
    const TAG: &'static str;
    /// The 12 base-field coefficients of a target-group element.
    fn gt_out(g: &<Self::E as Engine>::Gt) -> El;
    /// Whether Miller-loop results may be combined with `+` (BLS: `+` multiplies; BN254: `Result`
    /// is the bare `Fq12`, whose `+` is the field addition).
    const ML_ADD_IS_PRODUCT: bool;
    /// `G2Prepared::is_identity` (BLS: the `infinity` flag; BN254: the prepared type is `G2Affine`).
    fn prepared_is_identity(p: &<Self::E as MultiMillerLoop>::G2Prepared) -> bool;
}

pub struct Bls;
impl Eng for Bls {
    type E = midnight_curves::Bls12;
    const TAG: &'static str = "bls";
    fn gt_out(g: &midnight_curves::Gt) -> El {
        crate::tower::bls12_out(&midnight_curves::bls12_381::Fp12::from(*g))
    }
    const ML_ADD_IS_PRODUCT: bool = true;
    fn prepared_is_identity(p: &midnight_curves::G2Prepared) -> bool {
        bool::from(p.is_identity())
    }
}

pub struct Bn;
impl Eng for Bn {
    type E = midnight_curves::bn256::Bn256;
    const TAG: &'static str = "bn";
    fn gt_out(g: &midnight_curves::bn256::Gt) -> El {
        crate::tower::bn12_out(&g.verif_fq12())
    }
    const ML_ADD_IS_PRODUCT: bool = false;
    fn prepared_is_identity(p: &midnight_curves::bn256::G2Affine) -> bool {
        bool::from(p.is_identity())
    }
}

type Fr<N> = <<N as Eng>::E as Engine>::Fr;
type G1<N> = <<N as Eng>::E as Engine>::G1;
type G2<N> = <<N as Eng>::E as Engine>::G2;
type G1A<N> = <<N as Eng>::E as Engine>::G1Affine;
type G2A<N> = <<N as Eng>::E as Engine>::G2Affine;
type GtOf<N> = <<N as Eng>::E as Engine>::Gt;
type Prep<N> = <<N as Eng>::E as MultiMillerLoop>::G2Prepared;

pub fn scalar<N: Eng>(b: &BigUint) -> Fr<N> {
    mzkh::fe_from_big::<Fr<N>>(b)
}

/// A scalar of a boundary class: 0, 1, r−1, 2, r−2, (r−1)/2, small, random.
pub fn scalar_class(rng: &mut ChaCha8Rng, r: &BigUint, class: usize) -> BigUint {
    let one = BigUint::one();
    match class % 10 {
        0 => BigUint::zero(),
        1 => one,
        2 => r - &one,
        3 => BigUint::from(2u32),
        4 => r - BigUint::from(2u32),
        5 => (r - &one) >> 1,
        6 => BigUint::from(rng.gen_range(3u64..1000)),
        _ => {
            let bytes: Vec<u8> = (0..48).map(|_| rng.gen::<u8>()).collect();
            BigUint::from_bytes_le(&bytes) % r
        }
    }
}

fn random_scalar(rng: &mut ChaCha8Rng, r: &BigUint) -> BigUint {
    scalar_class(rng, r, 9)
}

/// `x·G1` as an affine point, reached through one of several routes (all must give the same point):
/// 0: generator · x, normalised; 1: sum of two projective points (non-trivial Z), `to_affine`;
/// 2: `G1Affine::from(projective)` after a doubling chain; 3: `batch_normalize`.
fn g1_point<N: Eng>(rng: &mut ChaCha8Rng, r: &BigUint, x: &BigUint, route: usize) -> G1A<N> {
    let g = G1::<N>::generator();
    match route % 4 {
        0 => (g * scalar::<N>(x)).to_affine(),
        1 => {
            let a = random_scalar(rng, r);
            let b = (x + r - &a) % r;
            (g * scalar::<N>(&a) + g * scalar::<N>(&b)).to_affine()
        }
        2 => {
            // x = 2·h + (x mod 2) over the integers
            let h = x >> 1;
            let mut p = (g * scalar::<N>(&h)).double();
            if x.bit(0) {
                p += g;
            }
            G1A::<N>::from(p)
        }
        _ => {
            let pts = [g * scalar::<N>(x), g.double()];
            let mut out = [G1A::<N>::identity(); 2];
            G1::<N>::batch_normalize(&pts, &mut out);
            out[0]
        }
    }
}

fn g2_point<N: Eng>(rng: &mut ChaCha8Rng, r: &BigUint, y: &BigUint, route: usize) -> G2A<N> {
    let g = G2::<N>::generator();
    match route % 4 {
        0 => (g * scalar::<N>(y)).to_affine(),
        1 => {
            let a = random_scalar(rng, r);
            let b = (y + r - &a) % r;
            (g * scalar::<N>(&a) + g * scalar::<N>(&b)).to_affine()
        }
        2 => {
            let h = y >> 1;
            let mut p = (g * scalar::<N>(&h)).double();
            if y.bit(0) {
                p += g;
            }
            G2A::<N>::from(p)
        }
        _ => {
            let pts = [g * scalar::<N>(y), g.double()];
            let mut out = [G2A::<N>::identity(); 2];
            G2::<N>::batch_normalize(&pts, &mut out);
            out[0]
        }
    }
}

fn pairs_str(pairs: &[(BigUint, BigUint)]) -> String {
    if pairs.is_empty() {
        "-".to_string()
    } else {
        pairs.iter().map(|(x, y)| format!("{}:{}", mzkh::big_hex(x), mzkh::big_hex(y))).collect::<Vec<_>>().join(",")
    }
}

/// How a list of pairs is generated.
#[derive(Clone, Copy, Debug)]
enum ListMode {
    Random,
    WithIdentities,
    AllIdentity,
    Boundary,
    Cancelling,
    Repeated,
}

fn gen_list(rng: &mut ChaCha8Rng, r: &BigUint, n: usize, mode: ListMode) -> Vec<(BigUint, BigUint)> {
    let zero = BigUint::zero();
    let mut v: Vec<(BigUint, BigUint)> = vec![];
    match mode {
        ListMode::Random => {
            for _ in 0..n {
                v.push((random_scalar(rng, r), random_scalar(rng, r)));
            }
        }
        ListMode::WithIdentities => {
            for _ in 0..n {
                let k = rng.gen_range(0..4);
                let x = if k == 0 || k == 3 { zero.clone() } else { random_scalar(rng, r) };
                let y = if k == 1 || (k == 3 && rng.gen_bool(0.5)) { zero.clone() } else { random_scalar(rng, r) };
                v.push((x, y));
            }
        }
        ListMode::AllIdentity => {
            for i in 0..n {
                let x = if i % 2 == 0 { zero.clone() } else { random_scalar(rng, r) };
                let y = if i % 2 == 1 { zero.clone() } else { random_scalar(rng, r) };
                v.push((x, y));
            }
        }
        ListMode::Boundary => {
            for _ in 0..n {
                let (a, b) = (rng.gen_range(0..7), rng.gen_range(0..7));
                v.push((scalar_class(rng, r, a), scalar_class(rng, r, b)));
            }
        }
        ListMode::Cancelling => {
            // pairs (x, y), (r − x, y): the product is the identity without any factor being it
            while v.len() + 1 < n {
                let (x, y) = (random_scalar(rng, r), random_scalar(rng, r));
                v.push(((r - &x) % r, y.clone()));
                v.push((x, y));
            }
            if v.len() < n {
                v.push((zero.clone(), random_scalar(rng, r)));
            }
        }
        ListMode::Repeated => {
            let (x, y) = (random_scalar(rng, r), random_scalar(rng, r));
            for _ in 0..n {
                v.push((x.clone(), y.clone()));
            }
        }
    }
    v
}

/// All entry points on one list of pairs; every entry point must agree with the model and with
/// each other.
fn run_list<N: Eng>(ctx: &mut Ctx, rng: &mut ChaCha8Rng, r: &BigUint, pairs: &[(BigUint, BigUint)], mode: &str)
where
    GtOf<N>: std::iter::Sum<GtOf<N>> + PartialEq + std::fmt::Debug,
    G1A<N>: PartialEq + std::fmt::Debug,
    G2A<N>: PartialEq + std::fmt::Debug,
{
    // a panic anywhere in the entry points on valid points is itself a failure of the property
    let res = mzkh::catch(std::panic::AssertUnwindSafe(|| run_list_inner::<N>(&mut *ctx, &mut *rng, r, pairs, mode)));
    if let Err(msg) = res {
        ctx.oracle_fail(&format!("{}:panic:pairing-entry-point", N::TAG), "a pairing entry point panicked on a list of valid points",
            json!({"engine": N::TAG, "pairs (x:y, points xG1,yG2)": pairs_str(pairs), "mode": mode, "panic": msg}));
    }
}

fn run_list_inner<N: Eng>(ctx: &mut Ctx, rng: &mut ChaCha8Rng, r: &BigUint, pairs: &[(BigUint, BigUint)], mode: &str)
where
    GtOf<N>: std::iter::Sum<GtOf<N>> + PartialEq + std::fmt::Debug,
    G1A<N>: PartialEq + std::fmt::Debug,
    G2A<N>: PartialEq + std::fmt::Debug,
{
    let tag = N::TAG;
    let n = pairs.len();
    let ps: Vec<G1A<N>> = pairs.iter().map(|(x, _)| g1_point::<N>(rng, r, x, 0)).collect();
    let qs: Vec<G2A<N>> = pairs.iter().map(|(_, y)| g2_point::<N>(rng, r, y, 0)).collect();
    let arg = pairs_str(pairs);
    let mut results: Vec<(String, El)> = vec![];

    // (a) sum of the individual pairings, Gt written additively
    let sum: GtOf<N> = ps.iter().zip(qs.iter()).map(|(p, q)| <N::E as Engine>::pairing(p, q)).sum();
    results.push(("sum".into(), N::gt_out(&sum)));
    // fold with `+` from the identity
    let mut acc = GtOf::<N>::identity();
    for (p, q) in ps.iter().zip(qs.iter()) {
        acc = acc + <N::E as Engine>::pairing(p, q);
    }
    results.push(("fold".into(), N::gt_out(&acc)));

    // (b) one multi Miller loop over prepared points, then the final exponentiation
    let prepared: Vec<Prep<N>> = qs.iter().map(|q| Prep::<N>::from(*q)).collect();
    let terms: Vec<(&G1A<N>, &Prep<N>)> = ps.iter().zip(prepared.iter()).collect();
    let mml = <N::E as MultiMillerLoop>::multi_miller_loop(&terms).final_exponentiation();
    results.push(("mml".into(), N::gt_out(&mml)));

    // (c) the same with every point reached through projective arithmetic (Z ≠ 1 before
    // normalisation), conversion routes rotating
    let ps2: Vec<G1A<N>> = pairs.iter().enumerate().map(|(i, (x, _))| g1_point::<N>(rng, r, x, 1 + i % 3)).collect();
    let qs2: Vec<G2A<N>> = pairs.iter().enumerate().map(|(i, (_, y))| g2_point::<N>(rng, r, y, 1 + (i + 1) % 3)).collect();
    for (i, (a, b)) in ps.iter().zip(ps2.iter()).enumerate() {
        if a != b {
            ctx.oracle_fail(&format!("{tag}:g1-normalisation-routes"), "projective→affine conversion routes of G1 disagree",
                json!({"x": mzkh::big_hex(&pairs[i].0), "route": 1 + i % 3}));
        }
    }
    for (i, (a, b)) in qs.iter().zip(qs2.iter()).enumerate() {
        if a != b {
            ctx.oracle_fail(&format!("{tag}:g2-normalisation-routes"), "projective→affine conversion routes of G2 disagree",
                json!({"y": mzkh::big_hex(&pairs[i].1), "route": 1 + (i + 1) % 3}));
        }
    }
    let prepared2: Vec<Prep<N>> = qs2.iter().map(|q| Prep::<N>::from(*q)).collect();
    let terms2: Vec<(&G1A<N>, &Prep<N>)> = ps2.iter().zip(prepared2.iter()).collect();
    let mml2 = <N::E as MultiMillerLoop>::multi_miller_loop(&terms2).final_exponentiation();
    results.push(("mml-proj".into(), N::gt_out(&mml2)));

    // (d) the list split in two Miller loops whose results are combined before the final
    // exponentiation (only where `+` on Miller-loop results is the group operation)
    if N::ML_ADD_IS_PRODUCT && n >= 1 {
        let k = rng.gen_range(0..=n);
        let a = <N::E as MultiMillerLoop>::multi_miller_loop(&terms[..k]);
        let b = <N::E as MultiMillerLoop>::multi_miller_loop(&terms[k..]);
        let mut c = a;
        c += &b;
        results.push(("mml-split".into(), N::gt_out(&(a + b).final_exponentiation())));
        results.push(("mml-split-assign".into(), N::gt_out(&c.final_exponentiation())));
    }
    // (e) reversed order
    if n >= 2 {
        let rev: Vec<(&G1A<N>, &Prep<N>)> = terms.iter().rev().cloned().collect();
        results.push(("mml-rev".into(), N::gt_out(&<N::E as MultiMillerLoop>::multi_miller_loop(&rev).final_exponentiation())));
    }
    // (f) single pair: the unprepared entry points
    if n == 1 {
        results.push(("pairing".into(), N::gt_out(&<N::E as Engine>::pairing(&ps[0], &qs[0]))));
        results.push(("pairing-with-g1".into(), N::gt_out(&ps[0].pairing_with(&qs[0]))));
        results.push(("pairing-with-g2".into(), N::gt_out(&qs[0].pairing_with(&ps[0]))));
        results.push(("pairing-proj".into(), N::gt_out(&<N::E as Engine>::pairing(&ps2[0], &qs2[0]))));
    }

    let first = results[0].1.clone();
    for (entry, val) in &results {
        ctx.case(&format!("pp-{tag}-{entry}"), n > 0, &format!("pp {tag} {entry} {arg}"), &fmt_el(val));
        if *val != first {
            ctx.oracle_fail(
                &format!("{tag}:entry-points-disagree:{entry}"),
                "multi-Miller-loop + final exponentiation differs from the product of the individual pairings / between entry points",
                json!({"engine": tag, "entry": entry, "pairs (x:y, points xG1,yG2)": arg, "len": n, "mode": mode}),
            );
        }
    }
    ctx.count(&format!("list:{tag}:len={n}"));
    ctx.count(&format!("list:{tag}:mode={mode}"));
    let ids = pairs.iter().filter(|(x, y)| x.is_zero() || y.is_zero()).count();
    ctx.count(&format!("list:{tag}:identity-pairs={}", ids.min(3)));

    // the product is the identity iff Σ xᵢyᵢ ≡ 0 (mod r)
    let mut s = BigUint::zero();
    for (x, y) in pairs {
        s = (s + x * y) % r;
    }
    let is_id = bool::from(mml.is_identity());
    if is_id != s.is_zero() {
        ctx.oracle_fail(&format!("{tag}:product-identity"), "product of pairings is the identity iff the exponents cancel — violated",
            json!({"engine": tag, "pairs": arg, "is_identity": is_id}));
    }
}

/// `e(aP, bQ) = e(P, Q)^(ab)` and non-degeneracy on one sample.
fn run_bilinear<N: Eng>(ctx: &mut Ctx, rng: &mut ChaCha8Rng, r: &BigUint, a: &BigUint, b: &BigUint, x: &BigUint, y: &BigUint, cls: &str)
where
    GtOf<N>: PartialEq + std::fmt::Debug,
{
    let res = mzkh::catch(std::panic::AssertUnwindSafe(|| run_bilinear_inner::<N>(&mut *ctx, &mut *rng, r, a, b, x, y, cls)));
    if let Err(msg) = res {
        ctx.oracle_fail(&format!("{}:panic:pairing", N::TAG), "pairing panicked on valid points",
            json!({"engine": N::TAG, "a": mzkh::big_hex(a), "b": mzkh::big_hex(b), "x": mzkh::big_hex(x), "y": mzkh::big_hex(y), "panic": msg}));
    }
}

fn run_bilinear_inner<N: Eng>(ctx: &mut Ctx, rng: &mut ChaCha8Rng, r: &BigUint, a: &BigUint, b: &BigUint, x: &BigUint, y: &BigUint, cls: &str)
where
    GtOf<N>: PartialEq + std::fmt::Debug,
{
    let tag = N::TAG;
    let p = g1_point::<N>(rng, r, x, 0);
    let q = g2_point::<N>(rng, r, y, 0);
    let ap = (p * scalar::<N>(a)).to_affine();
    let bq = (q * scalar::<N>(b)).to_affine();
    let lhs = <N::E as Engine>::pairing(&ap, &bq);
    let base = <N::E as Engine>::pairing(&p, &q);
    let ab = (a * b) % r;
    let rhs = base * scalar::<N>(&ab);
    let line = format!("bilin {tag} {} {} {} {}", mzkh::big_hex(a), mzkh::big_hex(b), mzkh::big_hex(x), mzkh::big_hex(y));
    ctx.case(&format!("bilin-{tag}"), true, &line, &fmt_el(&N::gt_out(&lhs)));
    // the scalar multiplication of Gt on the value e(P,Q)
    ctx.case(
        &format!("gtmul-{tag}"),
        true,
        &format!("gtmul {tag} {} {}", fmt_el(&N::gt_out(&base)), mzkh::big_hex(&ab)),
        &fmt_el(&N::gt_out(&rhs)),
    );
    ctx.count(&format!("bilin:{tag}:{cls}"));
    if lhs != rhs {
        ctx.oracle_fail(&format!("{tag}:bilinearity"), "e(aP, bQ) != e(P, Q)^(ab)",
            json!({"engine": tag, "a": mzkh::big_hex(a), "b": mzkh::big_hex(b), "P": format!("{}·G1", mzkh::big_hex(x)), "Q": format!("{}·G2", mzkh::big_hex(y))}));
    }
    // also e(aP, bQ) = e(bP, aQ) = e(abP, Q) = e(P, abQ)
    let bp = (p * scalar::<N>(b)).to_affine();
    let aq = (q * scalar::<N>(a)).to_affine();
    let abp = (p * scalar::<N>(&ab)).to_affine();
    let abq = (q * scalar::<N>(&ab)).to_affine();
    let alts = [
        ("e(bP,aQ)", <N::E as Engine>::pairing(&bp, &aq)),
        ("e(abP,Q)", <N::E as Engine>::pairing(&abp, &q)),
        ("e(P,abQ)", <N::E as Engine>::pairing(&p, &abq)),
    ];
    for (what, v) in alts.iter() {
        if *v != lhs {
            ctx.oracle_fail(&format!("{tag}:bilinearity:{what}"), "e(aP, bQ) differs from a re-association of the scalars",
                json!({"engine": tag, "which": what, "a": mzkh::big_hex(a), "b": mzkh::big_hex(b), "x": mzkh::big_hex(x), "y": mzkh::big_hex(y)}));
        }
    }
    // non-degeneracy: identity iff aP or bQ is the identity
    let expect_id = ((a * x) % r).is_zero() || ((b * y) % r).is_zero();
    let p_or_q_id = bool::from(ap.is_identity()) || bool::from(bq.is_identity());
    let is_id = bool::from(lhs.is_identity());
    if is_id != expect_id || p_or_q_id != expect_id {
        ctx.oracle_fail(&format!("{tag}:non-degeneracy"), "e(P, Q) is the identity iff P or Q is the identity — violated",
            json!({"engine": tag, "a": mzkh::big_hex(a), "b": mzkh::big_hex(b), "x": mzkh::big_hex(x), "y": mzkh::big_hex(y), "is_identity": is_id}));
    }
    ctx.count(&format!("nondeg:{tag}:{}", if expect_id { "identity" } else { "non-identity" }));
}

/// Group-notation operators of `Gt` on pairing values, and membership in the order-`r` subgroup.
fn run_gt_ops<N: Eng>(ctx: &mut Ctx, rng: &mut ChaCha8Rng, r: &BigUint, reps: usize)
where
    GtOf<N>: PartialEq + std::fmt::Debug + std::iter::Sum<GtOf<N>>,
{
    let tag = N::TAG;
    let mut vals: Vec<(GtOf<N>, &'static str)> = vec![(GtOf::<N>::identity(), "identity")];
    let g1 = G1A::<N>::generator();
    let g2 = G2A::<N>::generator();
    vals.push((<N::E as Engine>::pairing(&g1, &g2), "e(G1,G2)"));
    vals.push((-<N::E as Engine>::pairing(&g1, &g2), "-e(G1,G2)"));
    for _ in 0..reps {
        let (x, y) = (random_scalar(rng, r), random_scalar(rng, r));
        let p = g1_point::<N>(rng, r, &x, 0);
        let q = g2_point::<N>(rng, r, &y, 0);
        vals.push((<N::E as Engine>::pairing(&p, &q), "random"));
    }
    for (i, (a, ca)) in vals.iter().enumerate() {
        let sa = fmt_el(&N::gt_out(a));
        ctx.case(&format!("gt-{tag}-neg"), i > 0, &format!("gt {tag} neg {sa}"), &fmt_el(&N::gt_out(&(-*a))));
        ctx.case(&format!("gt-{tag}-dbl"), i > 0, &format!("gt {tag} dbl {sa}"), &fmt_el(&N::gt_out(&a.double())));
        // order-r subgroup: r·a = (r−1)·a + a = identity; the model re-checks a^r = 1 on the value
        let rm1 = *a * scalar::<N>(&(r - BigUint::one()));
        let in_subgroup = bool::from((rm1 + *a).is_identity());
        ctx.case(&format!("order-{tag}"), i > 0, &format!("order {tag} {sa}"), if in_subgroup { "1" } else { "0" });
        if !in_subgroup {
            ctx.oracle_fail(&format!("{tag}:gt-order"), "a pairing value is not in the order-r subgroup", json!({"engine": tag, "value": sa, "class": ca}));
        }
        if (*a + (-*a)) != GtOf::<N>::identity() || (*a - *a) != GtOf::<N>::identity() {
            ctx.oracle_fail(&format!("{tag}:gt-neg"), "a + (−a) is not the identity of Gt", json!({"engine": tag, "value": sa}));
        }
        for (j, (b, _)) in vals.iter().enumerate() {
            if i >= 4 && j >= 4 && (i + j) % 3 != 0 {
                continue;
            }
            let sb = fmt_el(&N::gt_out(b));
            ctx.case(&format!("gt-{tag}-add"), i > 0 && j > 0, &format!("gt {tag} add {sa} {sb}"), &fmt_el(&N::gt_out(&(*a + *b))));
            ctx.case(&format!("gt-{tag}-sub"), i > 0 && j > 0, &format!("gt {tag} sub {sa} {sb}"), &fmt_el(&N::gt_out(&(*a - *b))));
            let mut c = *a;
            c += *b;
            let mut d = *a;
            d -= *b;
            if c != *a + *b || d != *a - *b || (*a + *b) != (*b + *a) {
                ctx.oracle_fail(&format!("{tag}:gt-assign-ops"), "Gt += / −= / commutativity disagree with + / −", json!({"engine": tag, "a": sa, "b": sb}));
            }
        }
        // scalar multiplication by boundary scalars
        for k in 0..8 {
            let s = scalar_class(rng, r, k + if k == 7 { 2 } else { 0 });
            let v = *a * scalar::<N>(&s);
            ctx.case(&format!("gtmul-{tag}"), i > 0, &format!("gtmul {tag} {sa} {}", mzkh::big_hex(&s)), &fmt_el(&N::gt_out(&v)));
            let mut w = *a;
            w *= scalar::<N>(&s);
            if w != v {
                ctx.oracle_fail(&format!("{tag}:gt-mul-assign"), "Gt *= scalar disagrees with *", json!({"engine": tag, "a": sa, "s": mzkh::big_hex(&s)}));
            }
        }
    }
    // Sum of an empty iterator is the identity
    let empty: GtOf<N> = Vec::<GtOf<N>>::new().into_iter().sum();
    if empty != GtOf::<N>::identity() {
        ctx.oracle_fail(&format!("{tag}:gt-empty-sum"), "empty Sum of Gt is not the identity", json!({"engine": tag}));
    }
}

pub fn run_engine<N: Eng>(ctx: &mut Ctx)
where
    GtOf<N>: std::iter::Sum<GtOf<N>> + PartialEq + std::fmt::Debug,
    G1A<N>: PartialEq + std::fmt::Debug,
    G2A<N>: PartialEq + std::fmt::Debug,
{
    let tag = N::TAG;
    let r = modulus::<Fr<N>>();
    let mut rng = ctx.rng(&format!("pair-{tag}"));
    let quick = ctx.quick();
    let search = ctx.search();

    // ---- lists of length 0..8
    let modes = [ListMode::Random, ListMode::WithIdentities, ListMode::AllIdentity, ListMode::Boundary, ListMode::Cancelling, ListMode::Repeated];
    let reps = if quick { 1 } else if search { 2 } else { 6 };
    for rep in 0..reps {
        for n in 0..=8usize {
            for mode in modes.iter() {
                if n == 0 && (rep > 0 || !matches!(mode, ListMode::Random)) {
                    continue;
                }
                if quick && n >= 5 && matches!(mode, ListMode::Repeated | ListMode::AllIdentity) && n % 2 == 1 {
                    continue;
                }
                let pairs = gen_list(&mut rng, &r, n, *mode);
                run_list::<N>(ctx, &mut rng, &r, &pairs, &format!("{mode:?}"));
            }
        }
    }
    // identities at every position of lists of every length 1..8: the identity in G1, in G2, and two
    // consecutive identity pairs (one per group). Small discrete logarithms keep the model cheap; the
    // control flow (which pairs are skipped, how the first term is assigned) is what is compared.
    // A slip such as "skip the pair that follows an identity pair" changes every one of these lists
    // in which the identity is not last.
    {
        let zero = BigUint::zero();
        for n in 1..=8usize {
            for pos in 0..n {
                for kind in 0..3usize {
                    if kind == 2 && (n < 2 || (quick && (pos + n) % 2 == 1)) {
                        continue;
                    }
                    let mut pairs: Vec<(BigUint, BigUint)> =
                        (0..n).map(|_| (BigUint::from(rng.gen_range(2u32..65536)), BigUint::from(rng.gen_range(2u32..65536)))).collect();
                    match kind {
                        0 => pairs[pos].0 = zero.clone(),
                        1 => pairs[pos].1 = zero.clone(),
                        _ => {
                            pairs[pos].0 = zero.clone();
                            pairs[(pos + 1) % n].1 = zero.clone();
                        }
                    }
                    run_list::<N>(ctx, &mut rng, &r, &pairs, "IdentityAtPosition");
                    ctx.count(&format!("list:{tag}:identity-at={}/{}", pos, n));
                    // `G2Prepared::from` / `is_identity` of every second component
                    for (_, y) in pairs.iter() {
                        let q = g2_point::<N>(&mut rng, &r, y, 0);
                        let is_id = N::prepared_is_identity(&Prep::<N>::from(q));
                        ctx.case(&format!("prep-{tag}"), !y.is_zero(), &format!("prep {tag} {}", mzkh::big_hex(y)), if is_id { "1" } else { "0" });
                    }
                }
            }
        }
    }
    // every single-pair combination of boundary scalars {0, 1, r−1, 2, random}
    for xa in [0usize, 1, 2, 3, 9] {
        for ya in [0usize, 1, 2, 3, 9] {
            let pairs = vec![(scalar_class(&mut rng, &r, xa), scalar_class(&mut rng, &r, ya))];
            run_list::<N>(ctx, &mut rng, &r, &pairs, "single-boundary");
        }
    }

    // ---- bilinearity samples: a, b ∈ {0, 1, r−1, random, …}
    let classes: Vec<usize> = if quick { vec![0, 1, 2, 9] } else { vec![0, 1, 2, 3, 4, 5, 6, 9] };
    let breps = if quick { 1 } else { 3 };
    for _ in 0..breps {
        for &ca in &classes {
            for &cb in &classes {
                let a = scalar_class(&mut rng, &r, ca);
                let b = scalar_class(&mut rng, &r, cb);
                let (x, y) = if (ca + cb) % 2 == 0 { (BigUint::one(), BigUint::one()) } else { (random_scalar(&mut rng, &r), random_scalar(&mut rng, &r)) };
                run_bilinear::<N>(ctx, &mut rng, &r, &a, &b, &x, &y, &format!("a-class{ca}-b-class{cb}"));
            }
        }
    }
    // identities as base points
    for (x, y) in [(0u32, 1u32), (1, 0), (0, 0)] {
        let a = random_scalar(&mut rng, &r);
        let b = random_scalar(&mut rng, &r);
        run_bilinear::<N>(ctx, &mut rng, &r, &a, &b, &BigUint::from(x), &BigUint::from(y), "identity-base");
    }

    // ---- Gt operators
    run_gt_ops::<N>(ctx, &mut rng, &r, if quick { 3 } else { 8 });
    let _ = Fr::<N>::ONE;
}
