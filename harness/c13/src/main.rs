//! Correspondence harness of property C13 (pairing: bilinearity, non-degeneracy, entry points).
use mzkh::Ctx;

mod tower;

fn main() {
    let mut ctx = Ctx::from_args("C13");
    tower::run(&mut ctx);
    ctx.finish();
}
