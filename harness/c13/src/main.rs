//! Correspondence harness of property C13 (pairing: bilinearity, non-degeneracy, entry points).
use mzkh::Ctx;

mod direct;
mod pair;
mod tower;

fn main() {
    let mut ctx = Ctx::from_args("C13");
    tower::run(&mut ctx);
    pair::run_engine::<pair::Bls>(&mut ctx);
    pair::run_engine::<pair::Bn>(&mut ctx);
    direct::run(&mut ctx);
    ctx.finish();
}
