//! Correspondence harness of property C13 (probe version).
use group::Group;
use midnight_curves::pairing::{MillerLoopResult, MultiMillerLoop};
use midnight_curves::{Bls12, Gt};
use mzkh::Ctx;

fn main() {
    let ctx = Ctx::from_args("C13");
    eprintln!("{:?}", Bls12::multi_miller_loop(&[]));
    let r = mzkh::catch(|| Bls12::multi_miller_loop(&[]).final_exponentiation());
    match r {
        Ok(g) => eprintln!("empty bls: is_identity={} {:?}", bool::from(g.is_identity()), g == Gt::identity()),
        Err(e) => eprintln!("empty bls: panic {e}"),
    }
    {
        use midnight_curves::bn256::Bn256;
        let r = mzkh::catch(|| Bn256::multi_miller_loop(&[]).final_exponentiation());
        match r {
            Ok(g) => eprintln!("empty bn: is_identity={}", bool::from(g.is_identity())),
            Err(e) => eprintln!("empty bn: panic {e}"),
        }
    }
    ctx.finish();
}
