//! Correspondence harness of property C13 (stub).
use mzkh::Ctx;

fn main() {
    let ctx = Ctx::from_args("C13");
    ctx.finish();
}
