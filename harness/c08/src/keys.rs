//! Real key generation / proving / verification for relations exposing mixed inputs:
//! the number of raw public inputs recorded in the verifying key (`MidnightVK::write`) against
//! the length of `format_instance`, and the verifier's behaviour on vectors of other lengths.
use std::collections::HashMap;

use midnight_curves::Bls12;
use midnight_proofs::{plonk::Error, poly::kzg::params::ParamsKZG, utils::SerdeFormat};
use midnight_zk_stdlib::{MidnightCircuit, MidnightVK, Relation, ZkStdLibArch};
use rand_chacha::ChaCha8Rng;
use rand_core::SeedableRng;

use crate::{
    rel::MixRelation,
    vals::{Item, F},
};

pub type H = blake2b_simd::State;

pub struct Srs {
    cache: HashMap<u32, ParamsKZG<Bls12>>,
}

impl Srs {
    pub fn new() -> Self {
        Srs { cache: HashMap::new() }
    }
    /// Deterministic (seed-independent) parameters of size exactly `k`.
    pub fn get(&mut self, k: u32) -> &ParamsKZG<Bls12> {
        self.cache
            .entry(k)
            .or_insert_with(|| ParamsKZG::<Bls12>::unsafe_setup(k, ChaCha8Rng::seed_from_u64(0xC08 + k as u64)))
    }
}

/// `nb_public_inputs` as written by `MidnightVK::write`: architecture header (read back with the
/// public reader), one byte `max_bit_len`, then the count as u32 little-endian.
pub fn nb_public_inputs_of(vk: &MidnightVK) -> Result<usize, String> {
    let mut bytes = vec![];
    vk.write(&mut bytes, SerdeFormat::RawBytes).map_err(|e| e.to_string())?;
    let mut cur = std::io::Cursor::new(&bytes[..]);
    ZkStdLibArch::read(&mut cur).map_err(|e| e.to_string())?;
    let pos = cur.position() as usize;
    if bytes.len() < pos + 5 {
        return Err("short vk".into());
    }
    Ok(u32::from_le_bytes(bytes[pos + 1..pos + 5].try_into().unwrap()) as usize)
}

pub struct Keyed {
    pub k: u32,
    pub vk: MidnightVK,
    pub nb: usize,
}

pub fn keygen<R: Relation>(srs: &mut Srs, rel: &R) -> Result<Keyed, String> {
    let k = MidnightCircuit::from_relation(rel).min_k();
    let params = srs.get(k);
    let vk = midnight_zk_stdlib::setup_vk(params, rel);
    let nb = nb_public_inputs_of(&vk)?;
    Ok(Keyed { k, vk, nb })
}

pub struct ProofRun {
    pub honest_ok: bool,
    pub honest_err: String,
    /// verdict of `batch_verify` on the honest raw vector (must be Ok)
    pub batch_ok: bool,
    /// `batch_verify` with one extra element appended: must be `InvalidInstances`
    pub longer: String,
    /// `batch_verify` with the last element dropped (when there is one): must be `InvalidInstances`
    pub shorter: String,
    /// `batch_verify` with each single position edited (+1): number rejected / tried
    pub edits_rejected: usize,
    pub edits_tried: usize,
}

fn err_class(r: Result<(), Error>) -> String {
    match r {
        Ok(()) => "ok".into(),
        Err(Error::InvalidInstances) => "invalid-instances".into(),
        Err(Error::Opening) => "opening".into(),
        Err(e) => format!("{e:?}").chars().take(40).collect(),
    }
}

/// Honest proof for `items`, then the verifier on the honest instance and on raw vectors of
/// other lengths / edited vectors.
pub fn prove_and_verify(srs: &mut Srs, rel: &MixRelation, keyed: &Keyed, items: &[Item], edit_positions: &[usize]) -> Result<ProofRun, String> {
    let params = srs.get(keyed.k).clone();
    let pk = midnight_zk_stdlib::setup_pk(rel, &keyed.vk);
    let inst = items.to_vec();
    let proof = midnight_zk_stdlib::prove::<MixRelation, H>(&params, &pk, rel, &inst, (), ChaCha8Rng::seed_from_u64(0xC08))
        .map_err(|e| format!("prove: {e:?}"))?;
    let vp = params.verifier_params();
    let honest = midnight_zk_stdlib::verify::<MixRelation, H>(&vp, &keyed.vk, &inst, None, &proof);
    let pi = MixRelation::format_instance(&inst).map_err(|e| format!("{e:?}"))?;
    let bv = |v: Vec<F>| midnight_zk_stdlib::batch_verify::<H>(&vp, &[keyed.vk.clone()], &[v], &[proof.clone()]);
    let batch_ok = bv(pi.clone()).is_ok();
    let mut longer = pi.clone();
    longer.push(F::from(0u64));
    let longer0 = err_class(bv(longer));
    let mut longer1 = pi.clone();
    longer1.push(F::from(1u64));
    let longer1 = err_class(bv(longer1));
    let shorter = if pi.is_empty() {
        "n/a".to_string()
    } else {
        err_class(bv(pi[..pi.len() - 1].to_vec()))
    };
    let mut rej = 0;
    for &i in edit_positions {
        let mut v = pi.clone();
        v[i] += F::from(1u64);
        if bv(v).is_err() {
            rej += 1;
        }
    }
    Ok(ProofRun {
        honest_ok: honest.is_ok(),
        honest_err: match honest {
            Ok(()) => String::new(),
            Err(e) => format!("{e:?}"),
        },
        batch_ok,
        longer: format!("{longer0}/{longer1}"),
        shorter,
        edits_rejected: rej,
        edits_tried: edit_positions.len(),
    })
}
