//! The verifier-gadget value types: verifying-key identities, MSMs and accumulators
//! (plain and with committed scalars), exposed by a circuit built like the IVC example
//! (native chip + pow2range decomposition + foreign BLS12-381 G1 chip + Poseidon).
use std::collections::BTreeMap;

use group::Group;
use midnight_circuits::{
    ecc::{
        curves::CircuitCurve,
        foreign::{nb_foreign_ecc_chip_columns, ForeignEccChip, ForeignEccConfig},
    },
    field::{
        decomposition::{
            chip::{P2RDecompositionChip, P2RDecompositionConfig},
            pow2range::Pow2RangeChip,
        },
        foreign::FieldChip,
        native::NB_ARITH_COLS,
        NativeChip, NativeConfig, NativeGadget,
    },
    hash::poseidon::{PoseidonChip, PoseidonConfig, NB_POSEIDON_ADVICE_COLS, NB_POSEIDON_FIXED_COLS},
    instructions::*,
    types::{ComposableChip, Instantiable},
    verifier::{Accumulator, AssignedAccumulator, AssignedMsm, AssignedVk, BlstrsEmulation, Msm, SelfEmulation, VerifierGadget},
};
use midnight_proofs::{
    circuit::{Layouter, SimpleFloorPlanner, Value},
    dev::MockProver,
    plonk::{Circuit, ConstraintSystem, Error, VerifyingKey},
    poly::kzg::KZGCommitmentScheme,
};

use crate::{
    rel::{bound_rows, Bound},
    vals::{fq_list, hex, F},
};

pub type S = BlstrsEmulation;
pub type C = <S as SelfEmulation>::C;
type CBase = <C as CircuitCurve>::Base;
type NG = NativeGadget<F, P2RDecompositionChip<F>, NativeChip<F>>;
pub type Vk = VerifyingKey<F, KZGCommitmentScheme<<S as SelfEmulation>::Engine>>;

/// An MSM value in the request language: `points/scalars/fixed-scalars`.
#[derive(Clone, Debug)]
pub struct MsmVal {
    pub bases: Vec<C>,
    pub scalars: Vec<F>,
    /// (name, scalar), any order; the BTreeMap sorts by name.
    pub fixed: Vec<(String, F)>,
}

impl MsmVal {
    pub fn to_msm(&self) -> Msm<S> {
        let map: BTreeMap<String, F> = self.fixed.iter().cloned().collect();
        Msm::new(&self.bases, &self.scalars, &map)
    }
    /// Token; fixed scalars are listed in key order (what the `BTreeMap` iterates).
    pub fn token(&self) -> String {
        let pts = if self.bases.is_empty() {
            "-".to_string()
        } else {
            self.bases
                .iter()
                .map(|p| {
                    if bool::from(p.is_identity()) {
                        "id".to_string()
                    } else {
                        let (x, y) = CircuitCurve::coordinates(p).expect("affine");
                        format!("{}:{}", hex(&x), hex(&y))
                    }
                })
                .collect::<Vec<_>>()
                .join(";")
        };
        let map: BTreeMap<String, F> = self.fixed.iter().cloned().collect();
        let fx: Vec<F> = map.values().cloned().collect();
        format!("{}/{}/{}", pts, fq_list(&self.scalars), fq_list(&fx))
    }
    pub fn names(&self) -> Vec<String> {
        self.fixed.iter().map(|(n, _)| n.clone()).collect()
    }
}

pub fn enc_msm(m: &MsmVal) -> Vec<F> {
    <AssignedMsm<S> as Instantiable<F>>::as_public_input(&m.to_msm())
}
pub fn enc_msm_committed(m: &MsmVal) -> (Vec<F>, Vec<F>) {
    AssignedMsm::<S>::as_public_input_with_committed_scalars(&m.to_msm())
}
pub fn enc_acc(l: &MsmVal, r: &MsmVal) -> Vec<F> {
    <AssignedAccumulator<S> as Instantiable<F>>::as_public_input(&Accumulator::<S>::new(l.to_msm(), r.to_msm()))
}
pub fn enc_acc_committed(l: &MsmVal, r: &MsmVal) -> (Vec<F>, Vec<F>) {
    AssignedAccumulator::<S>::as_public_input_with_committed_scalars(&Accumulator::<S>::new(l.to_msm(), r.to_msm()))
}
pub fn enc_vk(vk: &Vk) -> Vec<F> {
    <AssignedVk<S> as Instantiable<F>>::as_public_input(vk)
}

// ---------------------------------------------------------------------------------------------

#[derive(Clone, Debug)]
pub enum Expose {
    /// `assign_vk_as_public_input`
    Vk,
    /// `AssignedAccumulator::assign` + `VerifierGadget::constrain_as_public_input`
    Acc,
    /// `AssignedAccumulator::assign` + `constrain_acc_as_public_input_with_committed_scalars`
    AccCommitted,
}

#[derive(Clone)]
pub struct VerCircuit {
    pub what: Expose,
    pub vk: Option<Vk>,
    pub lhs: MsmVal,
    pub rhs: MsmVal,
}

pub(crate) type Config = (NativeConfig, P2RDecompositionConfig, ForeignEccConfig<C>, PoseidonConfig<F>);

pub(crate) fn configure(meta: &mut ConstraintSystem<F>) -> Config {
    let nb_advice_cols = nb_foreign_ecc_chip_columns::<F, C, C, NG>();
    let nb_fixed_cols = NB_ARITH_COLS + 4;
    let advice_columns: Vec<_> = (0..nb_advice_cols).map(|_| meta.advice_column()).collect();
    let fixed_columns: Vec<_> = (0..nb_fixed_cols).map(|_| meta.fixed_column()).collect();
    let committed_instance_column = meta.instance_column();
    let instance_column = meta.instance_column();
    let native_config = NativeChip::configure(
        meta,
        &(
            advice_columns[..NB_ARITH_COLS].try_into().unwrap(),
            fixed_columns[..NB_ARITH_COLS + 4].try_into().unwrap(),
            [committed_instance_column, instance_column],
        ),
    );
    let core_decomp_config = {
        let pow2_config = Pow2RangeChip::configure(meta, &advice_columns[1..NB_ARITH_COLS]);
        P2RDecompositionChip::configure(meta, &(native_config.clone(), pow2_config))
    };
    let base_config = FieldChip::<F, CBase, C, NG>::configure(meta, &advice_columns);
    let curve_config = ForeignEccChip::<F, C, C, NG, NG>::configure(meta, &base_config, &advice_columns);
    let poseidon_config = PoseidonChip::configure(
        meta,
        &(
            advice_columns[..NB_POSEIDON_ADVICE_COLS].try_into().unwrap(),
            fixed_columns[..NB_POSEIDON_FIXED_COLS].try_into().unwrap(),
        ),
    );
    (native_config, core_decomp_config, curve_config, poseidon_config)
}

pub(crate) const MAX_BIT_LEN: usize = 8;

impl Circuit<F> for VerCircuit {
    type Config = Config;
    type FloorPlanner = SimpleFloorPlanner;
    type Params = ();

    fn without_witnesses(&self) -> Self {
        unreachable!()
    }

    fn configure(meta: &mut ConstraintSystem<F>) -> Self::Config {
        configure(meta)
    }

    fn synthesize(&self, config: Self::Config, mut layouter: impl Layouter<F>) -> Result<(), Error> {
        let native_chip = <NativeChip<F> as ComposableChip<F>>::new(&config.0, &());
        let core_decomp_chip = P2RDecompositionChip::new(&config.1, &MAX_BIT_LEN);
        let scalar_chip = NativeGadget::new(core_decomp_chip.clone(), native_chip.clone());
        let curve_chip = ForeignEccChip::new(&config.2, &scalar_chip, &scalar_chip);
        let poseidon_chip = PoseidonChip::new(&config.3, &native_chip);
        let verifier_chip = VerifierGadget::<S>::new(&curve_chip, &scalar_chip, &poseidon_chip);
        match self.what {
            Expose::Vk => {
                let vk = self.vk.as_ref().expect("vk");
                let _ = verifier_chip.assign_vk_as_public_input(
                    &mut layouter,
                    "vk",
                    vk.get_domain(),
                    vk.cs(),
                    Value::known(vk.transcript_repr()),
                )?;
            }
            Expose::Acc | Expose::AccCommitted => {
                let acc = Accumulator::<S>::new(self.lhs.to_msm(), self.rhs.to_msm());
                let assigned = AssignedAccumulator::<S>::assign(
                    &mut layouter,
                    &curve_chip,
                    &scalar_chip,
                    self.lhs.bases.len(),
                    self.rhs.bases.len(),
                    &self.lhs.names(),
                    &self.rhs.names(),
                    Value::known(acc),
                )?;
                match self.what {
                    Expose::Acc => verifier_chip.constrain_as_public_input(&mut layouter, &assigned)?,
                    _ => verifier_chip.constrain_acc_as_public_input_with_committed_scalars(&mut layouter, &assigned)?,
                }
            }
        }
        core_decomp_chip.load(&mut layouter)
    }
}

pub struct VerObserved {
    pub plain: Bound,
    pub committed: Bound,
    pub sat: bool,
}

pub fn run<Ci: Circuit<F>>(circuit: &Ci, k: u32, com: &[F], plain: &[F]) -> Result<MockProver<F>, String> {
    MockProver::run(k, circuit, vec![com.to_vec(), plain.to_vec()]).map_err(|e| format!("{e:?}"))
}

pub fn observe<Ci: Circuit<F>>(circuit: &Ci, k: u32, com: &[F], plain: &[F]) -> Result<VerObserved, String> {
    let prover = run(circuit, k, com, plain)?;
    Ok(VerObserved { plain: bound_rows(&prover, 1), committed: bound_rows(&prover, 0), sat: prover.verify().is_ok() })
}

pub fn verdict<Ci: Circuit<F>>(circuit: &Ci, k: u32, com: &[F], plain: &[F]) -> Result<bool, String> {
    Ok(run(circuit, k, com, plain)?.verify().is_ok())
}
