//! Exposure through SEVERAL handles on the native chip, on both instance columns.
//!
//! `NativeChip` is `#[derive(Clone)]` and is cloned into every gadget (`NativeGadget::new`,
//! `ForeignEccChip::new`, `FieldChip::new`, `VerifierGadget::new`, ...); its two instance-row
//! counters are `Rc<RefCell<usize>>` so that all clones hand out consecutive rows. This circuit
//! exposes a sequence of values, each through a named handle:
//!  * `chip`   : the `NativeChip` created in `synthesize`;
//!  * `gadget` : a `NativeGadget` built on a clone of it;
//!  * `g2`     : a second `NativeGadget` built on another clone;
//!  * `eccsc`  : the clone of `gadget` stored inside the foreign ECC chip (`scalar_field_chip()`);
//!  * `ecc`    : the foreign ECC chip itself (points; goes through its own gadget clone);
//!  * `ff`     : the base-field chip of the ECC chip (emulated field elements);
//!  * `ver`    : the `VerifierGadget` (accumulators, plain or with committed scalars).
//! Seeded defect C08-4 (committed counter by value instead of `Rc`) makes the committed rows of
//! different handles collide.
use midnight_circuits::{
    ecc::{curves::CircuitCurve, foreign::ForeignEccChip},
    field::{decomposition::chip::P2RDecompositionChip, NativeChip, NativeGadget},
    hash::poseidon::PoseidonChip,
    instructions::{public_input::CommittedInstanceInstructions, AssignmentInstructions, PublicInputInstructions},
    types::{
        AssignedBit, AssignedByte, AssignedField, AssignedForeignPoint, AssignedNative, ComposableChip, Instantiable,
    },
    verifier::{Accumulator, AssignedAccumulator, VerifierGadget},
};
use midnight_proofs::{
    circuit::{Layouter, SimpleFloorPlanner, Value},
    plonk::{Circuit, ConstraintSystem, Error},
};

use crate::{
    rel::{expose, Path},
    vals::{Item, F},
    ver::{self, MsmVal, C, S},
};

type CBase = <C as CircuitCurve>::Base;
type NG = NativeGadget<F, P2RDecompositionChip<F>, NativeChip<F>>;

#[derive(Clone, Debug)]
pub enum HVal {
    /// A typed value exposed through `Path::{Constrain, Assign, Committed}`.
    It(Path, Item),
    /// An accumulator `(lhs, rhs)`; `true` = with committed scalars.
    Acc(bool, MsmVal, MsmVal),
}

#[derive(Clone, Debug)]
pub struct HStep {
    pub h: &'static str,
    pub v: HVal,
}

impl HStep {
    pub fn token(&self) -> String {
        match &self.v {
            HVal::It(p, it) => format!("{}.{}:{}", self.h, p.tag(), it.token()),
            HVal::Acc(c, l, r) => format!("{}.{}={}|{}", self.h, if *c { "accc" } else { "acc" }, l.token(), r.token()),
        }
    }
    /// (plain, committed) raw vectors of this step with the REAL off-circuit encoders (of the
    /// types the circuit's chips are instantiated with).
    pub fn encode(&self) -> (Vec<F>, Vec<F>) {
        match &self.v {
            HVal::It(p, it) => {
                let e = match it {
                    Item::BlsPoint(pt) => <AssignedForeignPoint<F, C, C> as Instantiable<F>>::as_public_input(pt),
                    Item::BlsBase(x) => <AssignedField<F, CBase, C> as Instantiable<F>>::as_public_input(x),
                    other => other.encode(),
                };
                if *p == Path::Committed {
                    (vec![], e)
                } else {
                    (e, vec![])
                }
            }
            HVal::Acc(false, l, r) => (ver::enc_acc(l, r), vec![]),
            HVal::Acc(true, l, r) => ver::enc_acc_committed(l, r),
        }
    }
}

#[derive(Clone, Debug)]
pub struct HCircuit {
    pub steps: Vec<HStep>,
}

impl HCircuit {
    pub fn raw_vectors(&self) -> (Vec<F>, Vec<F>) {
        let mut plain = vec![];
        let mut com = vec![];
        for s in &self.steps {
            let (p, c) = s.encode();
            plain.extend(p);
            com.extend(c);
        }
        (plain, com)
    }
    pub fn body(&self) -> String {
        self.steps.iter().map(|s| s.token()).collect::<Vec<_>>().join(" ")
    }
}

/// plain or committed exposure of a bit / byte / native value through one handle
fn on_handle<T, Ch>(chip: &Ch, layouter: &mut impl Layouter<F>, path: Path, v: T::Element) -> Result<(), Error>
where
    T: Instantiable<F>,
    T::Element: Clone,
    Ch: AssignmentInstructions<F, T> + PublicInputInstructions<F, T> + CommittedInstanceInstructions<F, T>,
{
    match path {
        Path::Committed => {
            let x: T = chip.assign(layouter, Value::known(v))?;
            chip.constrain_as_committed_public_input(layouter, &x)
        }
        _ => expose::<T, Ch>(chip, layouter, Value::known(v.clone()), path, v),
    }
}

fn native_handle(ng: &NG, layouter: &mut impl Layouter<F>, path: Path, it: &Item) -> Result<(), Error> {
    match it {
        Item::Native(x) => on_handle::<AssignedNative<F>, _>(ng, layouter, path, *x),
        Item::Bit(b) => on_handle::<AssignedBit<F>, _>(ng, layouter, path, *b),
        Item::Byte(b) => on_handle::<AssignedByte<F>, _>(ng, layouter, path, *b),
        other => panic!("handles: {other:?} cannot be exposed through a native gadget"),
    }
}

impl Circuit<F> for HCircuit {
    type Config = ver::Config;
    type FloorPlanner = SimpleFloorPlanner;
    type Params = ();

    fn without_witnesses(&self) -> Self {
        unreachable!()
    }

    fn configure(meta: &mut ConstraintSystem<F>) -> Self::Config {
        ver::configure(meta)
    }

    fn synthesize(&self, config: Self::Config, mut layouter: impl Layouter<F>) -> Result<(), Error> {
        // the usual way of building the chips (`ZkStdLib::new`, the IVC example)
        let native_chip = <NativeChip<F> as ComposableChip<F>>::new(&config.0, &());
        let core_decomp_chip = P2RDecompositionChip::new(&config.1, &ver::MAX_BIT_LEN);
        let gadget: NG = NativeGadget::new(core_decomp_chip.clone(), native_chip.clone());
        let g2: NG = NativeGadget::new(core_decomp_chip.clone(), native_chip.clone());
        let curve_chip = ForeignEccChip::<F, C, C, NG, NG>::new(&config.2, &gadget, &gadget);
        let poseidon_chip = PoseidonChip::new(&config.3, &native_chip);
        let verifier_chip = VerifierGadget::<S>::new(&curve_chip, &gadget, &poseidon_chip);
        let layouter = &mut layouter;
        for step in &self.steps {
            match (&step.v, step.h) {
                (HVal::It(path, Item::Native(x)), "chip") => on_handle::<AssignedNative<F>, _>(&native_chip, layouter, *path, *x)?,
                (HVal::It(path, Item::Bit(b)), "chip") if *path != Path::Committed => {
                    expose::<AssignedBit<F>, _>(&native_chip, layouter, Value::known(*b), *path, *b)?
                }
                (HVal::It(path, it), "gadget") => native_handle(&gadget, layouter, *path, it)?,
                (HVal::It(path, it), "g2") => native_handle(&g2, layouter, *path, it)?,
                (HVal::It(path, it), "eccsc") => native_handle(curve_chip.scalar_field_chip(), layouter, *path, it)?,
                (HVal::It(path, Item::BlsPoint(p)), "ecc") if *path != Path::Committed => {
                    expose::<AssignedForeignPoint<F, C, C>, _>(&curve_chip, layouter, Value::known(*p), *path, *p)?
                }
                (HVal::It(path, Item::BlsBase(x)), "ff") if *path != Path::Committed => {
                    expose::<AssignedField<F, CBase, C>, _>(curve_chip.base_field_chip(), layouter, Value::known(*x), *path, *x)?
                }
                (HVal::Acc(committed, l, r), "ver") => {
                    let acc = Accumulator::<S>::new(l.to_msm(), r.to_msm());
                    let assigned = AssignedAccumulator::<S>::assign(
                        layouter,
                        &curve_chip,
                        &gadget,
                        l.bases.len(),
                        r.bases.len(),
                        &l.names(),
                        &r.names(),
                        Value::known(acc),
                    )?;
                    if *committed {
                        verifier_chip.constrain_acc_as_public_input_with_committed_scalars(layouter, &assigned)?
                    } else {
                        verifier_chip.constrain_as_public_input(layouter, &assigned)?
                    }
                }
                (v, h) => panic!("handles: unsupported step {h}: {v:?}"),
            }
        }
        core_decomp_chip.load(layouter)
    }
}
