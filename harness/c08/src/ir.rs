//! IR value types: ZKIR programs publishing values of every IR type (loaded, constant, and
//! computed), the off-circuit `public_inputs` + `format_instance` against the compiled circuit.
use std::collections::HashMap;

use group::Group;
use midnight_curves::{Fr as JFr, JubjubExtended, JubjubSubgroup};
use midnight_proofs::{circuit::Value, dev::MockProver};
use midnight_zk_stdlib::{MidnightCircuit, Relation};
use midnight_zkir::{Instruction, IrType, IrValue, Operation, ZkirRelation};
use num_bigint::BigUint;

use crate::{
    rel::{bound_rows, Bound},
    vals::{hex, F},
};

pub fn leak(s: &str) -> &'static str {
    Box::leak(s.to_string().into_boxed_str())
}

pub fn ins(op: Operation, inputs: &[&str], outputs: &[&str]) -> Instruction {
    Instruction {
        operation: op,
        inputs: inputs.iter().map(|s| s.to_string()).collect(),
        outputs: outputs.iter().map(|s| s.to_string()).collect(),
    }
}

/// Token of a published (value, type) pair in the request language of the model.
pub fn ir_token(v: &IrValue, t: &IrType) -> String {
    match (v, t) {
        (IrValue::Bool(b), _) => format!("bit={}", *b as u8),
        (IrValue::Bytes(bs), _) => format!("bytes={}", mzkh::join(bs)),
        (IrValue::Native(x), _) => format!("native={}", hex(x)),
        (IrValue::BigUint(b), IrType::BigUint(nb)) => format!("big:{nb}={}", mzkh::big_hex(b)),
        (IrValue::BigUint(b), _) => format!("big:?={}", mzkh::big_hex(b)),
        (IrValue::JubjubPoint(p), _) => {
            use group::Curve;
            let a = JubjubExtended::from(*p).to_affine();
            format!("jpoint={}:{}", hex(&a.get_u()), hex(&a.get_v()))
        }
        (IrValue::JubjubScalar(s), _) => format!("jscalar={}", hex(s)),
    }
}


pub fn witness_map(w: &[(String, IrValue)]) -> HashMap<&'static str, IrValue> {
    w.iter().map(|(n, v)| (leak(n), v.clone())).collect()
}

pub fn public_inputs(prog: &[Instruction], w: &[(String, IrValue)]) -> Result<(Vec<(IrValue, IrType)>, Vec<F>), String> {
    let rel = ZkirRelation::from_instructions(prog).map_err(|e| format!("{e:?}"))?;
    let inst = rel.public_inputs(witness_map(w)).map_err(|e| format!("{e:?}"))?;
    let pi = ZkirRelation::format_instance(&inst).map_err(|e| format!("{e:?}"))?;
    Ok((inst, pi))
}

fn prover(prog: &[Instruction], w: &[(String, IrValue)], inst: &[(IrValue, IrType)], pi: &[F], k: u32) -> Result<MockProver<F>, String> {
    let rel = ZkirRelation::from_instructions(prog).map_err(|e| format!("{e:?}"))?;
    let circuit = MidnightCircuit::new(&rel, Value::known(inst.to_vec()), Value::known(witness_map(w)), Some(8));
    MockProver::run(k, &circuit, vec![vec![], pi.to_vec()]).map_err(|e| format!("{e:?}"))
}

pub fn min_k(prog: &[Instruction]) -> Result<u32, String> {
    let rel = ZkirRelation::from_instructions(prog).map_err(|e| format!("{e:?}"))?;
    Ok(MidnightCircuit::new(&rel, Value::unknown(), Value::unknown(), Some(8)).min_k())
}

pub fn observe(prog: &[Instruction], w: &[(String, IrValue)], inst: &[(IrValue, IrType)], pi: &[F], k: u32) -> Result<(Bound, bool), String> {
    let p = prover(prog, w, inst, pi, k)?;
    Ok((bound_rows(&p, 1), p.verify().is_ok()))
}

pub fn verdict(prog: &[Instruction], w: &[(String, IrValue)], inst: &[(IrValue, IrType)], pi: &[F], k: u32) -> Result<bool, String> {
    Ok(prover(prog, w, inst, pi, k)?.verify().is_ok())
}

/// Format-instance of one (value, type) pair: `CircuitValue::as_public_input` behind the
/// public `Relation::format_instance`.
pub fn enc_ir(v: &IrValue, t: IrType) -> Result<Vec<F>, String> {
    ZkirRelation::format_instance(&vec![(v.clone(), t)]).map_err(|e| format!("{e:?}"))
}

// ---------------------------------------------------------------------------------------------

pub struct IrCase {
    pub name: String,
    pub prog: Vec<Instruction>,
    pub wit: Vec<(String, IrValue)>,
    /// In-circuit entry point of each published value, for the model (`c` loaded / computed,
    /// `f` constant, `dN` Jubjub scalar from N bytes).
    pub paths: Vec<String>,
    /// The case reproduces the recorded finding.
    pub known_jscalar: bool,
}

fn big(x: u128) -> BigUint {
    BigUint::from(x)
}

pub fn cases(quick: bool) -> Vec<IrCase> {
    use IrType as T;
    use Operation as O;
    let mut v = vec![];
    let w = |pairs: Vec<(&str, IrValue)>| pairs.into_iter().map(|(n, x)| (n.to_string(), x)).collect::<Vec<_>>();
    let g = JubjubSubgroup::generator();
    // every IR type, loaded and published
    v.push(IrCase {
        name: "load-all".into(),
        prog: vec![
            ins(O::Load(T::Bool), &[], &["b0", "b1"]),
            ins(O::Load(T::Bytes(3)), &[], &["by"]),
            ins(O::Load(T::Native), &[], &["n"]),
            ins(O::Load(T::BigUint(97)), &[], &["u"]),
            ins(O::Load(T::JubjubPoint), &[], &["p", "q"]),
            ins(O::Load(T::JubjubScalar), &[], &["s"]),
            ins(O::Publish, &["b0", "by", "n"], &[]),
            ins(O::Publish, &["u", "p", "s", "q", "b1"], &[]),
        ],
        wit: w(vec![
            ("b0", IrValue::Bool(false)),
            ("b1", IrValue::Bool(true)),
            ("by", IrValue::Bytes(vec![0, 255, 7])),
            ("n", IrValue::Native(-F::from(1u64))),
            ("u", IrValue::BigUint((BigUint::from(1u8) << 97u32) - 1u8)),
            ("p", IrValue::JubjubPoint(g)),
            ("q", IrValue::JubjubPoint(JubjubSubgroup::identity())),
            ("s", IrValue::JubjubScalar(-JFr::from(1u64))),
        ]),
        paths: vec!["c"; 8].into_iter().map(String::from).collect(),
        known_jscalar: false,
    });
    // nothing published; a value published twice
    v.push(IrCase {
        name: "publish-none".into(),
        prog: vec![ins(O::Load(T::Native), &[], &["n"])],
        wit: w(vec![("n", IrValue::Native(F::from(5u64)))]),
        paths: vec![],
        known_jscalar: false,
    });
    v.push(IrCase {
        name: "publish-twice".into(),
        prog: vec![ins(O::Load(T::BigUint(200)), &[], &["u"]), ins(O::Publish, &["u", "u"], &[])],
        wit: w(vec![("u", IrValue::BigUint(BigUint::from(1u8) << 199u32))]),
        paths: vec!["c".into(), "c".into()],
        known_jscalar: false,
    });
    // BigUint of several declared sizes; value smaller than the bound
    let nbs: Vec<u32> = if quick { vec![1, 96, 97, 193] } else { vec![1, 2, 8, 95, 96, 97, 128, 191, 192, 193, 288, 289, 400] };
    for nb in nbs {
        for val in [BigUint::from(0u8), (BigUint::from(1u8) << nb) - 1u8] {
            v.push(IrCase {
                name: format!("load-big-{nb}"),
                prog: vec![ins(O::Load(T::BigUint(nb)), &[], &["u"]), ins(O::Publish, &["u"], &[])],
                wit: w(vec![("u", IrValue::BigUint(val))]),
                paths: vec!["c".into()],
                known_jscalar: false,
            });
        }
    }
    // computed BigUints: the published type is the bound derived in-circuit
    for (name, op, a, b, x, y) in [
        ("add", O::Add, 96u32, 96u32, (1u128 << 96) - 1, (1u128 << 96) - 1),
        ("add-small", O::Add, 8, 8, 255, 255),
        ("add-uneven", O::Add, 100, 8, (1u128 << 100) - 1, 255),
        ("mul", O::Mul, 96, 97, (1u128 << 96) - 1, (1u128 << 97) - 1),
        ("mul-small", O::Mul, 8, 8, 255, 255),
        ("sub", O::Sub, 100, 8, 1u128 << 99, 255),
    ] {
        v.push(IrCase {
            name: format!("big-{name}"),
            prog: vec![
                ins(O::Load(T::BigUint(a)), &[], &["x"]),
                ins(O::Load(T::BigUint(b)), &[], &["y"]),
                ins(op, &["x", "y"], &["z"]),
                ins(O::Publish, &["z"], &[]),
            ],
            wit: w(vec![("x", IrValue::BigUint(big(x))), ("y", IrValue::BigUint(big(y)))]),
            paths: vec!["c".into()],
            known_jscalar: false,
        });
    }
    v.push(IrCase {
        name: "big-modexp".into(),
        prog: vec![
            ins(O::Load(T::BigUint(64)), &[], &["x"]),
            ins(O::Load(T::BigUint(100)), &[], &["m"]),
            ins(O::ModExp(3), &["x", "m"], &["z"]),
            ins(O::Publish, &["z"], &[]),
        ],
        wit: w(vec![("x", IrValue::BigUint(big(u64::MAX as u128))), ("m", IrValue::BigUint(big((1u128 << 100) - 3)))]),
        paths: vec!["c".into()],
        known_jscalar: false,
    });
    // conversions
    for n in if quick { vec![1usize, 12, 13, 31] } else { vec![1, 2, 11, 12, 13, 24, 25, 31] } {
        let bytes: Vec<u8> = (0..n).map(|i| (i * 37 + 200) as u8).collect();
        v.push(IrCase {
            name: format!("frombytes-big-{n}"),
            prog: vec![ins(O::Load(T::Bytes(n)), &[], &["b"]), ins(O::FromBytes(T::BigUint(8 * n as u32)), &["b"], &["z"]), ins(O::Publish, &["z"], &[])],
            wit: w(vec![("b", IrValue::Bytes(bytes.clone()))]),
            paths: vec!["c".into()],
            known_jscalar: false,
        });
        v.push(IrCase {
            name: format!("frombytes-native-{n}"),
            prog: vec![ins(O::Load(T::Bytes(n)), &[], &["b"]), ins(O::FromBytes(T::Native), &["b"], &["z"]), ins(O::Publish, &["z"], &[])],
            wit: w(vec![("b", IrValue::Bytes(bytes.clone()))]),
            paths: vec!["c".into()],
            known_jscalar: false,
        });
        v.push(IrCase {
            name: format!("frombytes-jscalar-{n}"),
            prog: vec![ins(O::Load(T::Bytes(n)), &[], &["b"]), ins(O::FromBytes(T::JubjubScalar), &["b"], &["z"]), ins(O::Publish, &["z"], &[])],
            wit: w(vec![("b", IrValue::Bytes(bytes.clone()))]),
            paths: vec![format!("d{n}")],
            known_jscalar: false,
        });
    }
    // the recorded finding, as a ZKIR program
    {
        let mut bytes = vec![0u8; 32];
        bytes[0] = 1;
        v.push(IrCase {
            name: "frombytes-jscalar-32".into(),
            prog: vec![ins(O::Load(T::Bytes(32)), &[], &["b"]), ins(O::FromBytes(T::JubjubScalar), &["b"], &["z"]), ins(O::Publish, &["z"], &[])],
            wit: w(vec![("b", IrValue::Bytes(bytes))]),
            paths: vec!["d32".into()],
            known_jscalar: true,
        });
    }
    v.push(IrCase {
        name: "intobytes-native".into(),
        prog: vec![ins(O::Load(T::Native), &[], &["x"]), ins(O::IntoBytes(32), &["x"], &["b"]), ins(O::Publish, &["b", "x"], &[])],
        wit: w(vec![("x", IrValue::Native(-F::from(2u64)))]),
        paths: vec!["c".into(), "c".into()],
        known_jscalar: false,
    });
    v.push(IrCase {
        name: "intobytes-big".into(),
        prog: vec![ins(O::Load(T::BigUint(100)), &[], &["x"]), ins(O::IntoBytes(13), &["x"], &["b"]), ins(O::Publish, &["b"], &[])],
        wit: w(vec![("x", IrValue::BigUint(big((1u128 << 100) - 1)))]),
        paths: vec!["c".into()],
        known_jscalar: false,
    });
    // Jubjub arithmetic
    v.push(IrCase {
        name: "jubjub-ops".into(),
        prog: vec![
            ins(O::Load(T::JubjubPoint), &[], &["p"]),
            ins(O::Load(T::JubjubScalar), &[], &["s"]),
            ins(O::Mul, &["s", "p"], &["sp"]),
            ins(O::Neg, &["p"], &["np"]),
            ins(O::Add, &["p", "np"], &["zero"]),
            ins(O::AffineCoordinates, &["sp"], &["x", "y"]),
            ins(O::Publish, &["sp", "np", "zero", "x", "y"], &[]),
        ],
        wit: w(vec![("p", IrValue::JubjubPoint(g + g)), ("s", IrValue::JubjubScalar(JFr::from(77u64)))]),
        paths: vec!["c"; 5].into_iter().map(String::from).collect(),
        known_jscalar: false,
    });
    // constants
    v.push(IrCase {
        name: "constants".into(),
        prog: vec![
            ins(O::Load(T::Native), &[], &["n"]),
            ins(O::Publish, &["1", "0", "00ff10", "Native:-01", "BigUint:ffffffffffffffffffffffffff", "Jubjub:GENERATOR", "Jubjub:IDENTITY", "JubjubScalar:05", "n"], &[]),
        ],
        wit: w(vec![("n", IrValue::Native(F::from(9u64)))]),
        paths: vec!["f", "f", "f", "f", "f", "f", "f", "f", "c"].into_iter().map(String::from).collect(),
        known_jscalar: false,
    });
    v.push(IrCase {
        name: "iseq-bool".into(),
        prog: vec![
            ins(O::Load(T::Native), &[], &["a", "b"]),
            ins(O::IsEqual, &["a", "b"], &["e"]),
            ins(O::IsEqual, &["a", "a"], &["t"]),
            ins(O::Publish, &["e", "t"], &[]),
        ],
        wit: w(vec![("a", IrValue::Native(F::from(1u64))), ("b", IrValue::Native(F::from(2u64)))]),
        paths: vec!["c".into(), "c".into()],
        known_jscalar: false,
    });
    v
}
