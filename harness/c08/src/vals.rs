//! Values that can be exposed as public inputs, their canonical text form (the request
//! language shared with the Lean driver) and the REAL off-circuit encoders
//! (`Instantiable::as_public_input`, `AssignedBigUint::as_public_input`).
use ff::{Field, PrimeField};
use group::{Curve, Group};
use midnight_circuits::{
    ecc::curves::CircuitCurve,
    field::foreign::params::MultiEmulationParams as MEP,
    types::{
        AssignedBigUint, AssignedBit, AssignedByte, AssignedField, AssignedForeignPoint, AssignedNative, AssignedNativePoint,
        AssignedScalarOfNativeCurve, Instantiable,
    },
};
use midnight_curves::{
    k256::{Fp as SecpFp, Fq as SecpFq, K256},
    Fp as BlsFp, Fr as JFr, G1Projective, JubjubExtended, JubjubSubgroup,
};
use midnight_circuits::CircuitField;
use mzkh::fe_from_big;
use num_bigint::BigUint;
use num_traits::{One, Zero};
use rand::Rng;
use rand_chacha::ChaCha8Rng;

pub type F = midnight_curves::Fq;

/// One exposable value (type + value).
#[derive(Clone, Debug)]
pub enum Item {
    Bit(bool),
    Byte(u8),
    Native(F),
    /// Element of the secp256k1 base field (emulated, 4 limbs of 64 bits).
    SecpBase(SecpFp),
    /// Element of the secp256k1 scalar field (emulated, 4 limbs of 64 bits).
    SecpScalar(SecpFq),
    /// Element of the BLS12-381 base field (emulated, 7 limbs of 56 bits).
    BlsBase(BlsFp),
    SecpPoint(K256),
    BlsPoint(G1Projective),
    JPoint(JubjubSubgroup),
    JScalar(JFr),
    /// `(nb_bits, value)`.
    Big(u32, BigUint),
}

/// Integer value of a field element, independent of the byte order of `to_repr` (k256 is
/// big-endian): `CircuitField::to_biguint`, cross-checked by rebuilding the element from the
/// integer with field arithmetic only.
pub fn big_of<T: CircuitField>(x: &T) -> BigUint {
    let b = x.to_biguint();
    assert!(fe_from_big::<T>(&b) == *x, "to_biguint is not the integer value");
    b
}

pub fn hex<T: CircuitField>(x: &T) -> String {
    mzkh::big_hex(&big_of(x))
}

pub fn fq_list(v: &[F]) -> String {
    if v.is_empty() {
        "-".into()
    } else {
        v.iter().map(hex).collect::<Vec<_>>().join(",")
    }
}

fn wpoint<C: CircuitCurve>(p: &C::CryptographicGroup) -> String
where
    C::CryptographicGroup: Group,
{
    if bool::from(p.is_identity()) {
        "id".into()
    } else {
        let c: C = (*p).into();
        let (x, y) = c.coordinates().expect("affine coordinates");
        format!("{}:{}", hex(&x), hex(&y))
    }
}

impl Item {
    /// Type tag used in request lines.
    pub fn tag(&self) -> String {
        match self {
            Item::Bit(_) => "bit".into(),
            Item::Byte(_) => "byte".into(),
            Item::Native(_) => "native".into(),
            Item::SecpBase(_) => "ff:secp_base".into(),
            Item::SecpScalar(_) => "ff:secp_scalar".into(),
            Item::BlsBase(_) => "ff:bls_base".into(),
            Item::SecpPoint(_) => "fpoint:secp".into(),
            Item::BlsPoint(_) => "fpoint:bls".into(),
            Item::JPoint(_) => "jpoint".into(),
            Item::JScalar(_) => "jscalar".into(),
            Item::Big(nb, _) => format!("big:{nb}"),
        }
    }

    /// `tag=value` token (no spaces).
    pub fn token(&self) -> String {
        let v = match self {
            Item::Bit(b) => (*b as u8).to_string(),
            Item::Byte(b) => b.to_string(),
            Item::Native(x) => hex(x),
            Item::SecpBase(x) => hex(x),
            Item::SecpScalar(x) => hex(x),
            Item::BlsBase(x) => hex(x),
            Item::SecpPoint(p) => wpoint::<K256>(p),
            Item::BlsPoint(p) => wpoint::<G1Projective>(p),
            Item::JPoint(p) => {
                let a = JubjubExtended::from(*p).to_affine();
                format!("{}:{}", hex(&a.get_u()), hex(&a.get_v()))
            }
            Item::JScalar(s) => hex(s),
            Item::Big(_, v) => mzkh::big_hex(v),
        };
        format!("{}={}", self.tag(), v)
    }

    /// The REAL off-circuit encoder of this value's type.
    pub fn encode(&self) -> Vec<F> {
        match self {
            Item::Bit(b) => <AssignedBit<F> as Instantiable<F>>::as_public_input(b),
            Item::Byte(b) => <AssignedByte<F> as Instantiable<F>>::as_public_input(b),
            Item::Native(x) => <AssignedNative<F> as Instantiable<F>>::as_public_input(x),
            Item::SecpBase(x) => <AssignedField<F, SecpFp, MEP> as Instantiable<F>>::as_public_input(x),
            Item::SecpScalar(x) => <AssignedField<F, SecpFq, MEP> as Instantiable<F>>::as_public_input(x),
            Item::BlsBase(x) => <AssignedField<F, BlsFp, MEP> as Instantiable<F>>::as_public_input(x),
            Item::SecpPoint(p) => <AssignedForeignPoint<F, K256, MEP> as Instantiable<F>>::as_public_input(p),
            Item::BlsPoint(p) => <AssignedForeignPoint<F, G1Projective, MEP> as Instantiable<F>>::as_public_input(p),
            Item::JPoint(p) => <AssignedNativePoint<JubjubExtended> as Instantiable<F>>::as_public_input(p),
            Item::JScalar(s) => <AssignedScalarOfNativeCurve<JubjubExtended> as Instantiable<F>>::as_public_input(s),
            Item::Big(nb, v) => AssignedBigUint::<F>::as_public_input(v, *nb),
        }
    }

    pub fn needs(&self) -> (bool, bool, bool) {
        // (jubjub, secp256k1, bls12_381)
        match self {
            Item::JPoint(_) | Item::JScalar(_) => (true, false, false),
            Item::SecpBase(_) | Item::SecpScalar(_) | Item::SecpPoint(_) => (false, true, false),
            Item::BlsBase(_) | Item::BlsPoint(_) => (false, false, true),
            _ => (false, false, false),
        }
    }
}

// ---------------------------------------------------------------------------------------------
// boundary representatives

pub fn modulus<T: CircuitField>() -> BigUint {
    big_of(&(-T::ONE)) + BigUint::one()
}

/// Boundary integers of a prime field with emulation limbs of `w` bits: 0, 1, 2, p-1, p-2,
/// limb-boundary values (2^(w i) - 1, 2^(w i), 2^(w i) + 1) and all-maximal-limb patterns.
pub fn field_boundaries<T: CircuitField>(w: u32, nlimbs: u32) -> Vec<T> {
    let p = modulus::<T>();
    let mut v: Vec<BigUint> = vec![BigUint::zero(), BigUint::one(), BigUint::from(2u8), &p - 1u8, &p - 2u8];
    for i in 1..nlimbs {
        let b = BigUint::one() << (w * i);
        // remember the encoder shifts by one: x-1 is what gets split
        v.extend([&b - 1u8, b.clone(), &b + 1u8, &b + 2u8]);
    }
    // x - 1 has every limb but the top maximal
    let low = (BigUint::one() << (w * (nlimbs - 1))) - 1u8;
    v.push(&low + 1u8);
    let top = &p >> (w * (nlimbs - 1));
    v.push(((&top - 1u8) << (w * (nlimbs - 1))) + &low + 1u8);
    v.push(p.clone() >> 1);
    v.into_iter().filter(|x| x < &p).map(|x| fe_from_big::<T>(&x)).collect()
}

pub fn rand_field<T: PrimeField>(rng: &mut ChaCha8Rng) -> T {
    T::random(rng)
}

pub fn bits_boundaries(nb: u32) -> Vec<BigUint> {
    let mut v = vec![BigUint::zero(), BigUint::one()];
    let top = BigUint::one() << nb;
    v.push(&top - 1u8);
    if nb >= 2 {
        v.push(&top >> 1);
        v.push((&top >> 1) - 1u8);
    }
    let mut i = 96;
    while i < nb {
        let b = BigUint::one() << i;
        v.extend([&b - 1u8, b.clone(), &b + 1u8]);
        i += 96;
    }
    v.sort();
    v.dedup();
    v
}

pub fn rand_big(rng: &mut ChaCha8Rng, nb: u32) -> BigUint {
    if nb == 0 {
        return BigUint::zero();
    }
    let nbytes = nb.div_ceil(8) as usize;
    let mut b = vec![0u8; nbytes];
    rng.fill(&mut b[..]);
    BigUint::from_bytes_le(&b) & ((BigUint::one() << nb) - 1u8)
}

pub fn jpoints(rng: &mut ChaCha8Rng, n: usize) -> Vec<JubjubSubgroup> {
    let g = JubjubSubgroup::generator();
    let mut v = vec![JubjubSubgroup::identity(), g, -g, g + g];
    for _ in 0..n {
        v.push(JubjubSubgroup::random(&mut *rng));
    }
    v
}

pub fn secp_points(rng: &mut ChaCha8Rng, n: usize) -> Vec<K256> {
    let g = K256::generator();
    let mut v = vec![K256::identity(), g, -g, g + g];
    for _ in 0..n {
        v.push(K256::random(&mut *rng));
    }
    v
}

pub fn bls_points(rng: &mut ChaCha8Rng, n: usize) -> Vec<G1Projective> {
    let g = G1Projective::generator();
    let mut v = vec![G1Projective::identity(), g, -g, g + g];
    for _ in 0..n {
        v.push(G1Projective::random(&mut *rng));
    }
    v
}

pub fn jscalars(rng: &mut ChaCha8Rng, n: usize) -> Vec<JFr> {
    let mut v = vec![JFr::ZERO, JFr::ONE, -JFr::ONE, -JFr::ONE - JFr::ONE, JFr::from(2u64)];
    // 2^251 (top bit of the 252-bit window), 2^251 - 1
    let t = fe_from_big::<JFr>(&(BigUint::one() << 251u32));
    v.push(t);
    v.push(t - JFr::ONE);
    for _ in 0..n {
        v.push(JFr::random(&mut *rng));
    }
    v
}

/// A random item of a random type (used by the mixed relations).
pub fn rand_item(rng: &mut ChaCha8Rng, allow: (bool, bool, bool)) -> Item {
    loop {
        let it = match rng.gen_range(0..11) {
            0 => Item::Bit(rng.gen()),
            1 => Item::Byte(rng.gen()),
            2 => Item::Native(if rng.gen_bool(0.2) { -F::ONE } else { F::random(&mut *rng) }),
            3 => Item::SecpBase(if rng.gen_bool(0.2) { SecpFp::ZERO } else { SecpFp::random(&mut *rng) }),
            4 => Item::SecpScalar(if rng.gen_bool(0.2) { SecpFq::ZERO } else { SecpFq::random(&mut *rng) }),
            5 => Item::BlsBase(if rng.gen_bool(0.2) { BlsFp::ZERO } else { BlsFp::random(&mut *rng) }),
            6 => Item::SecpPoint(if rng.gen_bool(0.25) { K256::identity() } else { K256::random(&mut *rng) }),
            7 => Item::BlsPoint(if rng.gen_bool(0.25) { G1Projective::identity() } else { G1Projective::random(&mut *rng) }),
            8 => Item::JPoint(if rng.gen_bool(0.25) { JubjubSubgroup::identity() } else { JubjubSubgroup::random(&mut *rng) }),
            9 => Item::JScalar(if rng.gen_bool(0.2) { -JFr::ONE } else { JFr::random(&mut *rng) }),
            _ => {
                let nb = *[1u32, 8, 95, 96, 97, 192, 193, 300].get(rng.gen_range(0..8)).unwrap();
                let v = if rng.gen_bool(0.3) { (BigUint::one() << nb) - 1u8 } else { rand_big(rng, nb) };
                Item::Big(nb, v)
            }
        };
        let (j, s, b) = it.needs();
        if (!j || allow.0) && (!s || allow.1) && (!b || allow.2) {
            return it;
        }
    }
}
