//! Correspondence harness of property C08: the off-circuit public-input encoders
//! (`Instantiable::as_public_input`, `format_instance`) against what the compiled circuits bind
//! (`constrain_as_public_input` / `assign_as_public_input` / committed variant), the instance-row
//! counter stored in the verifying key, and the Lean model of both.
use ff::Field;
use mzkh::Ctx;
use serde_json::json;

mod comrel;
mod handles;
mod ir;
mod keys;
mod lenrel;
mod rel;
mod vals;
mod ver;

use rel::{MixRelation, Path, Step};
use vals::*;

/// Sizes: `quick` and `search` use the small sweeps, `thorough` the wide ones.
fn small(ctx: &Ctx) -> bool {
    !ctx.thorough()
}

/// `enc <token>` : the real off-circuit encoder on one value.
fn enc_case(ctx: &mut Ctx, it: &Item, nontrivial: bool) {
    let line = format!("enc {}", it.token());
    let ans = match mzkh::catch(|| it.encode()) {
        Ok(v) => fq_list(&v),
        Err(_) => "panic".to_string(),
    };
    ctx.case(&format!("enc:{}", it.tag().split(':').next().unwrap()), nontrivial, &line, &ans);
}

/// The constants the model hard-codes or reads from the generated table, as the running code
/// has them: field moduli and limb parameters.
fn run_consts(ctx: &mut Ctx) {
    use midnight_circuits::field::foreign::params::{FieldEmulationParams, MultiEmulationParams as MEP};
    use midnight_curves::{
        curve25519,
        k256::{Fp as SecpFp, Fq as SecpFq},
        Fp as BlsFp, Fr as JFr,
    };
    ctx.case("const", true, "mod native", &mzkh::big_hex(&modulus::<F>()));
    ctx.case("const", true, "mod jubjub_scalar", &mzkh::big_hex(&modulus::<JFr>()));
    ctx.case("const", true, "mod secp_base", &mzkh::big_hex(&modulus::<SecpFp>()));
    ctx.case("const", true, "mod secp_scalar", &mzkh::big_hex(&modulus::<SecpFq>()));
    ctx.case("const", true, "mod bls_base", &mzkh::big_hex(&modulus::<BlsFp>()));
    ctx.case("const", true, "mod c25519_base", &mzkh::big_hex(&modulus::<curve25519::Fp>()));
    ctx.case("const", true, "mod c25519_scalar", &mzkh::big_hex(&modulus::<curve25519::Scalar>()));
    macro_rules! params {
        ($name:expr, $k:ty) => {
            ctx.case(
                "const",
                true,
                &format!("params {}", $name),
                &format!("{} {}", <MEP as FieldEmulationParams<F, $k>>::LOG2_BASE, <MEP as FieldEmulationParams<F, $k>>::NB_LIMBS),
            );
        };
    }
    params!("secp_base", SecpFp);
    params!("secp_scalar", SecpFq);
    params!("bls_base", BlsFp);
    params!("c25519_base", curve25519::Fp);
    params!("c25519_scalar", curve25519::Scalar);
}

/// Off-circuit encoder of an emulated field that no zk_stdlib chip instantiates.
fn enc_ff<K: midnight_circuits::CircuitField>(ctx: &mut Ctx, name: &str, x: K)
where
    midnight_circuits::field::foreign::params::MultiEmulationParams: midnight_circuits::field::foreign::params::FieldEmulationParams<F, K>,
{
    use midnight_circuits::{field::foreign::params::MultiEmulationParams as MEP, types::{AssignedField, Instantiable}};
    let line = format!("enc ff:{name}={}", hex(&x));
    let ans = match mzkh::catch(|| <AssignedField<F, K, MEP> as Instantiable<F>>::as_public_input(&x)) {
        Ok(v) => fq_list(&v),
        Err(_) => "panic".to_string(),
    };
    ctx.case("enc:ff", true, &line, &ans);
}

fn run_enc(ctx: &mut Ctx) {
    use midnight_curves::{
        k256::{Fp as SecpFp, Fq as SecpFq},
        Fp as BlsFp,
    };
    let mut rng = ctx.rng("enc");
    let nrand = if small(ctx) { 8 } else { 64 };
    for b in [false, true] {
        enc_case(ctx, &Item::Bit(b), true);
    }
    for b in 0..=255u8 {
        enc_case(ctx, &Item::Byte(b), true);
    }
    for x in field_boundaries::<F>(64, 4).into_iter().chain((0..nrand).map(|_| rand_field::<F>(&mut rng))) {
        enc_case(ctx, &Item::Native(x), true);
    }
    for x in field_boundaries::<SecpFp>(64, 4).into_iter().chain((0..nrand).map(|_| rand_field(&mut rng))) {
        enc_case(ctx, &Item::SecpBase(x), true);
    }
    for x in field_boundaries::<SecpFq>(64, 4).into_iter().chain((0..nrand).map(|_| rand_field(&mut rng))) {
        enc_case(ctx, &Item::SecpScalar(x), true);
    }
    for x in field_boundaries::<BlsFp>(56, 7).into_iter().chain((0..nrand).map(|_| rand_field(&mut rng))) {
        enc_case(ctx, &Item::BlsBase(x), true);
    }
    for x in field_boundaries::<midnight_curves::curve25519::Fp>(64, 4).into_iter().chain((0..nrand).map(|_| rand_field(&mut rng))) {
        enc_ff(ctx, "c25519_base", x);
    }
    for x in field_boundaries::<midnight_curves::curve25519::Scalar>(51, 5).into_iter().chain((0..nrand).map(|_| rand_field(&mut rng))) {
        enc_ff(ctx, "c25519_scalar", x);
    }
    for p in secp_points(&mut rng, nrand) {
        enc_case(ctx, &Item::SecpPoint(p), true);
    }
    for p in bls_points(&mut rng, nrand) {
        enc_case(ctx, &Item::BlsPoint(p), true);
    }
    for p in jpoints(&mut rng, nrand) {
        enc_case(ctx, &Item::JPoint(p), true);
    }
    for s in jscalars(&mut rng, nrand) {
        enc_case(ctx, &Item::JScalar(s), true);
    }
    // BigUint of every limb count 0..=5 (and more in thorough), bound at / around limb borders
    let nbs: Vec<u32> = if small(ctx) {
        vec![0, 1, 2, 8, 64, 95, 96, 97, 128, 191, 192, 193, 288, 289, 384, 385, 480, 1024]
    } else {
        (0..=200).chain([287, 288, 289, 383, 384, 385, 479, 480, 481, 1023, 1024, 1025, 2048, 4096]).collect()
    };
    for nb in nbs {
        for v in bits_boundaries(nb).into_iter().chain((0..(nrand / 4).max(2)).map(|_| rand_big(&mut rng, nb))) {
            enc_case(ctx, &Item::Big(nb, v), true);
        }
        // values that do not fit the limbs of the declared bound: the encoder panics
        let nl = nb.div_ceil(96);
        enc_case(ctx, &Item::Big(nb, num_bigint::BigUint::from(1u8) << (96 * nl)), true);
        if nb % 96 != 0 {
            // fits the limbs but not the declared bound: encoded without complaint
            enc_case(ctx, &Item::Big(nb, num_bigint::BigUint::from(1u8) << nb), true);
        }
    }
}

// ---------------------------------------------------------------------------------------------

struct KCache(std::collections::HashMap<String, u32>);

impl KCache {
    fn key(rel: &MixRelation) -> String {
        rel.steps.iter().map(|s| format!("{}:{}", s.path.tag(), s.proto.tag())).collect::<Vec<_>>().join(" ")
    }
    fn k(&mut self, rel: &MixRelation) -> u32 {
        *self.0.entry(Self::key(rel)).or_insert_with(|| rel::min_k(rel))
    }
    fn set(&mut self, rel: &MixRelation, k: u32) {
        self.0.insert(Self::key(rel), k);
    }
}

/// Recorded finding (see /verif/findings/C08.json): a Jubjub scalar whose in-circuit bit
/// vector is longer than 252 bits (`convert` from a native value: d0; `scalar_from_le_bytes`
/// on 32 bytes or more: dN, N >= 32).
const KEY_JSCALAR: &str = "jscalar-exposure:bits>252";

fn has_long_jscalar(rel: &MixRelation) -> bool {
    rel.steps.iter().any(|s| matches!((&s.proto, s.path), (Item::JScalar(_), Path::Derived(n)) if n == 0 || n >= 32))
}

/// One exposure case: the relation exposing `steps` with values `items`.
///  * the honest raw vectors (REAL encoders) must satisfy the circuit;
///  * every single-position edit (+1) of either vector must be rejected;
///  * the bound instance rows must be exactly `0..len` of the encoded vectors, and the cells
///    they are tied to must hold the encoded values.
fn expose_case(ctx: &mut Ctx, kc: &mut KCache, kind: &str, steps: Vec<Step>, items: Vec<Item>) {
    expose_case_n(ctx, kc, kind, steps, items, usize::MAX)
}

/// Same, with at most `max_edits` edited positions (first, last and seeded random ones) when
/// the encoding is longer; the positions are then part of the request (`exposeat`).
fn expose_case_n(ctx: &mut Ctx, kc: &mut KCache, kind: &str, steps: Vec<Step>, items: Vec<Item>, max_edits: usize) {
    let rel = MixRelation::new(steps);
    let body = if rel.steps.is_empty() {
        "-".to_string()
    } else {
        rel.steps.iter().zip(&items).map(|(s, it)| format!("{}:{}", s.path.tag(), it.token())).collect::<Vec<_>>().join(" ")
    };
    let enc_total = mzkh::catch(|| {
        let (p, c) = rel::raw_vectors(&rel, &items);
        p.len() + c.len()
    })
    .unwrap_or(0);
    let positions: Vec<usize> = if enc_total <= max_edits {
        (0..enc_total).collect()
    } else {
        use rand::Rng;
        let mut rng = ctx.rng(&format!("positions:{body}"));
        let mut v = vec![0, enc_total - 1];
        while v.len() < max_edits {
            let i = rng.gen_range(0..enc_total);
            if !v.contains(&i) {
                v.push(i);
            }
        }
        v.sort();
        v
    };
    let line = if enc_total <= max_edits {
        format!("expose {body}")
    } else {
        format!("exposeat {} {body}", mzkh::join(&positions))
    };
    let key = format!("expose:{line}");
    // `min_k` (cost model) does not count the rows taken by constants: grow k while the
    // synthesis runs out of rows.
    let mut k = match mzkh::catch(|| kc.k(&rel)) {
        Ok(k) => k,
        Err(_) => 9,
    };
    let r = loop {
        let r = mzkh::catch(|| {
            let (plain, com) = rel::raw_vectors(&rel, &items);
            let obs = rel::observe(&rel, &items, k, &com, &plain)?;
            Ok::<_, String>((k, plain, com, obs))
        });
        let out_of_rows = match &r {
            Ok(Err(e)) => e.contains("NotEnoughRows"),
            Err(p) => p.contains("usable_rows") || p.contains("minimum_rows"),
            _ => false,
        };
        if out_of_rows && k < 14 {
            k += 1;
            kc.set(&rel, k);
            continue;
        }
        break r;
    };
    let (k, plain, com, obs) = match r {
        Ok(Ok(x)) => x,
        Ok(Err(e)) => {
            ctx.case(kind, true, &line, &format!("error {}", e.chars().take(120).collect::<String>()));
            ctx.oracle_fail(&key, "exposing an honest value fails at synthesis", json!({"error": e, "line": line}));
            return;
        }
        Err(p) => {
            ctx.case(kind, true, &line, "panic");
            ctx.oracle_fail(&key, "exposing an honest value panics", json!({"panic": p, "line": line}));
            return;
        }
    };
    let fmt_bound = |b: &rel::Bound| {
        let contiguous = b.rows.iter().enumerate().all(|(i, r)| i == *r);
        let cells: Vec<String> = b.cells.iter().map(|c| c.map(|f| hex(&f)).unwrap_or("?".into())).collect();
        format!("{}{}:{}", b.rows.len(), if contiguous { "" } else { "!gap" }, if cells.is_empty() { "-".into() } else { cells.join(",") })
    };
    // single-position edits
    let mut rejected = 0usize;
    let mut accepted_edits = vec![];
    let total = plain.len() + com.len();
    if obs.sat {
        for &i in &positions {
            let (mut p2, mut c2) = (plain.clone(), com.clone());
            if i < plain.len() {
                p2[i] += F::ONE;
            } else {
                c2[i - plain.len()] += F::ONE;
            }
            match mzkh::catch(|| rel::verdict(&rel, &items, k, &c2, &p2)) {
                Ok(Ok(false)) => rejected += 1,
                Ok(Ok(true)) => accepted_edits.push(i),
                Ok(Err(e)) | Err(e) => {
                    accepted_edits.push(i);
                    ctx.count(&format!("edit-error:{}", e.chars().take(40).collect::<String>()));
                }
            }
        }
        ctx.count_n("edits_tried", positions.len() as u64);
    }
    let ans = format!(
        "plain={} com={} sat={} rej={}/{}",
        fmt_bound(&obs.plain),
        fmt_bound(&obs.committed),
        obs.sat as u8,
        rejected,
        positions.len()
    );
    ctx.case(kind, true, &line, &ans);
    ctx.count(&format!("k:{k}"));
    ctx.count(&format!("exposed-cells:{}", if total == 0 { "0".into() } else if total <= 4 { total.to_string() } else if total <= 16 { "5-16".into() } else { "17+".into() }));
    // the property's oracle, checked directly on the implementation
    if !obs.sat {
        ctx.oracle_fail(
            &key,
            "the circuit exposing v rejects the off-circuit encoding of v",
            json!({"line": line, "k": k, "plain": fq_list(&plain), "committed": fq_list(&com), "bound": ans, "failures": obs.failures}),
        );
        return;
    }
    if !accepted_edits.is_empty() {
        ctx.oracle_fail(
            &key,
            "the circuit exposing v accepts a raw vector different from the encoding of v",
            json!({"line": line, "k": k, "positions": accepted_edits, "plain": fq_list(&plain), "committed": fq_list(&com)}),
        );
    }
    let check = |b: &rel::Bound, enc: &[F]| {
        b.rows.len() == enc.len()
            && b.rows.iter().enumerate().all(|(i, r)| i == *r)
            && b.cells.iter().zip(enc).all(|(c, e)| c.as_ref() == Some(e))
    };
    if !check(&obs.plain, &plain) || !check(&obs.committed, &com) {
        // the recorded finding: more rows bound than the encoding has, everything else fine
        let known = has_long_jscalar(&rel) && accepted_edits.is_empty() && obs.plain.rows.len() > plain.len();
        ctx.oracle_fail(
            if known { KEY_JSCALAR } else { &key },
            "the instance rows bound by the circuit are not exactly the positions of the off-circuit encoding",
            json!({"line": line, "k": k, "plain": fq_list(&plain), "committed": fq_list(&com), "bound": ans}),
        );
    }
}

fn single(ctx: &mut Ctx, kc: &mut KCache, path: Path, it: Item) {
    let kind = format!("expose1:{}:{}", it.tag().split(':').next().unwrap(), path.tag());
    expose_case(ctx, kc, &kind, vec![Step { path, proto: it.clone() }], vec![it]);
}

fn run_expose_single(ctx: &mut Ctx) {
    let mut kc = KCache(Default::default());
    let mut rng = ctx.rng("expose1");
    let q = small(ctx);
    let search = ctx.search();
    let basic = [Path::Constrain, Path::Assign, Path::Fixed];
    for p in basic.iter().chain([Path::Committed].iter()) {
        for b in [false, true] {
            single(ctx, &mut kc, *p, Item::Bit(b));
        }
        for b in [0u8, 1, 127, 255] {
            single(ctx, &mut kc, *p, Item::Byte(b));
        }
        for x in [F::ZERO, F::ONE, -F::ONE, rand_field::<F>(&mut rng)] {
            single(ctx, &mut kc, *p, Item::Native(x));
        }
    }
    for x in [F::ZERO, F::ONE, -F::ONE, rand_field::<F>(&mut rng)] {
        single(ctx, &mut kc, Path::Derived(0), Item::Native(x));
    }
    // plain and committed exposures interleaved: the two counters are independent
    {
        let items = vec![Item::Native(F::from(5u64)), Item::Native(F::from(6u64)), Item::Bit(true), Item::Byte(200), Item::Native(-F::ONE), Item::Bit(false)];
        let paths = [Path::Constrain, Path::Committed, Path::Committed, Path::Assign, Path::Committed, Path::Fixed];
        let steps: Vec<Step> = items.iter().zip(paths).map(|(it, p)| Step { path: p, proto: it.clone() }).collect();
        expose_case(ctx, &mut kc, "expose-interleaved", steps, items);
    }
    use midnight_curves::{
        k256::{Fp as SecpFp, Fq as SecpFq},
        Fp as BlsFp,
    };
    let nr = if q { 1 } else { 12 };
    let ffpaths = [Path::Constrain, Path::Assign, Path::Fixed, Path::Derived(0), Path::Derived(1), Path::Derived(2), Path::Derived(3), Path::Derived(4)];
    for p in ffpaths {
        let lim = |n: usize| if q && !search && p != Path::Constrain && p != Path::Assign { n.min(6) } else { n };
        let v = field_boundaries::<SecpFp>(64, 4);
        for x in v.iter().take(lim(v.len())).cloned().chain((0..nr).map(|_| rand_field(&mut rng))) {
            single(ctx, &mut kc, p, Item::SecpBase(x));
        }
        let v = field_boundaries::<SecpFq>(64, 4);
        for x in v.iter().take(lim(v.len())).cloned().chain((0..nr).map(|_| rand_field(&mut rng))) {
            single(ctx, &mut kc, p, Item::SecpScalar(x));
        }
        let v = field_boundaries::<BlsFp>(56, 7);
        for x in v.iter().take(lim(v.len())).cloned().chain((0..nr).map(|_| rand_field(&mut rng))) {
            single(ctx, &mut kc, p, Item::BlsBase(x));
        }
        // points: d0 (negate), d1 (one addition), d2 (two additions)
        if matches!(p, Path::Derived(n) if n >= 3) {
            continue;
        }
        for pt in secp_points(&mut rng, nr) {
            single(ctx, &mut kc, p, Item::SecpPoint(pt));
        }
        for pt in bls_points(&mut rng, nr) {
            single(ctx, &mut kc, p, Item::BlsPoint(pt));
        }
        for pt in jpoints(&mut rng, nr) {
            single(ctx, &mut kc, p, Item::JPoint(pt));
        }
    }
    for p in [Path::Constrain, Path::Assign, Path::Fixed, Path::Derived(0), Path::Derived(1), Path::Derived(31), Path::Derived(32), Path::Derived(64)] {
        for s in jscalars(&mut rng, nr) {
            if let Path::Derived(n) = p {
                if n >= 1 && n < 32 && big_of(&s).bits() > 8 * n as u64 {
                    continue;
                }
            }
            single(ctx, &mut kc, p, Item::JScalar(s));
        }
    }
    let nbs: Vec<u32> = if q { vec![1, 8, 96, 104, 200] } else { vec![1, 2, 8, 64, 95, 96, 97, 104, 192, 193, 200, 288, 296, 400] };
    for nb in nbs {
        for v in bits_boundaries(nb).into_iter().chain((0..nr).map(|_| rand_big(&mut rng, nb))) {
            single(ctx, &mut kc, Path::Constrain, Item::Big(nb, v.clone()));
            if (v.bits().max(1) as u32) == nb {
                single(ctx, &mut kc, Path::Fixed, Item::Big(nb, v.clone()));
            }
            if nb % 8 == 0 {
                single(ctx, &mut kc, Path::Derived(0), Item::Big(nb, v.clone()));
            }
        }
    }
}

/// A random valid entry point for the item's type. `keygen`: the relation goes through real key
/// generation and proving (no committed column: `format_instance` has no access to the
/// relation; no long constant bit vectors: the cost model behind `min_k` does not count constants).
fn rand_path(rng: &mut rand_chacha::ChaCha8Rng, it: &Item, keygen: bool) -> Path {
    use rand::Rng;
    loop {
        let p = match rng.gen_range(0..6) {
            0 | 1 => Path::Constrain,
            2 => Path::Assign,
            3 => Path::Fixed,
            4 => Path::Committed,
            _ => Path::Derived(rng.gen_range(0..2)),
        };
        let ok = match (it, p) {
            (Item::Bit(_) | Item::Byte(_) | Item::Native(_), Path::Committed) => !keygen,
            (_, Path::Committed) => false,
            (Item::Bit(_) | Item::Byte(_), Path::Derived(_)) => false,
            (Item::JScalar(_), Path::Derived(_)) => false,
            (Item::JScalar(_), Path::Fixed) => !keygen,
            (Item::Big(_, _), Path::Assign) => false,
            (Item::Big(nb, v), Path::Fixed) => (v.bits().max(1) as u32) == *nb,
            (Item::Big(nb, _), Path::Derived(0)) => nb % 8 == 0,
            (Item::Big(_, _), Path::Derived(_)) => false,
            _ => true,
        };
        if ok {
            return p;
        }
    }
}

fn rand_relation(rng: &mut rand_chacha::ChaCha8Rng, n: usize, chips: (bool, bool, bool), keygen: bool) -> (Vec<Step>, Vec<Item>) {
    let mut steps = vec![];
    let mut items = vec![];
    for _ in 0..n {
        let it = rand_item(rng, chips);
        let path = rand_path(rng, &it, keygen);
        steps.push(Step { path, proto: it.clone() });
        items.push(it);
    }
    (steps, items)
}

fn steps_body(steps: &[Step], items: &[Item]) -> String {
    if steps.is_empty() {
        "-".to_string()
    } else {
        steps.iter().zip(items).map(|(s, it)| format!("{}:{}", s.path.tag(), it.token())).collect::<Vec<_>>().join(" ")
    }
}

/// Relations exposing 0..40 inputs of mixed types through the mock prover.
fn run_expose_mixed(ctx: &mut Ctx) {
    use rand::Rng;
    let mut kc = KCache(Default::default());
    let mut rng = ctx.rng("mixed");
    let sizes: Vec<usize> = if small(ctx) { vec![0, 1, 2, 3, 5, 9, 17, 40] } else { (0..=40).collect() };
    let max_edits = if small(ctx) { 6 } else { 24 };
    for n in sizes {
        let reps = if small(ctx) { 1 } else { 4 };
        for _ in 0..reps {
            // small relations use every chip; the large ones mostly native types (cost)
            let chips = if n <= 9 { (true, true, true) } else { (rng.gen_bool(0.7), rng.gen_bool(0.3), rng.gen_bool(0.2)) };
            let (steps, items) = rand_relation(&mut rng, n, chips, false);
            expose_case_n(ctx, &mut kc, "expose-mixed", steps, items, max_edits);
            ctx.count(&format!("mixed-inputs:{}", if n <= 2 { n.to_string() } else if n <= 9 { "3-9".into() } else { "10-40".into() }));
        }
    }
}

/// Real key generation: `nb_public_inputs` stored in the key = length of `format_instance`;
/// real proofs for a subset: the honest instance verifies, vectors of other lengths are
/// rejected as `InvalidInstances`, edited vectors are rejected.
fn run_keys(ctx: &mut Ctx) {
    use midnight_zk_stdlib::Relation;
    use rand::Rng;
    let mut srs = keys::Srs::new();
    let mut rng = ctx.rng("keys");
    let sizes: Vec<usize> = if small(ctx) { vec![0, 1, 2, 6, 13, 40] } else { (0..=40).collect() };
    for (idx, n) in sizes.into_iter().enumerate() {
        let with_proof = if small(ctx) { n <= 2 || n == 13 } else { n % 3 != 2 };
        let chips = if n <= 6 && !with_proof {
            (true, true, true)
        } else {
            (rng.gen_bool(0.5), n <= 13 && rng.gen_bool(0.3), n <= 6 && rng.gen_bool(0.2))
        };
        let (steps, items) = rand_relation(&mut rng, n, chips, with_proof);
        let rel = MixRelation::new(steps.clone());
        let body = steps_body(&steps, &items);
        let line = format!("nbpi {body}");
        let key = format!("keys:{body}");
        let fmt_len = {
            let (p, c) = rel::raw_vectors(&rel, &items);
            (p.len(), c.len())
        };
        let keyed = match mzkh::catch(|| keys::keygen(&mut srs, &rel)) {
            Ok(Ok(k)) => k,
            Ok(Err(e)) | Err(e) => {
                ctx.case("nbpi", true, &line, "keygen-failed");
                ctx.oracle_fail(&key, "key generation fails for a relation exposing public inputs", json!({"line": line, "error": e}));
                continue;
            }
        };
        // committed counter is not recorded in the key; the model still answers it
        let ncom = rel.steps.iter().zip(&items).filter(|(s, _)| s.path == Path::Committed).map(|(_, it)| it.encode().len()).sum::<usize>();
        ctx.case("nbpi", true, &line, &format!("nb={} fmt={} com={} fmtcom={}", keyed.nb, fmt_len.0, ncom, fmt_len.1));
        ctx.count(&format!("keygen-k:{}", keyed.k));
        if keyed.nb != fmt_len.0 {
            ctx.oracle_fail(
                &key,
                "the number of raw public inputs recorded in the verifying key differs from the length of format_instance",
                json!({"line": line, "vk_nb_public_inputs": keyed.nb, "format_instance_len": fmt_len.0}),
            );
        }
        if !with_proof {
            continue;
        }
        let pi_len = MixRelation::format_instance(&items).map(|v| v.len()).unwrap_or(0);
        let positions: Vec<usize> = if pi_len == 0 { vec![] } else { vec![0, pi_len / 2, pi_len - 1] };
        let line2 = format!("proof {idx} {}", pi_len);
        match mzkh::catch(|| keys::prove_and_verify(&mut srs, &rel, &keyed, &items, &positions)) {
            Ok(Ok(r)) => {
                let ans = format!(
                    "honest={} batch={} longer={} shorter={} edits={}/{}",
                    r.honest_ok as u8, r.batch_ok as u8, r.longer, r.shorter, r.edits_rejected, r.edits_tried
                );
                ctx.case("proof", true, &line2, &ans);
                let bad_len = r.longer != "invalid-instances/invalid-instances" || (pi_len > 0 && r.shorter != "invalid-instances");
                if !r.honest_ok || !r.batch_ok {
                    ctx.oracle_fail(&key, "an honest proof is rejected with the instance formatted by format_instance", json!({"line": line, "error": r.honest_err, "k": keyed.k}));
                } else if bad_len {
                    ctx.oracle_fail(&key, "the verifier does not insist on exactly nb_public_inputs raw inputs", json!({"line": line, "longer": r.longer, "shorter": r.shorter}));
                } else if r.edits_rejected != r.edits_tried {
                    ctx.oracle_fail(&key, "the verifier accepts an edited raw instance vector", json!({"line": line, "rejected": r.edits_rejected, "tried": r.edits_tried}));
                }
            }
            Ok(Err(e)) | Err(e) => {
                ctx.case("proof", true, &line2, "failed");
                ctx.oracle_fail(&key, "proving/verifying an honest instance fails", json!({"line": line, "error": e}));
            }
        }
    }
}

fn rand_msm(rng: &mut rand_chacha::ChaCha8Rng, nbases: usize, nfixed: usize, tag: &str) -> ver::MsmVal {
    use group::Group;
    use rand::Rng;
    let pt = |rng: &mut rand_chacha::ChaCha8Rng| match rng.gen_range(0..5) {
        0 => ver::C::identity(),
        1 => ver::C::generator(),
        2 => -ver::C::generator(),
        _ => ver::C::random(&mut *rng),
    };
    let sc = |rng: &mut rand_chacha::ChaCha8Rng| match rng.gen_range(0..5) {
        0 => F::ZERO,
        1 => F::ONE,
        2 => -F::ONE,
        _ => F::random(&mut *rng),
    };
    // names deliberately not in sorted order
    let mut names: Vec<String> = (0..nfixed).map(|i| format!("{tag}_fixed_com_{}", (i * 7 + 3) % 11)).collect();
    if nfixed > 1 {
        names.push("-G".into());
        names.remove(0);
    }
    ver::MsmVal {
        bases: (0..nbases).map(|_| pt(rng)).collect(),
        scalars: (0..nbases).map(|_| sc(rng)).collect(),
        fixed: names.into_iter().map(|n| (n, sc(rng))).collect(),
    }
}

fn fmt_bound(b: &rel::Bound) -> String {
    let contiguous = b.rows.iter().enumerate().all(|(i, r)| i == *r);
    let cells: Vec<String> = b.cells.iter().map(|c| c.map(|f| hex(&f)).unwrap_or("?".into())).collect();
    format!("{}{}:{}", b.rows.len(), if contiguous { "" } else { "!gap" }, if cells.is_empty() { "-".into() } else { cells.join(",") })
}

/// One verifier-gadget exposure through the mock prover (same oracle as `expose_case`).
fn ver_case<Ci: midnight_proofs::plonk::Circuit<F>>(ctx: &mut Ctx, kind: &str, line_head: &str, body: &str, circuit: Ci, plain: Vec<F>, com: Vec<F>, max_edits: usize) {
    use rand::Rng;
    let total = plain.len() + com.len();
    let positions: Vec<usize> = if total <= max_edits {
        (0..total).collect()
    } else {
        let mut rng = ctx.rng(&format!("verpos:{body}"));
        let mut v = vec![0, total - 1, plain.len().saturating_sub(1), plain.len().min(total - 1)];
        v.sort();
        v.dedup();
        while v.len() < max_edits {
            let i = rng.gen_range(0..total);
            if !v.contains(&i) {
                v.push(i);
            }
        }
        v.sort();
        v
    };
    let line = format!("{line_head} {} {body}", mzkh::join(&positions));
    let key = format!("ver:{line_head}:{body}");
    let mut k = 10;
    let obs = loop {
        let r = mzkh::catch(|| ver::observe(&circuit, k, &com, &plain));
        let out_of_rows = match &r {
            Ok(Err(e)) => e.contains("NotEnoughRows"),
            Err(p) => p.contains("usable_rows") || p.contains("minimum_rows"),
            _ => false,
        };
        if out_of_rows && k < 15 {
            k += 1;
            continue;
        }
        break r;
    };
    let obs = match obs {
        Ok(Ok(o)) => o,
        Ok(Err(e)) | Err(e) => {
            ctx.case(kind, true, &line, "error");
            ctx.oracle_fail(&key, "exposing an honest verifier-gadget value fails", json!({"line": line, "error": e}));
            return;
        }
    };
    let mut rejected = 0;
    let mut accepted = vec![];
    if obs.sat {
        for &i in &positions {
            let (mut p2, mut c2) = (plain.clone(), com.clone());
            if i < plain.len() {
                p2[i] += F::ONE;
            } else {
                c2[i - plain.len()] += F::ONE;
            }
            match mzkh::catch(|| ver::verdict(&circuit, k, &c2, &p2)) {
                Ok(Ok(false)) => rejected += 1,
                _ => accepted.push(i),
            }
        }
        ctx.count_n("edits_tried", positions.len() as u64);
    }
    let ans = format!("plain={} com={} sat={} rej={}/{}", fmt_bound(&obs.plain), fmt_bound(&obs.committed), obs.sat as u8, rejected, positions.len());
    ctx.case(kind, true, &line, &ans);
    ctx.count(&format!("ver-k:{k}"));
    let check = |b: &rel::Bound, enc: &[F]| {
        b.rows.len() == enc.len() && b.rows.iter().enumerate().all(|(i, r)| i == *r) && b.cells.iter().zip(enc).all(|(c, e)| c.as_ref() == Some(e))
    };
    if !obs.sat {
        ctx.oracle_fail(&key, "the circuit exposing v rejects the off-circuit encoding of v", json!({"line": line, "k": k, "bound": ans}));
    } else if !accepted.is_empty() {
        ctx.oracle_fail(&key, "the circuit exposing v accepts a raw vector different from the encoding of v", json!({"line": line, "k": k, "positions": accepted}));
    } else if !check(&obs.plain, &plain) || !check(&obs.committed, &com) {
        ctx.oracle_fail(&key, "the instance rows bound by the circuit are not exactly the positions of the off-circuit encoding", json!({"line": line, "k": k, "bound": ans, "plain": fq_list(&plain), "committed": fq_list(&com)}));
    }
}

/// Verifying-key identities, MSMs, accumulators.
fn run_verifier(ctx: &mut Ctx) {
    use rand::Rng;
    let mut rng = ctx.rng("verifier");
    let quick = small(ctx);
    // --- off-circuit encoders of MSMs / accumulators on many shapes
    let shapes: Vec<(usize, usize)> = if quick { vec![(0, 0), (1, 0), (0, 1), (1, 1), (2, 3), (3, 2)] } else { (0..=4).flat_map(|a| (0..=4).map(move |b| (a, b))).collect() };
    for &(nb, nf) in &shapes {
        for rep in 0..(if quick { 2 } else { 4 }) {
            let m = rand_msm(&mut rng, nb, nf, "a");
            ctx.case("enc:msm", true, &format!("encmsm bls {}", m.token()), &fq_list(&ver::enc_msm(&m)));
            let (p, c) = ver::enc_msm_committed(&m);
            ctx.case("enc:msm-committed", true, &format!("encmsmc bls {}", m.token()), &format!("{} | {}", fq_list(&p), fq_list(&c)));
            let r = rand_msm(&mut rng, (nb + rep) % 3, (nf + 1) % 4, "b");
            ctx.case("enc:acc", true, &format!("encacc bls {} {}", m.token(), r.token()), &fq_list(&ver::enc_acc(&m, &r)));
            let (p, c) = ver::enc_acc_committed(&m, &r);
            ctx.case("enc:acc-committed", true, &format!("encaccc bls {} {}", m.token(), r.token()), &format!("{} | {}", fq_list(&p), fq_list(&c)));
        }
    }
    // --- verifying keys of two different relations: identities, and the exposure
    let mut srs = keys::Srs::new();
    let rel_a = MixRelation::new(vec![Step { path: Path::Constrain, proto: Item::Native(F::ZERO) }]);
    let rel_b = MixRelation::new(vec![Step { path: Path::Constrain, proto: Item::Native(F::ZERO) }, Step { path: Path::Constrain, proto: Item::Bit(false) }]);
    let mut encs = vec![];
    for (name, rel) in [("A", &rel_a), ("B", &rel_b)] {
        match mzkh::catch(|| keys::keygen(&mut srs, rel)) {
            Ok(Ok(keyed)) => {
                let vk = keyed.vk.vk().clone();
                let repr = vk.transcript_repr();
                let e = ver::enc_vk(&vk);
                ctx.case("enc:vk", true, &format!("encvk {}", hex(&repr)), &fq_list(&e));
                encs.push(e.clone());
                let circuit = ver::VerCircuit { what: ver::Expose::Vk, vk: Some(vk), lhs: rand_msm(&mut rng, 0, 0, "x"), rhs: rand_msm(&mut rng, 0, 0, "x") };
                ver_case(ctx, "expose-vk", "exposevk", &hex(&repr), circuit, e, vec![], 4);
            }
            Ok(Err(e)) | Err(e) => ctx.oracle_fail(&format!("ver:keygen:{name}"), "key generation fails", json!({"error": e})),
        }
    }
    if encs.len() == 2 && encs[0] == encs[1] {
        ctx.oracle_fail("ver:vk-identity-collision", "two different verifying keys share a public-input encoding", json!({}));
    }
    // --- accumulators through the circuit
    let acc_shapes: Vec<((usize, usize), (usize, usize))> = if quick {
        vec![((1, 0), (1, 2)), ((0, 0), (0, 0)), ((2, 1), (1, 0))]
    } else {
        vec![((1, 0), (1, 2)), ((0, 0), (0, 0)), ((2, 1), (1, 0)), ((0, 2), (2, 2)), ((1, 1), (0, 3)), ((3, 0), (1, 1)), ((1, 0), (1, 0)), ((2, 2), (2, 2))]
    };
    let max_edits = if quick { 8 } else { 16 };
    for (ls, rs) in acc_shapes {
        for committed in [false, true] {
            let l = rand_msm(&mut rng, ls.0, ls.1, "l");
            let r = rand_msm(&mut rng, rs.0, rs.1, "r");
            let body = format!("{} {}", l.token(), r.token());
            let circuit = ver::VerCircuit { what: if committed { ver::Expose::AccCommitted } else { ver::Expose::Acc }, vk: None, lhs: l.clone(), rhs: r.clone() };
            if committed {
                let (p, c) = ver::enc_acc_committed(&l, &r);
                ver_case(ctx, "expose-acc-committed", "exposeaccc", &body, circuit, p, c, max_edits);
            } else {
                ver_case(ctx, "expose-acc", "exposeacc", &body, circuit, ver::enc_acc(&l, &r), vec![], max_edits);
            }
        }
    }
    // `fixed_base_names` and the key order of the `BTreeMap` the off-circuit `Msm` keeps its fixed-base
    // scalars in, against the model's names / sort
    for (vk_name, nf, np) in [("vk", 0usize, 0usize), ("vk", 3, 2), ("vk", 10, 10), ("vk", 11, 2), ("a", 12, 11), ("inner_vk", 25, 13), ("vk", 101, 0)] {
        let names = midnight_circuits::verifier::fixed_base_names::<ver::S>(vk_name, nf, np);
        let map: std::collections::BTreeMap<String, usize> = names.iter().cloned().enumerate().map(|(i, n)| (n, i)).collect();
        let sorted: Vec<String> = map.keys().cloned().collect();
        let perm: Vec<String> = map.values().map(|i| i.to_string()).collect();
        ctx.case("names", true, &format!("names {vk_name} {nf} {np}"), &format!("{} | {} | {}", names.join(","), sorted.join(","), perm.join(",")));
    }
    // the library's own canonical name list (`verifier::fixed_base_names`) of a key with more than
    // 10 fixed commitments: NOT in lexicographic order (`.._10` < `.._2`), while the BTreeMap of
    // the off-circuit `Msm` is (seeded defect C08-3: `AssignedMsm::assign` must sort the names)
    for (nb_fixed, nb_perm, committed) in [(11usize, 2usize, false), (12, 11, true)] {
        let names = midnight_circuits::verifier::fixed_base_names::<ver::S>("vk", nb_fixed, nb_perm);
        let mut sorted = names.clone();
        sorted.sort();
        ctx.count(&format!("acc-canonical-names:{}:{}", names.len(), if sorted == names { "sorted" } else { "unsorted" }));
        let mk = |rng: &mut rand_chacha::ChaCha8Rng, nb: usize| ver::MsmVal {
            bases: (0..nb).map(|_| <ver::C as group::Group>::random(&mut *rng)).collect(),
            scalars: (0..nb).map(|_| F::random(&mut *rng)).collect(),
            fixed: names.iter().map(|n| (n.clone(), F::random(&mut *rng))).collect(),
        };
        let l = mk(&mut rng, 1);
        let r = mk(&mut rng, 1);
        let body = format!("{} {}", l.token(), r.token());
        let circuit = ver::VerCircuit { what: if committed { ver::Expose::AccCommitted } else { ver::Expose::Acc }, vk: None, lhs: l.clone(), rhs: r.clone() };
        if committed {
            let (p, c) = ver::enc_acc_committed(&l, &r);
            ver_case(ctx, "expose-acc-committed", "exposeaccc", &body, circuit, p, c, max_edits);
        } else {
            ver_case(ctx, "expose-acc", "exposeacc", &body, circuit, ver::enc_acc(&l, &r), vec![], max_edits);
        }
    }
    let _ = rng.gen::<u8>();
}


/// Exposure through several handles on the native chip (clones held by gadgets), on the plain and
/// on the committed instance column, interleaved (see `handles.rs`; seeded defect C08-4).
fn run_handles(ctx: &mut Ctx) {
    use handles::{HCircuit, HStep, HVal};
    use rand::Rng;
    let mut rng = ctx.rng("handles");
    let quick = small(ctx);
    let nat = |x: u64| Item::Native(F::from(x));
    let it = |h: &'static str, p: Path, v: Item| HStep { h, v: HVal::It(p, v) };
    use Path::{Assign as A, Committed as M, Constrain as Cn};
    let mut seqs: Vec<Vec<HStep>> = vec![
        // committed inputs through ONE handle
        vec![it("chip", Cn, nat(1)), it("gadget", Cn, nat(2)), it("gadget", M, nat(3)), it("gadget", M, nat(4)), it("gadget", M, Item::Byte(0xC8))],
        // the circuit of seeded/C08-4/demo.rs: committed inputs through two handles
        vec![it("chip", Cn, nat(11)), it("gadget", Cn, nat(12)), it("chip", M, nat(13)), it("gadget", M, nat(14)), it("chip", M, nat(15)), it("gadget", M, Item::Byte(255))],
        // two committed values only, one per handle (smallest colliding shape), equal values
        vec![it("g2", M, nat(7)), it("eccsc", M, nat(7))],
        // every handle, both columns, interleaved with points, emulated field elements and accumulators
        vec![
            it("chip", M, rand_item_native(&mut rng)),
            it("gadget", Cn, Item::Bit(true)),
            it("eccsc", M, Item::Byte(200)),
            it("ecc", Cn, Item::BlsPoint(group::Group::identity())),
            it("g2", M, Item::Bit(true)),
            it("ff", A, Item::BlsBase(ff::Field::ZERO)),
            it("chip", A, nat(0)),
            it("gadget", M, nat(0)),
            HStep { h: "ver", v: HVal::Acc(true, rand_msm(&mut rng, 1, 1, "l"), rand_msm(&mut rng, 1, 2, "r")) },
            it("g2", A, Item::Byte(1)),
            it("eccsc", M, rand_item_native(&mut rng)),
            HStep { h: "ver", v: HVal::Acc(false, rand_msm(&mut rng, 0, 1, "l"), rand_msm(&mut rng, 1, 0, "r")) },
            it("chip", M, Item::Native(-F::ONE)),
            it("chip", Cn, Item::Bit(false)),
        ],
    ];
    // seeded random interleavings over the native handles (and a point / accumulator now and then)
    let nrand = if quick { 8 } else { 24 };
    for _ in 0..nrand {
        let n = rng.gen_range(3..=9);
        let mut v = vec![];
        for _ in 0..n {
            let h = ["chip", "gadget", "g2", "eccsc"][rng.gen_range(0..4)];
            let committed = rng.gen_bool(0.6);
            let item = match rng.gen_range(0..4) {
                0 if h != "chip" => Item::Bit(rng.gen()),
                1 if h != "chip" => Item::Byte(rng.gen()),
                _ => rand_item_native(&mut rng),
            };
            let p = if committed { M } else if rng.gen_bool(0.5) { Cn } else { A };
            v.push(it(h, p, item));
            match rng.gen_range(0..12) {
                0 => v.push(it("ecc", Cn, Item::BlsPoint(bls_points(&mut rng, 1).pop().unwrap()))),
                1 => v.push(HStep { h: "ver", v: HVal::Acc(true, rand_msm(&mut rng, 0, 0, "l"), rand_msm(&mut rng, 1, 1, "r")) }),
                _ => {}
            }
        }
        seqs.push(v);
    }
    for steps in seqs {
        let circuit = HCircuit { steps };
        let body = circuit.body();
        let (plain, com) = circuit.raw_vectors();
        let handles_used: std::collections::BTreeSet<&str> = circuit.steps.iter().filter(|s| s.encode().1.len() > 0).map(|s| s.h).collect();
        ctx.count(&format!("handles-with-committed-inputs:{}", handles_used.len()));
        ver_case(ctx, "expose-handles", "hexpose", &body, circuit, plain, com, if quick { 8 } else { 16 });
    }
}

fn rand_item_native(rng: &mut rand_chacha::ChaCha8Rng) -> Item {
    Item::Native(rand_field::<F>(rng))
}

/// IR value types through ZKIR programs.
fn run_ir(ctx: &mut Ctx) {
    use midnight_zkir::{IrType, IrValue};
    let quick = small(ctx);
    let mut rng = ctx.rng("ir");
    // --- the IR-level formatter on single values (every IR type, boundary values)
    let mut singles: Vec<(IrValue, IrType)> = vec![
        (IrValue::Bool(false), IrType::Bool),
        (IrValue::Bool(true), IrType::Bool),
        (IrValue::Bytes(vec![]), IrType::Bytes(0)),
        (IrValue::Bytes(vec![0]), IrType::Bytes(1)),
        (IrValue::Bytes(vec![255, 0, 1, 128]), IrType::Bytes(4)),
        (IrValue::Bytes((0..=255u8).collect()), IrType::Bytes(256)),
        (IrValue::Native(F::ZERO), IrType::Native),
        (IrValue::Native(-F::ONE), IrType::Native),
    ];
    for nb in [1u32, 8, 96, 97, 192, 193, 1024] {
        for v in bits_boundaries(nb).into_iter().chain(std::iter::once(rand_big(&mut rng, nb))) {
            singles.push((IrValue::BigUint(v), IrType::BigUint(nb)));
        }
    }
    for p in jpoints(&mut rng, 2) {
        singles.push((IrValue::JubjubPoint(p), IrType::JubjubPoint));
    }
    for s in jscalars(&mut rng, 2) {
        singles.push((IrValue::JubjubScalar(s), IrType::JubjubScalar));
    }
    for (v, t) in &singles {
        let line = format!("enc {}", ir::ir_token(v, t));
        let ans = match mzkh::catch(|| ir::enc_ir(v, *t)) {
            Ok(Ok(e)) => fq_list(&e),
            Ok(Err(e)) => format!("error {e}"),
            Err(_) => "panic".into(),
        };
        ctx.case("enc:ir", true, &line, &ans);
    }
    // a value that is not of the declared type must be refused by the IR formatter
    for (v, t) in [
        (IrValue::BigUint(num_bigint::BigUint::from(256u32)), IrType::BigUint(8)),
        (IrValue::Bytes(vec![1, 2]), IrType::Bytes(3)),
        (IrValue::Bool(true), IrType::Native),
    ] {
        if let Ok(Ok(e)) = mzkh::catch(|| ir::enc_ir(&v, t)) {
            ctx.oracle_fail(&format!("ir:ill-typed:{t:?}"), "the IR formatter encodes a value that is not of the declared type", json!({"value": format!("{v:?}"), "type": format!("{t:?}"), "encoding": fq_list(&e)}));
        }
        ctx.count("ir-ill-typed-refused");
    }
    // --- programs
    for c in ir::cases(quick) {
        let key = format!("ir:{}", c.name);
        let (inst, pi) = match mzkh::catch(|| ir::public_inputs(&c.prog, &c.wit)) {
            Ok(Ok(x)) => x,
            Ok(Err(e)) | Err(e) => {
                ctx.oracle_fail(&key, "public_inputs/format_instance fails on an honest ZKIR program", json!({"case": c.name, "error": e}));
                continue;
            }
        };
        if inst.len() != c.paths.len() {
            ctx.oracle_fail(&key, "unexpected number of published values", json!({"case": c.name, "published": inst.len()}));
            continue;
        }
        let body = if inst.is_empty() {
            "-".to_string()
        } else {
            inst.iter().zip(&c.paths).map(|((v, t), p)| format!("{p}:{}", ir::ir_token(v, t))).collect::<Vec<_>>().join(" ")
        };
        let total = pi.len();
        let max_edits = if quick { 6 } else { 16 };
        let positions: Vec<usize> = if total <= max_edits {
            (0..total).collect()
        } else {
            use rand::Rng;
            let mut v = vec![0, total - 1];
            while v.len() < max_edits {
                let i = rng.gen_range(0..total);
                if !v.contains(&i) {
                    v.push(i);
                }
            }
            v.sort();
            v
        };
        let line = if total <= max_edits { format!("expose {body}") } else { format!("exposeat {} {body}", mzkh::join(&positions)) };
        let mut k = mzkh::catch(|| ir::min_k(&c.prog)).ok().and_then(|r| r.ok()).unwrap_or(9);
        let obs = loop {
            let r = mzkh::catch(|| ir::observe(&c.prog, &c.wit, &inst, &pi, k));
            let out_of_rows = match &r {
                Ok(Err(e)) => e.contains("NotEnoughRows"),
                Err(p) => p.contains("usable_rows") || p.contains("minimum_rows"),
                _ => false,
            };
            if out_of_rows && k < 15 {
                k += 1;
                continue;
            }
            break r;
        };
        let (bound, sat) = match obs {
            Ok(Ok(x)) => x,
            Ok(Err(e)) | Err(e) => {
                ctx.case("expose-ir", true, &line, "error");
                ctx.oracle_fail(&key, "compiling/proving an honest ZKIR program fails", json!({"case": c.name, "error": e}));
                continue;
            }
        };
        let mut rejected = 0;
        let mut accepted = vec![];
        if sat {
            for &i in &positions {
                let mut p2 = pi.clone();
                p2[i] += F::ONE;
                match mzkh::catch(|| ir::verdict(&c.prog, &c.wit, &inst, &p2, k)) {
                    Ok(Ok(false)) => rejected += 1,
                    _ => accepted.push(i),
                }
            }
            ctx.count_n("edits_tried", positions.len() as u64);
        }
        let ans = format!("plain={} com=0:- sat={} rej={}/{}", fmt_bound(&bound), sat as u8, rejected, positions.len());
        ctx.case("expose-ir", true, &line, &ans);
        ctx.count(&format!("ir-case:{}", c.name.split('-').next().unwrap_or("")));
        let exact = bound.rows.len() == pi.len() && bound.rows.iter().enumerate().all(|(i, r)| i == *r) && bound.cells.iter().zip(&pi).all(|(c, e)| c.as_ref() == Some(e));
        if !sat {
            ctx.oracle_fail(&key, "the compiled ZKIR circuit rejects the public inputs computed off-circuit", json!({"case": c.name, "line": line, "bound": ans}));
        } else if !accepted.is_empty() {
            ctx.oracle_fail(&key, "the compiled ZKIR circuit accepts an edited public-input vector", json!({"case": c.name, "positions": accepted}));
        } else if !exact {
            let known = c.known_jscalar && bound.rows.len() > pi.len();
            ctx.oracle_fail(
                if known { KEY_JSCALAR } else { &key },
                "the instance rows bound by the circuit are not exactly the positions of the off-circuit encoding",
                json!({"case": c.name, "line": line, "bound": ans, "plain": fq_list(&pi)}),
            );
        }
    }
}

fn main() {
    let mut ctx = Ctx::from_args("C08");
    // development aid: `C08_ONLY=verify,keys` runs only the named sections (the check never sets it)
    let only = std::env::var("C08_ONLY").ok();
    let on = |name: &str| only.as_ref().map(|o| o.split(',').any(|x| x == name)).unwrap_or(true);
    if on("consts") {
        run_consts(&mut ctx);
    }
    if on("enc") {
        run_enc(&mut ctx);
    }
    if on("single") {
        run_expose_single(&mut ctx);
    }
    if on("mixed") {
        run_expose_mixed(&mut ctx);
    }
    if on("keys") {
        run_keys(&mut ctx);
    }
    if on("verify") {
        lenrel::run_verify_count(&mut ctx);
    }
    if on("bigguard") {
        lenrel::run_big_guard(&mut ctx);
    }
    if on("verifier") {
        run_verifier(&mut ctx);
    }
    if on("ir") {
        run_ir(&mut ctx);
    }
    if on("handles") {
        run_handles(&mut ctx);
    }
    if on("comrel") {
        comrel::run_committed(&mut ctx);
    }
    ctx.finish();
}
