//! Correspondence harness of property C08: the off-circuit public-input encoders
//! (`Instantiable::as_public_input`, `format_instance`) against what the compiled circuits bind
//! (`constrain_as_public_input` / `assign_as_public_input` / committed variant), the instance-row
//! counter stored in the verifying key, and the Lean model of both.
use ff::Field;
use mzkh::Ctx;
use serde_json::json;

mod rel;
mod vals;

use rel::{MixRelation, Path, Step};
use vals::*;

/// `enc <token>` : the real off-circuit encoder on one value.
fn enc_case(ctx: &mut Ctx, it: &Item, nontrivial: bool) {
    let line = format!("enc {}", it.token());
    let ans = match mzkh::catch(|| it.encode()) {
        Ok(v) => fq_list(&v),
        Err(_) => "panic".to_string(),
    };
    ctx.case(&format!("enc:{}", it.tag().split(':').next().unwrap()), nontrivial, &line, &ans);
}

fn run_enc(ctx: &mut Ctx) {
    use midnight_curves::{
        k256::{Fp as SecpFp, Fq as SecpFq},
        Fp as BlsFp,
    };
    let mut rng = ctx.rng("enc");
    let nrand = if ctx.quick() { 8 } else { 64 };
    for b in [false, true] {
        enc_case(ctx, &Item::Bit(b), true);
    }
    for b in 0..=255u8 {
        enc_case(ctx, &Item::Byte(b), true);
    }
    for x in field_boundaries::<F>(64, 4).into_iter().chain((0..nrand).map(|_| rand_field::<F>(&mut rng))) {
        enc_case(ctx, &Item::Native(x), true);
    }
    for x in field_boundaries::<SecpFp>(64, 4).into_iter().chain((0..nrand).map(|_| rand_field(&mut rng))) {
        enc_case(ctx, &Item::SecpBase(x), true);
    }
    for x in field_boundaries::<SecpFq>(64, 4).into_iter().chain((0..nrand).map(|_| rand_field(&mut rng))) {
        enc_case(ctx, &Item::SecpScalar(x), true);
    }
    for x in field_boundaries::<BlsFp>(56, 7).into_iter().chain((0..nrand).map(|_| rand_field(&mut rng))) {
        enc_case(ctx, &Item::BlsBase(x), true);
    }
    for p in secp_points(&mut rng, nrand) {
        enc_case(ctx, &Item::SecpPoint(p), true);
    }
    for p in bls_points(&mut rng, nrand) {
        enc_case(ctx, &Item::BlsPoint(p), true);
    }
    for p in jpoints(&mut rng, nrand) {
        enc_case(ctx, &Item::JPoint(p), true);
    }
    for s in jscalars(&mut rng, nrand) {
        enc_case(ctx, &Item::JScalar(s), true);
    }
    // BigUint of every limb count 0..=5 (and more in thorough), bound at / around limb borders
    let nbs: Vec<u32> = if ctx.quick() {
        vec![0, 1, 2, 8, 64, 95, 96, 97, 128, 191, 192, 193, 288, 289, 384, 385, 480, 1024]
    } else {
        (0..=200).chain([287, 288, 289, 383, 384, 385, 479, 480, 481, 1023, 1024, 1025, 2048, 4096]).collect()
    };
    for nb in nbs {
        for v in bits_boundaries(nb).into_iter().chain((0..(nrand / 4).max(2)).map(|_| rand_big(&mut rng, nb))) {
            enc_case(ctx, &Item::Big(nb, v), true);
        }
        // values that do not fit the limbs of the declared bound: the encoder panics
        let nl = nb.div_ceil(96);
        enc_case(ctx, &Item::Big(nb, num_bigint::BigUint::from(1u8) << (96 * nl)), true);
        if nb % 96 != 0 {
            // fits the limbs but not the declared bound: encoded without complaint
            enc_case(ctx, &Item::Big(nb, num_bigint::BigUint::from(1u8) << nb), true);
        }
    }
}

// ---------------------------------------------------------------------------------------------

struct KCache(std::collections::HashMap<String, u32>);

impl KCache {
    fn key(rel: &MixRelation) -> String {
        rel.steps.iter().map(|s| format!("{}:{}", s.path.tag(), s.proto.tag())).collect::<Vec<_>>().join(" ")
    }
    fn k(&mut self, rel: &MixRelation) -> u32 {
        *self.0.entry(Self::key(rel)).or_insert_with(|| rel::min_k(rel))
    }
    fn set(&mut self, rel: &MixRelation, k: u32) {
        self.0.insert(Self::key(rel), k);
    }
}

/// Recorded finding (see /verif/findings/C08.json): a Jubjub scalar whose in-circuit bit
/// vector is longer than 252 bits (`convert` from a native value: d0; `scalar_from_le_bytes`
/// on 32 bytes or more: dN, N >= 32).
const KEY_JSCALAR: &str = "jscalar-exposure:bits>252";

fn has_long_jscalar(rel: &MixRelation) -> bool {
    rel.steps.iter().any(|s| matches!((&s.proto, s.path), (Item::JScalar(_), Path::Derived(n)) if n == 0 || n >= 32))
}

/// One exposure case: the relation exposing `steps` with values `items`.
///  * the honest raw vectors (REAL encoders) must satisfy the circuit;
///  * every single-position edit (+1) of either vector must be rejected;
///  * the bound instance rows must be exactly `0..len` of the encoded vectors, and the cells
///    they are tied to must hold the encoded values.
fn expose_case(ctx: &mut Ctx, kc: &mut KCache, kind: &str, steps: Vec<Step>, items: Vec<Item>) {
    let rel = MixRelation::new(steps);
    let line = format!(
        "expose {}",
        if rel.steps.is_empty() {
            "-".to_string()
        } else {
            rel.steps.iter().zip(&items).map(|(s, it)| format!("{}:{}", s.path.tag(), it.token())).collect::<Vec<_>>().join(" ")
        }
    );
    let key = format!("expose:{line}");
    // `min_k` (cost model) does not count the rows taken by constants: grow k while the
    // synthesis runs out of rows.
    let mut k = match mzkh::catch(|| kc.k(&rel)) {
        Ok(k) => k,
        Err(_) => 9,
    };
    let r = loop {
        let r = mzkh::catch(|| {
            let (plain, com) = rel::raw_vectors(&rel, &items);
            let obs = rel::observe(&rel, &items, k, &com, &plain)?;
            Ok::<_, String>((k, plain, com, obs))
        });
        let out_of_rows = match &r {
            Ok(Err(e)) => e.contains("NotEnoughRows"),
            Err(p) => p.contains("usable_rows") || p.contains("minimum_rows"),
            _ => false,
        };
        if out_of_rows && k < 14 {
            k += 1;
            kc.set(&rel, k);
            continue;
        }
        break r;
    };
    let (k, plain, com, obs) = match r {
        Ok(Ok(x)) => x,
        Ok(Err(e)) => {
            ctx.case(kind, true, &line, &format!("error {}", e.chars().take(120).collect::<String>()));
            ctx.oracle_fail(&key, "exposing an honest value fails at synthesis", json!({"error": e, "line": line}));
            return;
        }
        Err(p) => {
            ctx.case(kind, true, &line, "panic");
            ctx.oracle_fail(&key, "exposing an honest value panics", json!({"panic": p, "line": line}));
            return;
        }
    };
    let fmt_bound = |b: &rel::Bound| {
        let contiguous = b.rows.iter().enumerate().all(|(i, r)| i == *r);
        let cells: Vec<String> = b.cells.iter().map(|c| c.map(|f| hex(&f)).unwrap_or("?".into())).collect();
        format!("{}{}:{}", b.rows.len(), if contiguous { "" } else { "!gap" }, if cells.is_empty() { "-".into() } else { cells.join(",") })
    };
    // single-position edits
    let mut rejected = 0usize;
    let mut accepted_edits = vec![];
    let total = plain.len() + com.len();
    if obs.sat {
        for i in 0..total {
            let (mut p2, mut c2) = (plain.clone(), com.clone());
            if i < plain.len() {
                p2[i] += F::ONE;
            } else {
                c2[i - plain.len()] += F::ONE;
            }
            match mzkh::catch(|| rel::verdict(&rel, &items, k, &c2, &p2)) {
                Ok(Ok(false)) => rejected += 1,
                Ok(Ok(true)) => accepted_edits.push(i),
                Ok(Err(e)) | Err(e) => {
                    accepted_edits.push(i);
                    ctx.count(&format!("edit-error:{}", e.chars().take(40).collect::<String>()));
                }
            }
        }
        ctx.count_n("edits_tried", total as u64);
    }
    let ans = format!(
        "plain={} com={} sat={} rej={}/{}",
        fmt_bound(&obs.plain),
        fmt_bound(&obs.committed),
        obs.sat as u8,
        rejected,
        total
    );
    ctx.case(kind, true, &line, &ans);
    ctx.count(&format!("k:{k}"));
    ctx.count(&format!("exposed-cells:{}", if total == 0 { "0".into() } else if total <= 4 { total.to_string() } else if total <= 16 { "5-16".into() } else { "17+".into() }));
    // the property's oracle, checked directly on the implementation
    if !obs.sat {
        ctx.oracle_fail(
            &key,
            "the circuit exposing v rejects the off-circuit encoding of v",
            json!({"line": line, "k": k, "plain": fq_list(&plain), "committed": fq_list(&com), "bound": ans, "failures": obs.failures}),
        );
        return;
    }
    if !accepted_edits.is_empty() {
        ctx.oracle_fail(
            &key,
            "the circuit exposing v accepts a raw vector different from the encoding of v",
            json!({"line": line, "k": k, "positions": accepted_edits, "plain": fq_list(&plain), "committed": fq_list(&com)}),
        );
    }
    let check = |b: &rel::Bound, enc: &[F]| {
        b.rows.len() == enc.len()
            && b.rows.iter().enumerate().all(|(i, r)| i == *r)
            && b.cells.iter().zip(enc).all(|(c, e)| c.as_ref() == Some(e))
    };
    if !check(&obs.plain, &plain) || !check(&obs.committed, &com) {
        // the recorded finding: more rows bound than the encoding has, everything else fine
        let known = has_long_jscalar(&rel) && accepted_edits.is_empty() && obs.plain.rows.len() > plain.len();
        ctx.oracle_fail(
            if known { KEY_JSCALAR } else { &key },
            "the instance rows bound by the circuit are not exactly the positions of the off-circuit encoding",
            json!({"line": line, "k": k, "plain": fq_list(&plain), "committed": fq_list(&com), "bound": ans}),
        );
    }
}

fn single(ctx: &mut Ctx, kc: &mut KCache, path: Path, it: Item) {
    let kind = format!("expose1:{}:{}", it.tag().split(':').next().unwrap(), path.tag());
    expose_case(ctx, kc, &kind, vec![Step { path, proto: it.clone() }], vec![it]);
}

fn run_expose_single(ctx: &mut Ctx) {
    let mut kc = KCache(Default::default());
    let mut rng = ctx.rng("expose1");
    let q = ctx.quick();
    let basic = [Path::Constrain, Path::Assign, Path::Fixed];
    for p in basic.iter().chain([Path::Committed].iter()) {
        for b in [false, true] {
            single(ctx, &mut kc, *p, Item::Bit(b));
        }
        for b in [0u8, 1, 127, 255] {
            single(ctx, &mut kc, *p, Item::Byte(b));
        }
        for x in [F::ZERO, F::ONE, -F::ONE, rand_field::<F>(&mut rng)] {
            single(ctx, &mut kc, *p, Item::Native(x));
        }
    }
    for x in [F::ZERO, F::ONE, -F::ONE, rand_field::<F>(&mut rng)] {
        single(ctx, &mut kc, Path::Derived(0), Item::Native(x));
    }
    use midnight_curves::{
        k256::{Fp as SecpFp, Fq as SecpFq},
        Fp as BlsFp,
    };
    let nr = if q { 1 } else { 6 };
    let ffpaths = [Path::Constrain, Path::Assign, Path::Fixed, Path::Derived(0), Path::Derived(1)];
    for p in ffpaths {
        let lim = |n: usize| if q && p != Path::Constrain && p != Path::Assign { n.min(6) } else { n };
        let v = field_boundaries::<SecpFp>(64, 4);
        for x in v.iter().take(lim(v.len())).cloned().chain((0..nr).map(|_| rand_field(&mut rng))) {
            single(ctx, &mut kc, p, Item::SecpBase(x));
        }
        let v = field_boundaries::<SecpFq>(64, 4);
        for x in v.iter().take(lim(v.len())).cloned().chain((0..nr).map(|_| rand_field(&mut rng))) {
            single(ctx, &mut kc, p, Item::SecpScalar(x));
        }
        let v = field_boundaries::<BlsFp>(56, 7);
        for x in v.iter().take(lim(v.len())).cloned().chain((0..nr).map(|_| rand_field(&mut rng))) {
            single(ctx, &mut kc, p, Item::BlsBase(x));
        }
        for pt in secp_points(&mut rng, nr) {
            single(ctx, &mut kc, p, Item::SecpPoint(pt));
        }
        for pt in bls_points(&mut rng, nr) {
            single(ctx, &mut kc, p, Item::BlsPoint(pt));
        }
        for pt in jpoints(&mut rng, nr) {
            single(ctx, &mut kc, p, Item::JPoint(pt));
        }
    }
    for p in [Path::Constrain, Path::Assign, Path::Fixed, Path::Derived(0), Path::Derived(1), Path::Derived(31), Path::Derived(32), Path::Derived(64)] {
        for s in jscalars(&mut rng, nr) {
            if let Path::Derived(n) = p {
                if n >= 1 && n < 32 && big_of(&s).bits() > 8 * n as u64 {
                    continue;
                }
            }
            single(ctx, &mut kc, p, Item::JScalar(s));
        }
    }
    let nbs: Vec<u32> = if q { vec![1, 8, 96, 104, 200] } else { vec![1, 2, 8, 64, 95, 96, 97, 104, 192, 193, 200, 288, 296, 400] };
    for nb in nbs {
        for v in bits_boundaries(nb).into_iter().chain((0..nr).map(|_| rand_big(&mut rng, nb))) {
            single(ctx, &mut kc, Path::Constrain, Item::Big(nb, v.clone()));
            if (v.bits().max(1) as u32) == nb {
                single(ctx, &mut kc, Path::Fixed, Item::Big(nb, v.clone()));
            }
            if nb % 8 == 0 {
                single(ctx, &mut kc, Path::Derived(0), Item::Big(nb, v.clone()));
            }
        }
    }
}

fn main() {
    let mut ctx = Ctx::from_args("C08");
    run_enc(&mut ctx);
    run_expose_single(&mut ctx);
    ctx.finish();
}
