//! Correspondence harness of property C08 (stub).
use mzkh::Ctx;

fn main() {
    let ctx = Ctx::from_args("C08");
    ctx.finish();
}
