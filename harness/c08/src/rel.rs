//! A relation (zk_stdlib `Relation` API) exposing an arbitrary sequence of typed values through
//! the REAL in-circuit exposure entry points, and the observation of what the compiled circuit
//! binds: which instance rows are copy-constrained, to which advice cells, and with which values.
use ff::Field;
use group::Group;
use midnight_circuits::{
    instructions::{
        public_input::CommittedInstanceInstructions, ArithInstructions, AssignmentInstructions, ConversionInstructions,
        EccInstructions, PublicInputInstructions,
    },
    types::{AssignedBit, AssignedByte, AssignedNative, Instantiable},
};
use midnight_curves::{
    k256::K256,
    G1Projective, JubjubExtended, JubjubSubgroup,
};
use midnight_proofs::{
    circuit::{Layouter, Value},
    dev::{CellValue, MockProver},
    plonk::{Any, Error},
};
use midnight_zk_stdlib::{MidnightCircuit, Relation, ZkStdLib, ZkStdLibArch};
use num_bigint::BigUint;
use rayon::iter::ParallelIterator;

use crate::vals::{Item, F};

/// How a value reaches the instance column.
#[derive(Clone, Copy, Debug, PartialEq, Eq)]
pub enum Path {
    /// `assign` followed by `constrain_as_public_input`.
    Constrain,
    /// `assign_as_public_input`.
    Assign,
    /// `assign` followed by `constrain_as_committed_public_input` (bit, byte, native only).
    Committed,
    /// `assign_fixed` (a constant of the circuit) followed by `constrain_as_public_input`.
    Fixed,
    /// The value is the result of an in-circuit computation, so its in-circuit representation
    /// is not the one `assign` produces (non-normalised limbs, computed identity flag, bit
    /// vectors of another length, ...), followed by `constrain_as_public_input`. The parameter
    /// selects the construction (see `synth_step`).
    Derived(u32),
}

impl Path {
    pub fn tag(&self) -> String {
        match self {
            Path::Constrain => "c".into(),
            Path::Assign => "a".into(),
            Path::Committed => "m".into(),
            Path::Fixed => "f".into(),
            Path::Derived(k) => format!("d{k}"),
        }
    }
}

#[derive(Clone, Debug)]
pub struct Step {
    pub path: Path,
    /// Carries the type; for `Path::Fixed` also the constant.
    pub proto: Item,
}

#[derive(Clone, Debug)]
pub struct MixRelation {
    pub steps: Vec<Step>,
    pub nr_pow2range_cols: u8,
}

impl MixRelation {
    pub fn new(steps: Vec<Step>) -> Self {
        MixRelation { steps, nr_pow2range_cols: 4 }
    }
}

macro_rules! pick {
    ($v:expr, $variant:ident) => {
        $v.clone().map(|it| match it {
            Item::$variant(x) => x,
            other => panic!("instance item of the wrong type: {other:?}"),
        })
    };
}

/// `assign`+`constrain` / `assign_as_public_input` / `assign_fixed`+`constrain` on one chip.
pub(crate) fn expose<T, Ch>(
    chip: &Ch,
    layouter: &mut impl Layouter<F>,
    val: Value<T::Element>,
    path: Path,
    konst: T::Element,
) -> Result<(), Error>
where
    T: Instantiable<F>,
    Ch: AssignmentInstructions<F, T> + PublicInputInstructions<F, T>,
{
    match path {
        Path::Constrain => {
            let x = chip.assign(layouter, val)?;
            chip.constrain_as_public_input(layouter, &x)
        }
        Path::Assign => chip.assign_as_public_input(layouter, val).map(|_| ()),
        Path::Fixed => {
            let x = chip.assign_fixed(layouter, konst)?;
            chip.constrain_as_public_input(layouter, &x)
        }
        _ => panic!("expose: unsupported path {path:?}"),
    }
}

fn committed<T>(std: &ZkStdLib, layouter: &mut impl Layouter<F>, val: Value<T::Element>) -> Result<(), Error>
where
    T: Instantiable<F> + Into<AssignedNative<F>>,
    ZkStdLib: AssignmentInstructions<F, T> + CommittedInstanceInstructions<F, T>,
{
    let x: T = std.assign(layouter, val)?;
    std.constrain_as_committed_public_input(layouter, &x)
}

pub(crate) fn synth_step(std: &ZkStdLib, layouter: &mut impl Layouter<F>, step: &Step, v: Value<Item>) -> Result<(), Error> {
    let path = step.path;
    match &step.proto {
        Item::Bit(k) => match path {
            Path::Committed => committed::<AssignedBit<F>>(std, layouter, pick!(v, Bit)),
            _ => expose::<AssignedBit<F>, _>(std, layouter, pick!(v, Bit), path, *k),
        },
        Item::Byte(k) => match path {
            Path::Committed => committed::<AssignedByte<F>>(std, layouter, pick!(v, Byte)),
            _ => expose::<AssignedByte<F>, _>(std, layouter, pick!(v, Byte), path, *k),
        },
        Item::Native(k) => match path {
            Path::Committed => committed::<AssignedNative<F>>(std, layouter, pick!(v, Native)),
            // d0: x = (x - 1) + 1 computed in-circuit
            Path::Derived(_) => {
                let y: AssignedNative<F> = std.assign(layouter, pick!(v, Native).map(|x| x - F::ONE))?;
                let x = std.add_constant(layouter, &y, F::ONE)?;
                std.constrain_as_public_input(layouter, &x)
            }
            _ => expose::<AssignedNative<F>, _>(std, layouter, pick!(v, Native), path, *k),
        },
        Item::SecpBase(k) => {
            let chip = std.secp256k1_curve().base_field_chip();
            match path {
                // exposure after in-circuit arithmetic: see `ff_derived`
                Path::Derived(n) => ff_derived(chip, layouter, pick!(v, SecpBase), n),
                _ => expose(chip, layouter, pick!(v, SecpBase), path, *k),
            }
        }
        Item::SecpScalar(k) => {
            let chip = std.secp256k1_scalar();
            match path {
                // exposure after in-circuit arithmetic: see `ff_derived`
                Path::Derived(n) => ff_derived(chip, layouter, pick!(v, SecpScalar), n),
                _ => expose(chip, layouter, pick!(v, SecpScalar), path, *k),
            }
        }
        Item::BlsBase(k) => {
            let chip = std.bls12_381_curve().base_field_chip();
            match path {
                // exposure after in-circuit arithmetic: see `ff_derived`
                Path::Derived(n) => ff_derived(chip, layouter, pick!(v, BlsBase), n),
                _ => expose(chip, layouter, pick!(v, BlsBase), path, *k),
            }
        }
        Item::SecpPoint(k) => {
            let chip = std.secp256k1_curve();
            match path {
                // d0: p = -(-p)
                Path::Derived(0) => {
                    let q = chip.assign(layouter, pick!(v, SecpPoint).map(|p| -p))?;
                    let p = chip.negate(layouter, &q)?;
                    chip.constrain_as_public_input(layouter, &p)
                }
                // d1: p = (p - g) + g  (complete addition; yields a computed identity for p = id)
                // d2: p = ((p - 2g) + g) + g: two complete additions in a row (p = g goes through a
                // computed identity, p = 2g starts from an assigned identity, p = id ends in a computed one)
                Path::Derived(2) => {
                    let g = K256::generator();
                    let q = chip.assign(layouter, pick!(v, SecpPoint).map(|p| p - g - g))?;
                    let gg = chip.assign_fixed(layouter, g)?;
                    let r = chip.add(layouter, &q, &gg)?;
                    let p = chip.add(layouter, &r, &gg)?;
                    chip.constrain_as_public_input(layouter, &p)
                }
                Path::Derived(_) => {
                    let g = K256::generator();
                    let q = chip.assign(layouter, pick!(v, SecpPoint).map(|p| p - g))?;
                    let gg = chip.assign_fixed(layouter, g)?;
                    let p = chip.add(layouter, &q, &gg)?;
                    chip.constrain_as_public_input(layouter, &p)
                }
                _ => expose(chip, layouter, pick!(v, SecpPoint), path, *k),
            }
        }
        Item::BlsPoint(k) => {
            let chip = std.bls12_381_curve();
            match path {
                Path::Derived(0) => {
                    let q = chip.assign(layouter, pick!(v, BlsPoint).map(|p| -p))?;
                    let p = chip.negate(layouter, &q)?;
                    chip.constrain_as_public_input(layouter, &p)
                }
                // d2: p = ((p - 2g) + g) + g: two complete additions in a row (p = g goes through a
                // computed identity, p = 2g starts from an assigned identity, p = id ends in a computed one)
                Path::Derived(2) => {
                    let g = G1Projective::generator();
                    let q = chip.assign(layouter, pick!(v, BlsPoint).map(|p| p - g - g))?;
                    let gg = chip.assign_fixed(layouter, g)?;
                    let r = chip.add(layouter, &q, &gg)?;
                    let p = chip.add(layouter, &r, &gg)?;
                    chip.constrain_as_public_input(layouter, &p)
                }
                Path::Derived(_) => {
                    let g = G1Projective::generator();
                    let q = chip.assign(layouter, pick!(v, BlsPoint).map(|p| p - g))?;
                    let gg = chip.assign_fixed(layouter, g)?;
                    let p = chip.add(layouter, &q, &gg)?;
                    chip.constrain_as_public_input(layouter, &p)
                }
                _ => expose(chip, layouter, pick!(v, BlsPoint), path, *k),
            }
        }
        Item::JPoint(k) => {
            let chip = std.jubjub();
            match path {
                Path::Derived(0) => {
                    let q = chip.assign(layouter, pick!(v, JPoint).map(|p| -p))?;
                    let p = chip.negate(layouter, &q)?;
                    chip.constrain_as_public_input(layouter, &p)
                }
                // d2: p = ((p - 2g) + g) + g: two complete additions in a row (p = g goes through a
                // computed identity, p = 2g starts from an assigned identity, p = id ends in a computed one)
                Path::Derived(2) => {
                    let g = JubjubSubgroup::generator();
                    let q = chip.assign(layouter, pick!(v, JPoint).map(|p| p - g - g))?;
                    let gg = chip.assign_fixed(layouter, g)?;
                    let r = chip.add(layouter, &q, &gg)?;
                    let p = chip.add(layouter, &r, &gg)?;
                    chip.constrain_as_public_input(layouter, &p)
                }
                Path::Derived(_) => {
                    let g = JubjubSubgroup::generator();
                    let q = chip.assign(layouter, pick!(v, JPoint).map(|p| p - g))?;
                    let gg = chip.assign_fixed(layouter, g)?;
                    let p = chip.add(layouter, &q, &gg)?;
                    chip.constrain_as_public_input(layouter, &p)
                }
                _ => expose::<midnight_circuits::types::AssignedNativePoint<JubjubExtended>, _>(chip, layouter, pick!(v, JPoint), path, *k),
            }
        }
        Item::JScalar(k) => {
            let chip = std.jubjub();
            match path {
                // d0: scalar obtained from a native value by `convert` (255 bits);
                // dN (N >= 1): scalar obtained from N little-endian bytes (`scalar_from_le_bytes`).
                Path::Derived(0) => {
                    let x: AssignedNative<F> = std.assign(
                        layouter,
                        pick!(v, JScalar).map(|s| mzkh::fe_from_big::<F>(&crate::vals::big_of(&s))),
                    )?;
                    let s = chip.convert(layouter, &x)?;
                    chip.constrain_as_public_input(layouter, &s)
                }
                Path::Derived(n) => {
                    let n = n as usize;
                    let bytes_val: Value<Vec<u8>> = pick!(v, JScalar).map(|s| {
                        let mut b = crate::vals::big_of(&s).to_bytes_le();
                        b.resize(n, 0);
                        b
                    });
                    let bytes: Vec<AssignedByte<F>> = std.assign_many(layouter, &bytes_val.transpose_vec(n))?;
                    let s = chip.scalar_from_le_bytes(layouter, &bytes)?;
                    chip.constrain_as_public_input(layouter, &s)
                }
                _ => expose::<midnight_circuits::types::AssignedScalarOfNativeCurve<JubjubExtended>, _>(chip, layouter, pick!(v, JScalar), path, *k),
            }
        }
        Item::Big(nb, k) => {
            let chip = std.biguint();
            match path {
                Path::Constrain => {
                    let x = chip.assign_biguint(layouter, pick_big(&v), *nb)?;
                    chip.constrain_as_public_input(layouter, &x, *nb)
                }
                Path::Fixed => {
                    let x = chip.assign_fixed_biguint(layouter, k.clone())?;
                    chip.constrain_as_public_input(layouter, &x, *nb)
                }
                // d0: from little-endian bytes (nb = 8 * number of bytes)
                Path::Derived(0) => {
                    let n = (*nb / 8) as usize;
                    let bytes_val: Value<Vec<u8>> = pick_big(&v).map(|x| {
                        let mut b = x.to_bytes_le();
                        b.resize(n, 0);
                        b
                    });
                    let bytes: Vec<AssignedByte<F>> = std.assign_many(layouter, &bytes_val.transpose_vec(n))?;
                    let x = chip.from_le_bytes(layouter, &bytes)?;
                    chip.constrain_as_public_input(layouter, &x, *nb)
                }
                // d1: x = (x - y) + y with y = 1 of one bit; the declared bound is the derived one
                Path::Derived(_) => {
                    let a = chip.assign_biguint(layouter, pick_big(&v).map(|x| x - 1u8), *nb - 1)?;
                    let one = chip.assign_biguint(layouter, Value::known(BigUint::from(1u8)), 1)?;
                    let x = chip.add(layouter, &a, &one)?;
                    let derived = x.nb_bits();
                    if derived != *nb {
                        return Err(Error::Synthesis(format!("derived-bound {derived} != {nb}")));
                    }
                    chip.constrain_as_public_input(layouter, &x, *nb)
                }
                _ => panic!("biguint: unsupported path"),
            }
        }
    }
}

/// Exposure of an emulated field element AFTER in-circuit arithmetic (lazy, non-normalised
/// representations), for every emulated field alike:
///  * d0: `x = (x - 1) + 1` (add_constant);   d1: `x = -(-x)`;
///  * d2: chain of lazy sums `x = ((a + b) + c) + b - b` with `b = x^2`, `c = -1`, `a = x - b - c`;
///  * d3: product then lazy sum/difference `x = (u * 2 + w) - 0` with `u = x + 1`, `w = -x - 2`;
///  * d4: linear combination with large coefficients `x = (p-1)*a + 3*b + 7` with `a = -x`, `b = -2`
///        (so `(p-1)*a = x`, `3*b + 7 = 1`, hence the element is `x + 1` ... minus one again by sub).
fn ff_derived<T, Ch>(chip: &Ch, layouter: &mut impl Layouter<F>, x: Value<T::Element>, which: u32) -> Result<(), Error>
where
    T: Instantiable<F> + midnight_circuits::types::InnerValue + Clone,
    T::Element: ff::PrimeField,
    Ch: ArithInstructions<F, T> + PublicInputInstructions<F, T>,
{
    let one = <T::Element as Field>::ONE;
    let two = one + one;
    let z = match which {
        0 => {
            let y = chip.assign(layouter, x.map(|x| x - one))?;
            chip.add_constant(layouter, &y, one)?
        }
        1 => {
            let y = chip.assign(layouter, x.map(|x| -x))?;
            chip.neg(layouter, &y)?
        }
        2 => {
            let b = chip.assign(layouter, x.map(|x| x * x))?;
            let c = chip.assign(layouter, Value::known(-one))?;
            let a = chip.assign(layouter, x.map(|x| x - x * x + one))?;
            let s = chip.add(layouter, &a, &b)?;
            let s = chip.add(layouter, &s, &c)?;
            let s = chip.add(layouter, &s, &b)?;
            chip.sub(layouter, &s, &b)?
        }
        3 => {
            let u = chip.assign(layouter, x.map(|x| x + one))?;
            let v = chip.assign_fixed(layouter, two)?;
            let w = chip.assign(layouter, x.map(|x| -x - two))?;
            let zero = chip.assign_fixed(layouter, <T::Element as Field>::ZERO)?;
            let m = chip.mul(layouter, &u, &v, None)?;
            let s = chip.add(layouter, &m, &w)?;
            chip.sub(layouter, &s, &zero)?
        }
        _ => {
            let a = chip.assign(layouter, x.map(|x| -x))?;
            let b = chip.assign(layouter, Value::known(-two))?;
            let three = two + one;
            let seven = three + three + one;
            let lc = chip.linear_combination(layouter, &[(-one, a), (three, b)], seven)?;
            let k = chip.assign_fixed(layouter, one)?;
            chip.sub(layouter, &lc, &k)?
        }
    };
    chip.constrain_as_public_input(layouter, &z)
}

fn pick_big(v: &Value<Item>) -> Value<BigUint> {
    v.clone().map(|it| match it {
        Item::Big(_, x) => x,
        other => panic!("instance item of the wrong type: {other:?}"),
    })
}

impl Relation for MixRelation {
    type Instance = Vec<Item>;
    type Witness = ();

    /// The verifier-side formatter: concatenation of the off-circuit encoders of the values
    /// exposed through the plain instance column.
    fn format_instance(instance: &Self::Instance) -> Result<Vec<F>, Error> {
        // committed items are marked by the harness by wrapping: see `split_instance`
        Ok(instance.iter().flat_map(|it| it.encode()).collect())
    }

    fn circuit(
        &self,
        std_lib: &ZkStdLib,
        layouter: &mut impl Layouter<F>,
        instance: Value<Self::Instance>,
        _witness: Value<()>,
    ) -> Result<(), Error> {
        // The instance handed to the circuit is the list of ALL step values (plain and
        // committed) in step order; `format_instance` receives the plain ones only.
        let vals = instance.transpose_vec(self.steps.len());
        for (step, v) in self.steps.iter().zip(vals) {
            synth_step(std_lib, layouter, step, v)?;
        }
        Ok(())
    }

    fn used_chips(&self) -> ZkStdLibArch {
        let mut a = ZkStdLibArch { nr_pow2range_cols: self.nr_pow2range_cols, ..ZkStdLibArch::default() };
        for s in &self.steps {
            let (j, k, b) = s.proto.needs();
            a.jubjub |= j;
            a.secp256k1 |= k;
            a.bls12_381 |= b;
        }
        a
    }

    fn write_relation<W: std::io::Write>(&self, _w: &mut W) -> std::io::Result<()> {
        Ok(())
    }
    fn read_relation<R: std::io::Read>(_r: &mut R) -> std::io::Result<Self> {
        Err(std::io::Error::other("not serialisable"))
    }
}

// ---------------------------------------------------------------------------------------------

/// What the compiled circuit binds, read off the mock prover's tables.
pub struct Bound {
    /// Rows of the instance column that are copy-constrained to some cell, ascending.
    pub rows: Vec<usize>,
    /// For each such row the value of the advice/fixed cell it is tied to.
    pub cells: Vec<Option<F>>,
}

fn cell_value(prover: &MockProver<F>, col: midnight_proofs::plonk::Column<Any>, row: usize) -> Option<F> {
    let cv = match col.column_type() {
        Any::Advice(_) => prover.advice()[col.index()][row],
        Any::Fixed => prover.fixed()[col.index()][row],
        Any::Instance => return None,
    };
    match cv {
        CellValue::Assigned(f) => Some(f),
        _ => None,
    }
}

/// Rows of instance column `inst_index` that sit in a non-trivial copy cycle, and the value of
/// the first non-instance cell of each cycle.
pub fn bound_rows(prover: &MockProver<F>, inst_index: usize) -> Bound {
    let perm = prover.permutation();
    let cols = perm.columns().to_vec();
    let mapping: Vec<Vec<(usize, usize)>> = perm.mapping().map(|c| c.collect::<Vec<_>>()).collect();
    let ci = cols
        .iter()
        .position(|c| matches!(c.column_type(), Any::Instance) && c.index() == inst_index)
        .expect("instance column takes part in the permutation");
    let mut rows = vec![];
    let mut cells = vec![];
    for (row, &(c, r)) in mapping[ci].iter().enumerate() {
        if (c, r) == (ci, row) {
            continue;
        }
        rows.push(row);
        // follow the cycle until a non-instance cell
        let (mut c, mut r) = (c, r);
        let mut val = None;
        let mut guard = 0;
        while (c, r) != (ci, row) && guard < 1_000_000 {
            if let Some(v) = cell_value(prover, cols[c], r) {
                val = Some(v);
                break;
            }
            let nxt = mapping[c][r];
            c = nxt.0;
            r = nxt.1;
            guard += 1;
        }
        cells.push(val);
    }
    Bound { rows, cells }
}

pub struct Observed {
    #[allow(dead_code)]
    pub k: u32,
    pub plain: Bound,
    pub committed: Bound,
    pub sat: bool,
    pub failures: String,
}

/// Splits the step values into the plain and committed raw vectors with the REAL off-circuit
/// encoders.
pub fn raw_vectors(rel: &MixRelation, items: &[Item]) -> (Vec<F>, Vec<F>) {
    let mut plain = vec![];
    let mut com = vec![];
    for (s, it) in rel.steps.iter().zip(items) {
        if s.path == Path::Committed {
            com.extend(it.encode());
        } else {
            plain.extend(it.encode());
        }
    }
    (plain, com)
}

/// Runs the mock prover on the relation with the given raw instance vectors.
pub fn run_mock(rel: &MixRelation, items: &[Item], k: u32, com: Vec<F>, plain: Vec<F>) -> Result<MockProver<F>, String> {
    let circuit = MidnightCircuit::new(rel, Value::known(items.to_vec()), Value::known(()), Some(8));
    MockProver::run(k, &circuit, vec![com, plain]).map_err(|e| format!("{e:?}"))
}

/// Smallest k at which the circuit fits.
pub fn min_k(rel: &MixRelation) -> u32 {
    MidnightCircuit::new(rel, Value::unknown(), Value::unknown(), Some(8)).min_k()
}

pub fn observe(rel: &MixRelation, items: &[Item], k: u32, com: &[F], plain: &[F]) -> Result<Observed, String> {
    let prover = run_mock(rel, items, k, com.to_vec(), plain.to_vec())?;
    let res = prover.verify();
    Ok(Observed {
        k,
        plain: bound_rows(&prover, 1),
        committed: bound_rows(&prover, 0),
        sat: res.is_ok(),
        failures: match res {
            Ok(()) => String::new(),
            Err(v) => format!("{} failures, first: {:?}", v.len(), v.first()).chars().take(300).collect(),
        },
    })
}

/// Verdict only.
pub fn verdict(rel: &MixRelation, items: &[Item], k: u32, com: &[F], plain: &[F]) -> Result<bool, String> {
    let prover = run_mock(rel, items, k, com.to_vec(), plain.to_vec())?;
    Ok(prover.verify().is_ok())
}
