//! Real key generation / proving / verification WITH a committed instance
//! (`zk_stdlib::verify(.., committed_instance = Some(commitment), ..)`), the way the zk_stdlib
//! examples do it (`examples/identity/enrollment.rs`): the committed raw vector is
//! `Relation::format_committed_instances(witness)`, the verifier is handed
//! `commit_to_instances(srs, domain, vector)`.
use ff::Field;
use midnight_curves::G1Affine;
use midnight_proofs::{
    circuit::{Layouter, Value},
    plonk::{commit_to_instances, Error},
    poly::kzg::KZGCommitmentScheme,
};
use midnight_zk_stdlib::{Relation, ZkStdLib, ZkStdLibArch};
use mzkh::Ctx;
use rand_chacha::ChaCha8Rng;
use rand_core::SeedableRng;
use serde_json::json;

use crate::{
    keys::{self, H},
    rel::{synth_step, MixRelation, Path, Step},
    vals::{fq_list, Item, F},
};

/// Exposes the witness values through the entry points of the steps (plain and committed
/// column); the instance is the raw plain vector, the committed raw vector is computed from the
/// witness by `format_committed_instances` with the REAL off-circuit encoders.
#[derive(Clone, Debug)]
pub struct ComRelation(pub MixRelation);

impl Relation for ComRelation {
    type Instance = Vec<F>;
    /// `(exposed through the committed column, value)` per step.
    type Witness = Vec<(bool, Item)>;

    fn format_instance(instance: &Self::Instance) -> Result<Vec<F>, Error> {
        Ok(instance.clone())
    }

    fn format_committed_instances(witness: &Self::Witness) -> Vec<F> {
        witness.iter().filter(|(c, _)| *c).flat_map(|(_, it)| it.encode()).collect()
    }

    fn circuit(&self, std_lib: &ZkStdLib, layouter: &mut impl Layouter<F>, _instance: Value<Self::Instance>, witness: Value<Self::Witness>) -> Result<(), Error> {
        let vals = witness.transpose_vec(self.0.steps.len());
        for (step, v) in self.0.steps.iter().zip(vals) {
            synth_step(std_lib, layouter, step, v.map(|x| x.1))?;
        }
        Ok(())
    }

    fn used_chips(&self) -> ZkStdLibArch {
        self.0.used_chips()
    }

    fn write_relation<W: std::io::Write>(&self, _w: &mut W) -> std::io::Result<()> {
        Ok(())
    }
    fn read_relation<R: std::io::Read>(_r: &mut R) -> std::io::Result<Self> {
        Err(std::io::Error::other("not serialisable"))
    }
}

fn class(r: Result<(), Error>) -> &'static str {
    match r {
        Ok(()) => "ok",
        Err(Error::InvalidInstances) => "invalid-instances",
        Err(_) => "rejected",
    }
}

fn relation_case(ctx: &mut Ctx, srs: &mut keys::Srs, steps: Vec<Step>, items: Vec<Item>) {
    let rel = ComRelation(MixRelation::new(steps.clone()));
    let body = crate::steps_body(&steps, &items);
    let key = format!("verify-committed:{body}");
    let witness: Vec<(bool, Item)> = steps.iter().zip(&items).map(|(s, it)| (s.path == Path::Committed, it.clone())).collect();
    let plain: Vec<F> = witness.iter().filter(|(c, _)| !*c).flat_map(|(_, it)| it.encode()).collect();
    let com = ComRelation::format_committed_instances(&witness);
    let keyed = match mzkh::catch(|| keys::keygen(srs, &rel)) {
        Ok(Ok(k)) => k,
        Ok(Err(e)) | Err(e) => {
            ctx.oracle_fail(&key, "key generation fails for a relation exposing committed public inputs", json!({"steps": body, "error": e}));
            return;
        }
    };
    let params = srs.get(keyed.k).clone();
    let vp = params.verifier_params();
    let pk = midnight_zk_stdlib::setup_pk(&rel, &keyed.vk);
    let commit = |v: &[F]| -> G1Affine { commit_to_instances::<_, KZGCommitmentScheme<_>>(&params, keyed.vk.vk().get_domain(), v).into() };
    let proof = match mzkh::catch(|| midnight_zk_stdlib::prove::<ComRelation, H>(&params, &pk, &rel, &plain, witness.clone(), ChaCha8Rng::seed_from_u64(0xC08))) {
        Ok(Ok(p)) => p,
        Ok(Err(e)) => {
            ctx.oracle_fail(&key, "proving an honest instance with committed inputs fails", json!({"steps": body, "error": format!("{e:?}")}));
            return;
        }
        Err(p) => {
            ctx.oracle_fail(&key, "proving an honest instance with committed inputs panics", json!({"steps": body, "error": p}));
            return;
        }
    };
    let vfy = |pi: &Vec<F>, c: Option<G1Affine>| -> &'static str {
        mzkh::catch(|| midnight_zk_stdlib::verify::<ComRelation, H>(&vp, &keyed.vk, pi, c, &proof)).map(class).unwrap_or("panic")
    };
    let honest_c = commit(&com);
    let some = vfy(&plain, Some(honest_c));
    let none = vfy(&plain, None);
    let mut rejected = 0;
    let mut accepted = vec![];
    for i in 0..com.len() {
        let mut c2 = com.clone();
        c2[i] += F::ONE;
        if vfy(&plain, Some(commit(&c2))) == "rejected" {
            rejected += 1;
        } else {
            accepted.push(i);
        }
    }
    // the commitment is to the zero-padded column: trailing zeros do not change it
    let mut padded = com.clone();
    padded.push(F::ZERO);
    let pad0 = vfy(&plain, Some(commit(&padded)));
    // `batch_verify` does not support committed instances (it hands the PLONK verifier the
    // commitment to the zero column): a proof about non-zero committed inputs must be rejected
    let batch = mzkh::catch(|| midnight_zk_stdlib::batch_verify::<H>(&vp, &[keyed.vk.clone()], &[plain.clone()], &[proof.clone()])).map(class).unwrap_or("panic");
    let plain_edit = if plain.is_empty() {
        "n/a"
    } else {
        let mut p2 = plain.clone();
        *p2.last_mut().unwrap() += F::ONE;
        vfy(&p2, Some(honest_c))
    };
    let plain_trunc = if plain.is_empty() { "n/a" } else { vfy(&plain[..plain.len() - 1].to_vec(), Some(honest_c)) };
    let mut longer = plain.clone();
    longer.push(F::ZERO);
    let plain_longer = vfy(&longer, Some(honest_c));
    let line = format!("vfycom {} {} {body}", fq_list(&plain), fq_list(&com));
    ctx.case(
        "vfycom",
        true,
        &line,
        &format!(
            "nb={} ncom={} some={some} none={none} batch={batch} edits={rejected}/{} pad0={pad0} plain-edit={plain_edit} plain-trunc={plain_trunc} plain-longer={plain_longer}",
            keyed.nb,
            com.len(),
            com.len()
        ),
    );
    ctx.count(&format!("vfycom-k:{}", keyed.k));
    ctx.count(&format!("vfycom-committed-len:{}", com.len().min(9)));
    let com_is_zero = com.iter().all(|x| *x == F::ZERO);
    let what = if keyed.nb != plain.len() {
        Some("the number of raw public inputs recorded in the verifying key differs from the length of the plain encoding")
    } else if some != "ok" || pad0 != "ok" {
        Some("an honest proof is rejected with committed_instance = Some(commitment to format_committed_instances)")
    } else if !accepted.is_empty() {
        Some("the verifier accepts a commitment to a committed vector different from the encoding of the exposed values")
    } else if !com_is_zero && none != "rejected" {
        Some("the verifier accepts the proof without the commitment to the committed public inputs")
    } else if !com_is_zero && batch != "rejected" {
        Some("batch_verify (no committed instance) accepts a proof about non-zero committed public inputs")
    } else if plain_edit == "ok" || plain_trunc == "ok" || plain_longer == "ok" {
        Some("the verifier accepts a plain raw vector different from the encoding of the exposed values")
    } else if plain_longer != "invalid-instances" || (!plain.is_empty() && plain_trunc != "invalid-instances") {
        Some("the verifier does not insist on exactly the recorded number of raw public inputs")
    } else {
        None
    };
    if let Some(what) = what {
        ctx.oracle_fail(
            &key,
            what,
            json!({"steps": body, "plain": fq_list(&plain), "committed": fq_list(&com), "vk_nb_public_inputs": keyed.nb, "some": some, "none": none,
                   "batch_verify": batch, "accepted_committed_edits": accepted, "pad0": pad0, "plain_edit": plain_edit, "plain_trunc": plain_trunc, "plain_longer": plain_longer}),
        );
    }
}

pub fn run_committed(ctx: &mut Ctx) {
    use rand::Rng;
    let mut srs = keys::Srs::new();
    let mut rng = ctx.rng("verify-committed");
    let quick = !ctx.thorough();
    let st = |path: Path, it: Item| (Step { path, proto: it.clone() }, it);
    let n = |x: u64| Item::Native(F::from(x));
    let mut rels: Vec<Vec<(Step, Item)>> = vec![
        // only committed inputs
        vec![st(Path::Committed, n(5)), st(Path::Committed, Item::Byte(200))],
        // interleaved, trailing committed zero
        vec![st(Path::Constrain, n(7)), st(Path::Committed, n(9)), st(Path::Assign, Item::Bit(true)), st(Path::Committed, Item::Bit(true)), st(Path::Committed, n(0))],
    ];
    let sizes: Vec<usize> = if quick { vec![6] } else { vec![1, 3, 6, 10, 20] };
    for size in sizes {
        let jub = rng.gen_bool(0.5);
        let (steps, items) = crate::rand_relation(&mut rng, size, (jub, false, false), false);
        let mut r: Vec<(Step, Item)> = steps
            .into_iter()
            .zip(items)
            // no long constant bit vectors under real key generation (see `rand_path`)
            .filter(|(s, it)| !(matches!(it, Item::JScalar(_)) && s.path == Path::Fixed))
            .collect();
        r.push(st(Path::Committed, Item::Native(crate::vals::rand_field::<F>(&mut rng))));
        rels.push(r);
    }
    for r in rels {
        let (steps, items): (Vec<Step>, Vec<Item>) = r.into_iter().unzip();
        relation_case(ctx, &mut srs, steps, items);
    }
}
