//! "The number of raw public inputs recorded at key generation equals the number the verifier
//! insists on": real key generation / proving / verification (`ParamsKZG::unsafe_setup`) for
//! relations whose instance type is a raw vector of any length, so that the prover and the
//! verifier can be handed vectors shorter / longer than what the circuit exposes.
//!
//! The PLONK layer pads instance columns with zeros and absorbs only the length it is given, so
//! a cooperating prover CAN prove the truncated statement when the trailing exposed values are
//! zero: only the length checks of `zk_stdlib::verify` / `batch_verify` against
//! `MidnightVK::nb_public_inputs` stand in the way (seeded defect C08-2).
use ff::Field;
use group::prime::PrimeCurveAffine;
use midnight_curves::G1Affine;
use midnight_proofs::{circuit::{Layouter, Value}, plonk::Error};
use midnight_zk_stdlib::{utils::plonk_api::BlstPLONK, MidnightCircuit, Relation, ZkStdLib, ZkStdLibArch};
use mzkh::Ctx;
use num_bigint::BigUint;
use rand_chacha::ChaCha8Rng;
use rand_core::SeedableRng;
use serde_json::json;

use crate::{
    keys::{self, H},
    rel::{synth_step, MixRelation, Path, Step},
    vals::{fq_list, Item, F},
};

/// Exposes the WITNESS values through the real entry points of `steps`; the instance is a raw
/// vector of any length and `format_instance` hands it over unchanged.
#[derive(Clone, Debug)]
pub struct LenRelation(pub MixRelation);

impl Relation for LenRelation {
    type Instance = Vec<F>;
    type Witness = Vec<Item>;

    fn format_instance(instance: &Self::Instance) -> Result<Vec<F>, Error> {
        Ok(instance.clone())
    }

    fn circuit(&self, std_lib: &ZkStdLib, layouter: &mut impl Layouter<F>, _instance: Value<Self::Instance>, witness: Value<Self::Witness>) -> Result<(), Error> {
        let vals = witness.transpose_vec(self.0.steps.len());
        for (step, v) in self.0.steps.iter().zip(vals) {
            synth_step(std_lib, layouter, step, v)?;
        }
        Ok(())
    }

    fn used_chips(&self) -> ZkStdLibArch {
        self.0.used_chips()
    }

    fn write_relation<W: std::io::Write>(&self, _w: &mut W) -> std::io::Result<()> {
        Ok(())
    }
    fn read_relation<R: std::io::Read>(_r: &mut R) -> std::io::Result<Self> {
        Err(std::io::Error::other("not serialisable"))
    }
}

fn class(r: Result<(), Error>) -> &'static str {
    match r {
        Ok(()) => "ok",
        Err(Error::InvalidInstances) => "invalid-instances",
        Err(_) => "rejected",
    }
}

struct Triple {
    verify: &'static str,
    batch: &'static str,
    plonk: bool,
}

impl Triple {
    fn fmt(&self) -> String {
        format!("{}/{}/{}", self.verify, self.batch, self.plonk as u8)
    }
}

/// One relation: key generation, the honest proof, and for every variant vector the three
/// verifiers on (variant, honest proof) and on (variant, proof generated on the variant).
fn relation_case(ctx: &mut Ctx, srs: &mut keys::Srs, steps: Vec<Step>, items: Vec<Item>) {
    let rel = LenRelation(MixRelation::new(steps.clone()));
    let body = crate::steps_body(&steps, &items);
    let key = format!("verify-count:{body}");
    let honest: Vec<F> = items.iter().flat_map(|it| it.encode()).collect();
    let keyed = match mzkh::catch(|| keys::keygen(srs, &rel)) {
        Ok(Ok(k)) => k,
        Ok(Err(e)) | Err(e) => {
            ctx.oracle_fail(&key, "key generation fails for a relation exposing public inputs", json!({"steps": body, "error": e}));
            return;
        }
    };
    ctx.count(&format!("vfy-k:{}", keyed.k));
    let nb = keyed.nb;
    if nb != honest.len() {
        ctx.oracle_fail(
            &key,
            "the number of raw public inputs recorded in the verifying key differs from the length of format_instance",
            json!({"steps": body, "vk_nb_public_inputs": nb, "format_instance_len": honest.len()}),
        );
    }
    let params = srs.get(keyed.k).clone();
    let vp = params.verifier_params();
    let pk = midnight_zk_stdlib::setup_pk(&rel, &keyed.vk);
    let prove = |v: &Vec<F>| -> Result<Vec<u8>, String> {
        match mzkh::catch(|| midnight_zk_stdlib::prove::<LenRelation, H>(&params, &pk, &rel, v, items.clone(), ChaCha8Rng::seed_from_u64(0xC08))) {
            Ok(Ok(p)) => Ok(p),
            Ok(Err(e)) => Err(format!("{e:?}")),
            Err(p) => Err(p),
        }
    };
    let honest_proof = match prove(&honest) {
        Ok(p) => p,
        Err(e) => {
            ctx.oracle_fail(&key, "proving an honest instance fails", json!({"steps": body, "error": e}));
            return;
        }
    };
    let run = |v: &Vec<F>, proof: &Vec<u8>| -> Triple {
        let verify = mzkh::catch(|| midnight_zk_stdlib::verify::<LenRelation, H>(&vp, &keyed.vk, v, None, proof)).map(class).unwrap_or("panic");
        let batch = mzkh::catch(|| midnight_zk_stdlib::batch_verify::<H>(&vp, &[keyed.vk.clone()], &[v.clone()], &[proof.clone()])).map(class).unwrap_or("panic");
        // the PLONK verifier underneath, without the zk_stdlib length check
        let plonk = mzkh::catch(|| BlstPLONK::<MidnightCircuit<LenRelation>>::verify::<H>(&vp, keyed.vk.vk(), &[G1Affine::identity()], &[v.as_slice()], proof))
            .map(|r| r.is_ok())
            .unwrap_or(false);
        Triple { verify, batch, plonk }
    };
    // variants
    let mut variants: Vec<(&'static str, Vec<F>, bool)> = vec![("exact", honest.clone(), false)];
    if nb >= 1 {
        variants.push(("trunc1", honest[..nb - 1].to_vec(), true));
        let mut z = honest.clone();
        while z.last() == Some(&F::ZERO) {
            z.pop();
        }
        if z.len() + 1 < nb {
            variants.push(("trunc-zeros", z, true));
        }
        let mut e = honest.clone();
        e[nb - 1] += F::ONE;
        variants.push(("edit-last", e, true));
    }
    let mut ext = honest.clone();
    ext.push(F::ZERO);
    variants.push(("append0", ext.clone(), true));
    *ext.last_mut().unwrap() = F::ONE;
    variants.push(("append1", ext, false));
    for (name, v, coop) in variants {
        let line = format!("vfy {} {} {} {body}", if coop { "ch" } else { "h" }, fq_list(&honest), fq_list(&v));
        let th = run(&v, &honest_proof);
        let tc = if coop {
            // a prover running the protocol on `v` itself; when the prover refuses (the circuit
            // is not satisfied by `v`) the honest proof stands in
            let proof = prove(&v).unwrap_or_else(|_| honest_proof.clone());
            Some(run(&v, &proof))
        } else {
            None
        };
        let trailing_zero = honest.last() == Some(&F::ZERO);
        ctx.case(
            &format!("vfy:{name}"),
            true,
            &line,
            &format!("nb={nb} fmt=1 coop={} honest={}", tc.as_ref().map(|t| t.fmt()).unwrap_or("-".into()), th.fmt()),
        );
        ctx.count(&format!("vfy-variant:{name}:{}", if v.len() == nb { "len=nb" } else if v.len() < nb { "len<nb" } else { "len>nb" }));
        if name == "trunc1" {
            ctx.count(&format!("vfy-trunc1-trailing:{}", if trailing_zero { "zero" } else { "non-zero" }));
        }
        // the property's oracle
        let detail = |t: &Triple, which: &str| {
            json!({"steps": body, "variant": name, "proof": which, "vk_nb_public_inputs": nb, "instance_len": v.len(),
                   "instance": fq_list(&v), "format_instance": fq_list(&honest), "verify": t.verify, "batch_verify": t.batch, "plonk_without_length_check": t.plonk})
        };
        // the cooperating prover first: an accepted wrong vector is the strongest failing input
        for (t, which) in [(tc.as_ref(), "generated by a prover running the protocol on this very vector"), (Some(&th), "generated on format_instance of the exposed values")] {
            let Some(t) = t else { continue };
            let vkey = format!("{key}:{name}");
            let failed = if v != honest && (t.verify == "ok" || t.batch == "ok") {
                Some(if v.len() != nb {
                    "the verifier accepts an instance whose number of raw public inputs differs from the number recorded in the verifying key"
                } else {
                    "the verifier accepts a raw vector different from the encoding of the exposed values"
                })
            } else if v.len() != nb && (t.verify != "invalid-instances" || t.batch != "invalid-instances") {
                Some("the verifier does not insist on exactly the recorded number of raw public inputs")
            } else if v == honest && (t.verify != "ok" || t.batch != "ok") {
                Some("an honest proof is rejected with the instance formatted by format_instance")
            } else if t.verify != t.batch {
                Some("verify and batch_verify disagree on the same key, raw vector and proof")
            } else {
                None
            };
            if let Some(what) = failed {
                ctx.oracle_fail(&vkey, what, detail(t, which));
                break;
            }
        }
    }
}

pub fn run_verify_count(ctx: &mut Ctx) {
    use midnight_curves::k256::Fp as SecpFp;
    use rand::Rng;
    let mut srs = keys::Srs::new();
    let mut rng = ctx.rng("verify-count");
    let quick = !ctx.thorough();
    let st = |path: Path, it: Item| (Step { path, proto: it.clone() }, it);
    let n = |x: u64| Item::Native(F::from(x));
    let mut rels: Vec<Vec<(Step, Item)>> = vec![
        vec![],
        vec![st(Path::Assign, n(0))],
        // the relation of seeded/C08-2/demo.rs
        vec![st(Path::Assign, n(7)), st(Path::Assign, n(11)), st(Path::Assign, n(0))],
        vec![st(Path::Constrain, n(7)), st(Path::Constrain, n(0)), st(Path::Assign, n(5))],
        vec![st(Path::Constrain, Item::Bit(true)), st(Path::Assign, Item::Byte(9)), st(Path::Constrain, Item::Bit(false))],
        // trailing zero limbs of a BigUint; of an emulated field element equal to 1 (limbs of x - 1)
        vec![st(Path::Assign, n(3)), st(Path::Constrain, Item::Big(200, BigUint::from(5u8)))],
        vec![st(Path::Constrain, Item::Byte(1)), st(Path::Assign, Item::SecpBase(SecpFp::ONE))],
        vec![st(Path::Constrain, Item::JPoint(group::Group::generator())), st(Path::Fixed, Item::Byte(0))],
    ];
    if !quick {
        rels.push(vec![st(Path::Constrain, Item::SecpPoint(group::Group::identity())), st(Path::Assign, n(0))]);
        rels.push(vec![st(Path::Constrain, Item::BlsPoint(group::Group::generator())), st(Path::Derived(0), n(0))]);
        rels.push(vec![st(Path::Constrain, Item::JScalar(midnight_curves::Fr::ZERO))]);
    }
    // seeded random relations of mixed types, ending with a zero / with whatever comes
    let sizes: Vec<usize> = if quick { vec![2, 5, 12] } else { vec![1, 2, 3, 4, 5, 7, 9, 12, 20, 40] };
    for (i, size) in sizes.into_iter().enumerate() {
        let chips = (rng.gen_bool(0.5), size <= 5 && rng.gen_bool(0.4), false);
        let (steps, items) = crate::rand_relation(&mut rng, size, chips, true);
        let mut r: Vec<(Step, Item)> = steps.into_iter().zip(items).collect();
        if i % 2 == 0 {
            r.push(st(Path::Constrain, if rng.gen_bool(0.5) { n(0) } else { Item::Bit(false) }));
        }
        rels.push(r);
    }
    for r in rels {
        let (steps, items): (Vec<Step>, Vec<Item>) = r.into_iter().unzip();
        relation_case(ctx, &mut srs, steps, items);
    }
}

// ---------------------------------------------------------------------------------------------

/// `BigUintGadget::constrain_as_public_input(x, declared)` on `x = assign_biguint(1, assigned)`:
/// the gadget must refuse (`Err(Synthesis)`) every declared bound other than the derived one.
#[derive(Clone, Debug)]
pub struct BigGuardRel {
    pub assigned: u32,
    pub declared: u32,
}

impl Relation for BigGuardRel {
    type Instance = ();
    type Witness = ();

    fn format_instance(_: &Self::Instance) -> Result<Vec<F>, Error> {
        Ok(vec![])
    }

    fn circuit(&self, std_lib: &ZkStdLib, layouter: &mut impl Layouter<F>, _instance: Value<()>, _witness: Value<()>) -> Result<(), Error> {
        let chip = std_lib.biguint();
        let x = chip.assign_biguint(layouter, Value::known(BigUint::from(1u8)), self.assigned)?;
        chip.constrain_as_public_input(layouter, &x, self.declared)
    }

    fn used_chips(&self) -> ZkStdLibArch {
        ZkStdLibArch { nr_pow2range_cols: 4, ..ZkStdLibArch::default() }
    }

    fn write_relation<W: std::io::Write>(&self, _w: &mut W) -> std::io::Result<()> {
        Ok(())
    }
    fn read_relation<R: std::io::Read>(_r: &mut R) -> std::io::Result<Self> {
        Err(std::io::Error::other("not serialisable"))
    }
}

pub fn run_big_guard(ctx: &mut Ctx) {
    use midnight_circuits::types::AssignedBigUint;
    use midnight_proofs::dev::MockProver;
    let assigned: Vec<u32> = if ctx.thorough() { vec![1, 2, 8, 95, 96, 97, 191, 192, 193, 200, 288, 289, 400] } else { vec![1, 8, 95, 96, 97, 192, 193, 200] };
    for a in assigned {
        let mut declared = vec![a, a + 1, a.div_ceil(96) * 96, a.div_ceil(96) * 96 + 1, a + 96];
        if a > 1 {
            declared.push(a - 1);
        }
        declared.sort();
        declared.dedup();
        for d in declared {
            let rel = BigGuardRel { assigned: a, declared: d };
            let pi = AssignedBigUint::<F>::as_public_input(&BigUint::from(1u8), d);
            let ans = match mzkh::catch(|| {
                let circuit = MidnightCircuit::new(&rel, Value::known(()), Value::known(()), Some(8));
                MockProver::run(10, &circuit, vec![vec![], pi.clone()]).map(|p| p.verify().is_ok())
            }) {
                Ok(Ok(true)) => "ok".to_string(),
                Ok(Ok(false)) => "unsat".to_string(),
                Ok(Err(e)) => if format!("{e:?}").contains("Synthesis") { "error".to_string() } else { format!("other-error {e:?}").chars().take(60).collect() },
                Err(_) => "panic".to_string(),
            };
            ctx.case("bigguard", true, &format!("bigguard {a} {d}"), &ans);
            ctx.count(&format!("bigguard:{}", if a == d { "declared=derived" } else { "declared!=derived" }));
            if (a == d) != (ans == "ok") {
                ctx.oracle_fail(
                    &format!("bigguard:{a}:{d}"),
                    if a == d { "exposing a BigUint with its own bound fails" } else { "a BigUint is exposed under a declared bound different from the bound derived in-circuit (the off-circuit encoder would be called with the wrong bound)" },
                    json!({"assigned_nb_bits": a, "declared_nb_bits": d, "result": ans}),
                );
            }
        }
    }
}
