//! In-circuit half of C19: the real `AutomatonChip::parse` and `Base64Chip` decoders, run under
//! `MockProver` on circuits assembled with the public configuration API (as `zk_stdlib` does).

use std::sync::{Arc, Mutex};

use ff::PrimeField;
use midnight_circuits::{
    field::{
        decomposition::{
            chip::{P2RDecompositionChip, P2RDecompositionConfig},
            pow2range::Pow2RangeChip,
        },
        native::{NB_ARITH_COLS, NB_ARITH_FIXED_COLS},
        AssignedNative, NativeChip, NativeGadget,
    },
    instructions::{
        base64::{Base64VarInstructions, Base64Vec},
        AssertionInstructions, AssignmentInstructions, Base64Instructions,
    },
    parsing::{
        automaton_chip::{AutomatonChip, AutomatonConfig, NB_AUTOMATA_COLS},
        verif_hooks::Automaton,
        Base64Chip, Base64Config, NB_BASE64_ADVICE_COLS,
    },
    types::{AssignedByte, AssignedVector, InnerValue},
    ComposableChip,
};
use midnight_proofs::{
    circuit::{Layouter, SimpleFloorPlanner, Value},
    dev::MockProver,
    plonk::{Circuit, Column, ConstraintSystem, Error, Advice},
};
use rustc_hash::FxHashMap;

pub type F = midnight_curves::Fq;
type NG = NativeGadget<F, P2RDecompositionChip<F>, NativeChip<F>>;

fn fe_u64(f: &F) -> u64 {
    let r = f.to_repr();
    let b: &[u8] = r.as_ref();
    u64::from_le_bytes(b[..8].try_into().unwrap())
}

pub fn base_config(
    meta: &mut ConstraintSystem<F>,
) -> (P2RDecompositionConfig, Vec<Column<Advice>>) {
    let advice: Vec<Column<Advice>> = (0..NB_ARITH_COLS).map(|_| meta.advice_column()).collect();
    let fixed: Vec<_> = (0..NB_ARITH_FIXED_COLS).map(|_| meta.fixed_column()).collect();
    let committed = meta.instance_column();
    let instance = meta.instance_column();
    let native_config = NativeChip::configure(
        meta,
        &(
            advice[..NB_ARITH_COLS].try_into().unwrap(),
            fixed[..NB_ARITH_FIXED_COLS].try_into().unwrap(),
            [committed, instance],
        ),
    );
    let pow2range_config = Pow2RangeChip::configure(meta, &advice[1..=4]);
    (
        P2RDecompositionConfig::new(&native_config, &pow2range_config),
        advice,
    )
}

pub fn native_gadget(config: &P2RDecompositionConfig) -> (NG, P2RDecompositionChip<F>) {
    let native_chip = NativeChip::new(config.native_config(), &());
    let core = P2RDecompositionChip::new(config, &8usize);
    (NativeGadget::new(core.clone(), native_chip), core)
}

// ---------------------------------------------------------------------------------------------
// Automaton parser
// ---------------------------------------------------------------------------------------------

#[derive(Clone)]
pub struct ParseCircuit {
    pub automaton: Automaton,
    pub input: Vec<u8>,
    /// markers asserted on the output of `parse` (if any)
    pub claimed: Option<Vec<u64>>,
    pub out: Arc<Mutex<Vec<u64>>>,
}

impl Circuit<F> for ParseCircuit {
    type Config = (P2RDecompositionConfig, AutomatonConfig<usize, F>);
    type FloorPlanner = SimpleFloorPlanner;
    type Params = Option<Automaton>;

    fn without_witnesses(&self) -> Self {
        self.clone()
    }
    fn params(&self) -> Self::Params {
        Some(self.automaton.clone())
    }
    fn configure(_meta: &mut ConstraintSystem<F>) -> Self::Config {
        unreachable!()
    }
    fn configure_with_params(meta: &mut ConstraintSystem<F>, params: Self::Params) -> Self::Config {
        let (p2r, advice) = base_config(meta);
        let mut automata: FxHashMap<usize, Automaton> = FxHashMap::default();
        automata.insert(0, params.expect("automaton"));
        let cfg = AutomatonChip::configure(
            meta,
            &(advice[..NB_AUTOMATA_COLS].try_into().unwrap(), automata),
        );
        (p2r, cfg)
    }
    fn synthesize(&self, config: Self::Config, mut layouter: impl Layouter<F>) -> Result<(), Error> {
        let (ng, core) = native_gadget(&config.0);
        let chip = AutomatonChip::<usize, F>::new(&config.1, &ng);
        let vals: Vec<Value<u8>> = self.input.iter().map(|b| Value::known(*b)).collect();
        let input: Vec<AssignedByte<F>> = ng.assign_many(&mut layouter, &vals)?;
        let markers: Vec<AssignedNative<F>> = chip.parse(&mut layouter, &0usize, &input)?;
        let mut got = vec![];
        for m in &markers {
            m.value().map(|v| got.push(fe_u64(v)));
        }
        *self.out.lock().unwrap() = got;
        if let Some(claimed) = &self.claimed {
            assert_eq!(claimed.len(), markers.len());
            for (m, c) in markers.iter().zip(claimed) {
                ng.assert_equal_to_fixed(&mut layouter, m, F::from(*c))?;
            }
        }
        core.load(&mut layouter)?;
        chip.load(&mut layouter)
    }
}

pub enum Verdict {
    /// satisfiable; the captured output
    Ok(Vec<u64>),
    /// synthesis error (the honest prover cannot build a witness)
    Stuck,
    /// the constraint system is not satisfied
    Unsat,
    Panic(String),
}

/// `AutomatonChip::parse` on `input`; `claimed` markers are asserted on the output if given.
pub fn run_parse(a: &Automaton, input: &[u8], claimed: Option<Vec<u64>>, k: u32) -> Verdict {
    let out = Arc::new(Mutex::new(vec![]));
    let circuit = ParseCircuit {
        automaton: a.clone(),
        input: input.to_vec(),
        claimed,
        out: out.clone(),
    };
    match mzkh::catch(|| MockProver::run(k, &circuit, vec![vec![], vec![]])) {
        Err(p) => Verdict::Panic(p),
        Ok(Err(_)) => Verdict::Stuck,
        Ok(Ok(prover)) => match prover.verify() {
            Ok(()) => Verdict::Ok(out.lock().unwrap().clone()),
            Err(_) => Verdict::Unsat,
        },
    }
}

/// Like `run_parse` without claimed markers, and the structure read back from the mock prover
/// (lookup, loaded table, rows and copy constraints of the parsing region).
pub fn run_parse_traced(
    a: &Automaton,
    input: &[u8],
    k: u32,
) -> (Verdict, Option<Result<crate::trace::ParseTrace, String>>) {
    let out = Arc::new(Mutex::new(vec![]));
    let circuit = ParseCircuit {
        automaton: a.clone(),
        input: input.to_vec(),
        claimed: None,
        out: out.clone(),
    };
    match mzkh::catch(|| MockProver::run(k, &circuit, vec![vec![], vec![]])) {
        Err(p) => (Verdict::Panic(p), None),
        Ok(Err(_)) => (Verdict::Stuck, None),
        Ok(Ok(prover)) => {
            let nb_fixed = prover.fixed().len() - prover.selectors().len();
            let tr = mzkh::catch(|| crate::trace::extract(&prover, nb_fixed))
                .unwrap_or_else(|p| Err(format!("panic {p}")));
            match prover.verify() {
                Ok(()) => (Verdict::Ok(out.lock().unwrap().clone()), Some(tr)),
                Err(_) => (Verdict::Unsat, Some(tr)),
            }
        }
    }
}

/// Forged witness: the honest synthesis on `input` (which must not get stuck), then the state
/// cells of the parsing region are overwritten with `states` (one per row, shifted values) and
/// the output cells with `outs`. Returns whether the mock prover accepts the forged table
/// (`None` if there is no table to forge).
pub fn run_parse_forged(a: &Automaton, input: &[u8], k: u32, states: &[u64], outs: &[u64]) -> Option<bool> {
    use midnight_proofs::dev::CellValue;
    let out = Arc::new(Mutex::new(vec![]));
    let circuit = ParseCircuit {
        automaton: a.clone(),
        input: input.to_vec(),
        claimed: None,
        out,
    };
    let mut prover = mzkh::catch(|| MockProver::run(k, &circuit, vec![vec![], vec![]])).ok()?.ok()?;
    let nb_fixed = prover.fixed().len() - prover.selectors().len();
    let tr = mzkh::catch(|| crate::trace::extract(&prover, nb_fixed)).ok()?.ok()?;
    let adv = prover.verif_advice_mut();
    for (i, s) in states.iter().enumerate() {
        adv[tr.state_col][tr.r0 + i] = CellValue::Assigned(F::from(*s));
    }
    for (i, o) in outs.iter().enumerate() {
        adv[tr.out_col][tr.r0 + i] = CellValue::Assigned(F::from(*o));
    }
    Some(prover.verify().is_ok())
}

// ---------------------------------------------------------------------------------------------
// Several automata in one table (NativeAutomaton::from_collection)
// ---------------------------------------------------------------------------------------------

/// The map given to `AutomatonChip::configure`: keys `0..n` inserted in order.
pub fn coll_map(automata: &[Automaton]) -> FxHashMap<usize, Automaton> {
    let mut m: FxHashMap<usize, Automaton> = FxHashMap::default();
    for (i, a) in automata.iter().enumerate() {
        m.insert(i, a.clone());
    }
    m
}

/// Iteration order of the map (the order in which `from_collection` hands out the offsets).
pub fn coll_order(automata: &[Automaton]) -> Vec<usize> {
    coll_map(automata).iter().map(|(k, _)| *k).collect()
}

#[derive(Clone)]
pub struct CollCircuit {
    pub automata: Vec<Automaton>,
    pub index: usize,
    pub input: Vec<u8>,
    pub out: Arc<Mutex<Vec<u64>>>,
}

impl Circuit<F> for CollCircuit {
    type Config = (P2RDecompositionConfig, AutomatonConfig<usize, F>);
    type FloorPlanner = SimpleFloorPlanner;
    type Params = Vec<Automaton>;

    fn without_witnesses(&self) -> Self {
        self.clone()
    }
    fn params(&self) -> Self::Params {
        self.automata.clone()
    }
    fn configure(_meta: &mut ConstraintSystem<F>) -> Self::Config {
        unreachable!()
    }
    fn configure_with_params(meta: &mut ConstraintSystem<F>, params: Self::Params) -> Self::Config {
        let (p2r, advice) = base_config(meta);
        let cfg = AutomatonChip::configure(
            meta,
            &(advice[..NB_AUTOMATA_COLS].try_into().unwrap(), coll_map(&params)),
        );
        (p2r, cfg)
    }
    fn synthesize(&self, config: Self::Config, mut layouter: impl Layouter<F>) -> Result<(), Error> {
        let (ng, core) = native_gadget(&config.0);
        let chip = AutomatonChip::<usize, F>::new(&config.1, &ng);
        let vals: Vec<Value<u8>> = self.input.iter().map(|b| Value::known(*b)).collect();
        let input: Vec<AssignedByte<F>> = ng.assign_many(&mut layouter, &vals)?;
        let markers: Vec<AssignedNative<F>> = chip.parse(&mut layouter, &self.index, &input)?;
        let mut got = vec![];
        for m in &markers {
            m.value().map(|v| got.push(fe_u64(v)));
        }
        *self.out.lock().unwrap() = got;
        core.load(&mut layouter)?;
        chip.load(&mut layouter)
    }
}

/// `AutomatonChip::parse(&index, input)` in a circuit configured with all of `automata`, and the
/// structure read back from the mock prover.
pub fn run_coll_traced(
    automata: &[Automaton],
    index: usize,
    input: &[u8],
    k: u32,
) -> (Verdict, Option<Result<crate::trace::ParseTrace, String>>) {
    let out = Arc::new(Mutex::new(vec![]));
    let circuit = CollCircuit {
        automata: automata.to_vec(),
        index,
        input: input.to_vec(),
        out: out.clone(),
    };
    match mzkh::catch(|| MockProver::run(k, &circuit, vec![vec![], vec![]])) {
        Err(p) => (Verdict::Panic(p), None),
        Ok(Err(_)) => (Verdict::Stuck, None),
        Ok(Ok(prover)) => {
            let nb_fixed = prover.fixed().len() - prover.selectors().len();
            let tr = mzkh::catch(|| crate::trace::extract(&prover, nb_fixed))
                .unwrap_or_else(|p| Err(format!("panic {p}")));
            match prover.verify() {
                Ok(()) => (Verdict::Ok(out.lock().unwrap().clone()), Some(tr)),
                Err(_) => (Verdict::Unsat, Some(tr)),
            }
        }
    }
}

/// Forged witness in a collection circuit (see `run_parse_forged`).
pub fn run_coll_forged(
    automata: &[Automaton],
    index: usize,
    input: &[u8],
    k: u32,
    states: &[u64],
    outs: &[u64],
) -> Option<bool> {
    use midnight_proofs::dev::CellValue;
    let out = Arc::new(Mutex::new(vec![]));
    let circuit = CollCircuit {
        automata: automata.to_vec(),
        index,
        input: input.to_vec(),
        out,
    };
    let mut prover = mzkh::catch(|| MockProver::run(k, &circuit, vec![vec![], vec![]])).ok()?.ok()?;
    let nb_fixed = prover.fixed().len() - prover.selectors().len();
    let tr = mzkh::catch(|| crate::trace::extract(&prover, nb_fixed)).ok()?.ok()?;
    let adv = prover.verif_advice_mut();
    for (i, s) in states.iter().enumerate() {
        adv[tr.state_col][tr.r0 + i] = CellValue::Assigned(F::from(*s));
    }
    for (i, o) in outs.iter().enumerate() {
        adv[tr.out_col][tr.r0 + i] = CellValue::Assigned(F::from(*o));
    }
    Some(prover.verify().is_ok())
}

// ---------------------------------------------------------------------------------------------
// Base64
// ---------------------------------------------------------------------------------------------

#[derive(Clone, Copy, Debug)]
pub struct B64Mode {
    pub padded: bool,
    pub url: bool,
    pub var: bool,
}

/// Capacity of the variable-length vectors.
pub const VAR_M: usize = 64;
pub const VAR_M_OUT: usize = 48;

#[derive(Clone)]
pub struct B64Circuit {
    pub input: Vec<u8>,
    pub mode: B64Mode,
    pub out: Arc<Mutex<Vec<u8>>>,
}

impl Circuit<F> for B64Circuit {
    type Config = (P2RDecompositionConfig, Base64Config);
    type FloorPlanner = SimpleFloorPlanner;
    type Params = ();

    fn without_witnesses(&self) -> Self {
        self.clone()
    }
    fn configure(meta: &mut ConstraintSystem<F>) -> Self::Config {
        let (p2r, advice) = base_config(meta);
        let cfg = Base64Chip::configure(meta, advice[..NB_BASE64_ADVICE_COLS].try_into().unwrap());
        (p2r, cfg)
    }
    fn synthesize(&self, config: Self::Config, mut layouter: impl Layouter<F>) -> Result<(), Error> {
        let (ng, core) = native_gadget(&config.0);
        let chip = Base64Chip::<F>::new(&config.1, &ng);
        let mut got = vec![];
        if self.mode.var {
            let v: Base64Vec<F, VAR_M, 4> =
                chip.assign_var_base64(&mut layouter, Value::known(self.input.clone()))?;
            let ret: AssignedVector<F, AssignedByte<F>, VAR_M_OUT, 3> = if self.mode.url {
                chip.var_decode_base64url(&mut layouter, &v)?
            } else {
                chip.var_decode_base64(&mut layouter, &v)?
            };
            ret.value().map(|v| got = v);
        } else {
            let vals: Vec<Value<u8>> = self.input.iter().map(|b| Value::known(*b)).collect();
            let input: Vec<AssignedByte<F>> = ng.assign_many(&mut layouter, &vals)?;
            let ret = if self.mode.url {
                chip.decode_base64url(&mut layouter, &input, self.mode.padded)?
            } else {
                chip.decode_base64(&mut layouter, &input, self.mode.padded)?
            };
            for b in &ret {
                b.value().map(|v| got.push(v));
            }
        }
        *self.out.lock().unwrap() = got;
        core.load(&mut layouter)?;
        chip.load(&mut layouter)
    }
}

pub enum B64Verdict {
    Ok(Vec<u8>),
    Stuck,
    Unsat,
    Panic(String),
}

pub fn run_b64(input: &[u8], mode: B64Mode, k: u32) -> B64Verdict {
    let out = Arc::new(Mutex::new(vec![]));
    let circuit = B64Circuit {
        input: input.to_vec(),
        mode,
        out: out.clone(),
    };
    match mzkh::catch(|| MockProver::run(k, &circuit, vec![vec![], vec![]])) {
        Err(p) => B64Verdict::Panic(p),
        Ok(Err(_)) => B64Verdict::Stuck,
        Ok(Ok(prover)) => match prover.verify() {
            Ok(()) => B64Verdict::Ok(out.lock().unwrap().clone()),
            Err(_) => B64Verdict::Unsat,
        },
    }
}

/// Like `run_b64`, and the structure of the Base64 lookup read back from the mock prover.
pub fn run_b64_traced(input: &[u8], mode: B64Mode, k: u32) -> (B64Verdict, Option<Result<crate::trace::B64Trace, String>>) {
    let out = Arc::new(Mutex::new(vec![]));
    let circuit = B64Circuit {
        input: input.to_vec(),
        mode,
        out: out.clone(),
    };
    match mzkh::catch(|| MockProver::run(k, &circuit, vec![vec![], vec![]])) {
        Err(p) => (B64Verdict::Panic(p), None),
        Ok(Err(_)) => (B64Verdict::Stuck, None),
        Ok(Ok(prover)) => {
            let nb_fixed = prover.fixed().len() - prover.selectors().len();
            let tr = mzkh::catch(|| crate::trace::extract_b64(&prover, nb_fixed))
                .unwrap_or_else(|p| Err(format!("panic {p}")));
            match prover.verify() {
                Ok(()) => (B64Verdict::Ok(out.lock().unwrap().clone()), Some(tr)),
                Err(_) => (B64Verdict::Unsat, Some(tr)),
            }
        }
    }
}
