//! Structural dump of what `AutomatonChip::configure` / `load` / `parse` really put into the
//! constraint system and the assignment table (read back from `MockProver`):
//!
//! * the lookup argument "automaton transition check" (selector x advice cell, rotation, table
//!   column), in canonical form;
//! * the loaded lookup table (all usable rows of the four table columns): dummy row, transition
//!   rows, final-state sentinel rows, padding;
//! * the rows of the region "parsing layout": selector, state / letter / output cells, and for
//!   each cell whether the permutation argument ties it to a fixed (constant) cell, to another
//!   advice cell, or leaves it free for the prover.
//!
//! The Lean emitter (`Model/C19/Circuit.lean`: `lookupShape`, `tableRows`, `mkRows`) prints the
//! same three things from the automaton alone; the driver compares them line by line.

use ff::PrimeField;
use midnight_proofs::{
    dev::{CellValue, MockProver},
    plonk::{Any, Expression},
};
use rayon::iter::ParallelIterator;

use crate::circuit::F;

#[derive(Clone, Debug)]
enum Shape {
    Fixed(usize, i32),
    Advice(usize, i32),
    Prod(Box<Shape>, Box<Shape>),
    Other(&'static str),
}

fn shape(e: &Expression<F>) -> Shape {
    e.evaluate(
        &|_| Shape::Other("const"),
        &|_| Shape::Other("selector"),
        &|q| Shape::Fixed(q.column_index(), q.rotation().0),
        &|q| Shape::Advice(q.column_index(), q.rotation().0),
        &|_| Shape::Other("instance"),
        &|_| Shape::Other("challenge"),
        &|_| Shape::Other("neg"),
        &|_, _| Shape::Other("sum"),
        &|a, b| Shape::Prod(Box::new(a), Box::new(b)),
        &|_, _| Shape::Other("scaled"),
    )
}

fn small(c: &CellValue<F>) -> String {
    match c {
        CellValue::Unassigned => "_".into(),
        CellValue::Poison(_) => "P".into(),
        CellValue::Assigned(v) => {
            let r = v.to_repr();
            let b: &[u8] = r.as_ref();
            if b[8..].iter().all(|x| *x == 0) {
                u64::from_le_bytes(b[..8].try_into().unwrap()).to_string()
            } else {
                format!("big{}", mzkh::fe_hex(v))
            }
        }
    }
}

pub struct ParseTrace {
    /// `q*a<col>@<rot>>t<k>` for the four pairs of the lookup, `q` = one selector column
    pub lookup: String,
    /// rows of the loaded table up to the last row that differs from the padding, in canonical
    /// order (dummy first, transitions by (source, letter), sentinels by state); `s.l.t.o`
    pub table: Vec<String>,
    /// value of the padding rows and their number
    pub padding: String,
    /// rows of the parsing region
    pub rows: Vec<String>,
    /// advice column indices of the state and output cells, first row of the region
    pub state_col: usize,
    pub out_col: usize,
    pub r0: usize,
}

/// Reads the structure back from a mock prover that ran a circuit with ONE call of
/// `AutomatonChip::parse`. `advice_cols`: indices of the three advice columns given to
/// `AutomatonChip::configure` (state, letter, output).
pub fn extract(mp: &MockProver<F>, nb_fixed_before_selectors: usize) -> Result<ParseTrace, String> {
    let cs = mp.cs();
    let lk = cs
        .lookups()
        .iter()
        .find(|l| l.name() == "automaton transition check")
        .ok_or("no lookup named 'automaton transition check'")?;
    let ins: Vec<Shape> = lk.input_expressions().iter().map(shape).collect();
    let tbs: Vec<Shape> = lk.table_expressions().iter().map(shape).collect();
    let mut q: Option<usize> = None;
    let mut parts = vec![];
    let mut tcols = vec![];
    let mut acells = vec![];
    for (i, t) in ins.iter().zip(tbs.iter()) {
        let (qc, ac, rot) = match i {
            Shape::Prod(a, b) => match (&**a, &**b) {
                (Shape::Fixed(qc, 0), Shape::Advice(ac, rot)) => (*qc, *ac, *rot),
                _ => return Err(format!("unexpected lookup input {i:?}")),
            },
            _ => return Err(format!("unexpected lookup input {i:?}")),
        };
        if q.map(|x| x != qc).unwrap_or(false) {
            return Err("the four lookup inputs do not use the same selector".into());
        }
        q = Some(qc);
        let tc = match t {
            Shape::Fixed(tc, 0) => *tc,
            _ => return Err(format!("unexpected lookup table expression {t:?}")),
        };
        if tcols.contains(&tc) {
            return Err("a table column is used twice".into());
        }
        tcols.push(tc);
        acells.push((ac, rot));
        parts.push(format!("q*a{ac}@{rot}>t{}", tcols.len() - 1));
    }
    let q = q.ok_or("empty lookup")?;
    if q < nb_fixed_before_selectors {
        return Err("the lookup selector is not a selector column".into());
    }
    if parts.len() != 4 {
        return Err(format!("{} lookup pairs", parts.len()));
    }
    let lookup = parts.join(" ");
    // ---- the table
    let usable = mp.usable_rows().clone();
    let fixed = mp.fixed();
    let all: Vec<[String; 4]> = usable
        .clone()
        .map(|r| [0, 1, 2, 3].map(|j| small(&fixed[tcols[j]][r])))
        .collect();
    let pad = all.last().cloned().ok_or("no usable row")?;
    let mut end = all.len();
    while end > 0 && all[end - 1] == pad {
        end -= 1;
    }
    // the dummy row itself equals the padding: the content is rows [0, end) plus one dummy
    let mut content: Vec<[String; 4]> = all[..end].to_vec();
    if content.is_empty() || content[0] != pad {
        // the first entry is expected to be the dummy row (= the default value of the padding)
        return Err(format!("first table row {:?} is not the padding value {:?}", content.first(), pad));
    }
    let num = |s: &String| s.parse::<u64>().unwrap_or(u64::MAX);
    let dummy = content.remove(0);
    content.sort_by_key(|r| (num(&r[1]) == 256, num(&r[0]), num(&r[1]), num(&r[2]), num(&r[3])));
    let mut table = vec![dummy.join(".")];
    table.extend(content.iter().map(|r| r.join(".")));
    let padding = format!("{}x{}", pad.join("."), all.len() - end);
    // ---- the region
    let on: Vec<usize> = usable
        .clone()
        .filter(|r| matches!(fixed[q][*r], CellValue::Assigned(v) if v == F::from(1)))
        .collect();
    if on.is_empty() {
        return Err("the selector is enabled nowhere".into());
    }
    let (r0, r1) = (on[0], *on.last().unwrap());
    if on.len() != r1 - r0 + 1 {
        return Err("the enabled rows are not contiguous".into());
    }
    // permutation cycles
    let pcols: Vec<(char, usize)> = mp
        .permutation()
        .columns()
        .iter()
        .map(|c| {
            (
                match c.column_type() {
                    Any::Advice(_) => 'a',
                    Any::Fixed => 'f',
                    Any::Instance => 'i',
                },
                c.index(),
            )
        })
        .collect();
    let mapping: Vec<Vec<(usize, usize)>> =
        mp.permutation().mapping().map(|c| c.collect::<Vec<_>>()).collect();
    let pin = |col: usize, row: usize| -> String {
        let Some(ci) = pcols.iter().position(|x| *x == ('a', col)) else {
            return "f".into();
        };
        let mut cur = (ci, row);
        let mut fixed_vals = vec![];
        let mut len = 0usize;
        loop {
            len += 1;
            let (k, idx) = pcols[cur.0];
            if k == 'f' {
                fixed_vals.push(small(&fixed[idx][cur.1]));
            } else if k == 'i' {
                fixed_vals.push("inst".into());
            }
            cur = mapping[cur.0][cur.1];
            if cur == (ci, row) || len > 1 << 20 {
                break;
            }
        }
        fixed_vals.sort();
        fixed_vals.dedup();
        if !fixed_vals.is_empty() {
            format!("={}", fixed_vals.join("&"))
        } else if len > 1 {
            "c".into()
        } else {
            "f".into()
        }
    };
    let advice = mp.advice();
    let (sc, sr) = acells[0];
    let (lc, _) = acells[1];
    let (oc, _) = acells[3];
    if sr != 0 || acells[2] != (sc, 1) {
        return Err("unexpected rotations in the lookup".into());
    }
    let mut rows = vec![];
    for r in r0..=r1 + 1 {
        let qv = small(&fixed[q][r]);
        let st = format!("{}{}", small(&advice[sc][r]), pin(sc, r));
        if r <= r1 {
            rows.push(format!(
                "{qv}:{st}:{}{}:{}{}",
                small(&advice[lc][r]),
                pin(lc, r),
                small(&advice[oc][r]),
                pin(oc, r)
            ));
        } else {
            rows.push(format!("{qv}:{st}"));
        }
    }
    Ok(ParseTrace {
        lookup,
        table,
        padding,
        rows,
        state_col: sc,
        out_col: oc,
        r0,
    })
}

// ---------------------------------------------------------------------------------------------
// Base64Chip: lookup "Base64 lookup", table `two_entry_table`, regions "Base64 chunk"
// ---------------------------------------------------------------------------------------------

pub struct B64Trace {
    /// the two (input expression > table column) pairs of the lookup, printed structurally
    pub lookup: String,
    /// rows `char.val` of the loaded table in the order loaded, without the padding
    pub table: Vec<String>,
    pub padding: String,
    /// per enabled row `q:c0<pin>:c1<pin>:v<pin>`
    pub rows: Vec<String>,
}

fn fe_small(v: &F) -> String {
    small(&CellValue::Assigned(*v))
}

fn expr_text(e: &Expression<F>, nb_fixed: usize) -> String {
    e.evaluate(
        &|c| format!("k{}", fe_small(&c)),
        &|_| "sel".to_string(),
        &|q| {
            if q.column_index() >= nb_fixed {
                format!("q@{}", q.rotation().0)
            } else {
                format!("f{}@{}", q.column_index(), q.rotation().0)
            }
        },
        &|q| format!("a{}@{}", q.column_index(), q.rotation().0),
        &|_| "inst".to_string(),
        &|_| "chal".to_string(),
        &|a| format!("(-{a})"),
        &|a, b| format!("({a}+{b})"),
        &|a, b| format!("({a}*{b})"),
        &|a, k| format!("({a}*k{})", fe_small(&k)),
    )
}

/// Reads back what `Base64Chip::configure` / `load` / `base64_to_val_chunk` put into the circuit.
pub fn extract_b64(mp: &MockProver<F>, nb_fixed: usize) -> Result<B64Trace, String> {
    let cs = mp.cs();
    let lk = cs
        .lookups()
        .iter()
        .find(|l| l.name() == "Base64 lookup")
        .ok_or("no lookup named 'Base64 lookup'")?;
    let ins: Vec<String> = lk.input_expressions().iter().map(|e| expr_text(e, nb_fixed)).collect();
    let mut tcols = vec![];
    for t in lk.table_expressions() {
        match shape(t) {
            Shape::Fixed(tc, 0) => tcols.push(tc),
            other => return Err(format!("unexpected table expression {other:?}")),
        }
    }
    if ins.len() != 2 || tcols.len() != 2 || tcols[0] == tcols[1] {
        return Err(format!("{} lookup pairs", ins.len()));
    }
    let lookup = format!("{}>t0 {}>t1", ins[0], ins[1]);
    // the selector: the fixed column >= nb_fixed that occurs in the input expressions
    let qcol: std::cell::Cell<Option<usize>> = std::cell::Cell::new(None);
    for e in lk.input_expressions() {
        e.evaluate(
            &|_| (),
            &|_| (),
            &|q| {
                if q.column_index() >= nb_fixed {
                    qcol.set(Some(q.column_index()))
                }
            },
            &|_| (),
            &|_| (),
            &|_| (),
            &|_| (),
            &|_, _| (),
            &|_, _| (),
            &|_, _| (),
        );
    }
    let q = qcol.get().ok_or("no selector in the lookup")?;
    let usable = mp.usable_rows().clone();
    let fixed = mp.fixed();
    let all: Vec<[String; 2]> = usable.clone().map(|r| [0, 1].map(|j| small(&fixed[tcols[j]][r]))).collect();
    let pad = all.last().cloned().ok_or("no usable row")?;
    let mut end = all.len();
    while end > 0 && all[end - 1] == pad {
        end -= 1;
    }
    // the first row equals the padding value (default of the table): keep it
    let mut table: Vec<String> = all[..end].iter().map(|r| r.join(".")).collect();
    if table.is_empty() {
        table.push(pad.join("."));
    }
    let padding = format!("{}x{}", pad.join("."), all.len() - end);
    // permutation pins (as in `extract`)
    let pcols: Vec<(char, usize)> = mp
        .permutation()
        .columns()
        .iter()
        .map(|c| {
            (
                match c.column_type() {
                    Any::Advice(_) => 'a',
                    Any::Fixed => 'f',
                    Any::Instance => 'i',
                },
                c.index(),
            )
        })
        .collect();
    let mapping: Vec<Vec<(usize, usize)>> =
        mp.permutation().mapping().map(|c| c.collect::<Vec<_>>()).collect();
    let pin = |col: usize, row: usize| -> String {
        let Some(ci) = pcols.iter().position(|x| *x == ('a', col)) else {
            return "f".into();
        };
        let mut cur = (ci, row);
        let mut fixed_vals = vec![];
        let mut len = 0usize;
        loop {
            len += 1;
            let (k, idx) = pcols[cur.0];
            if k == 'f' {
                fixed_vals.push(small(&fixed[idx][cur.1]));
            } else if k == 'i' {
                fixed_vals.push("inst".into());
            }
            cur = mapping[cur.0][cur.1];
            if cur == (ci, row) || len > 1 << 20 {
                break;
            }
        }
        fixed_vals.sort();
        fixed_vals.dedup();
        if !fixed_vals.is_empty() {
            format!("={}", fixed_vals.join("&"))
        } else if len > 1 {
            "c".into()
        } else {
            "f".into()
        }
    };
    let advice = mp.advice();
    let mut rows = vec![];
    for r in usable {
        if matches!(fixed[q][r], CellValue::Assigned(v) if v == F::from(1)) {
            rows.push(format!(
                "1:{}{}:{}{}:{}{}",
                small(&advice[0][r]),
                pin(0, r),
                small(&advice[1][r]),
                pin(1, r),
                small(&advice[2][r]),
                pin(2, r)
            ));
        }
    }
    Ok(B64Trace { lookup, table, padding, rows })
}
