//! Reference matcher on the dumped internal tree (Brzozowski derivatives over marked letters,
//! same definitions as the Lean model `MidnightZK/Model/C19/Rx.lean`). Used only to turn a
//! language difference into a concrete failing word (`oracle_fail`); the all-words verdict is
//! the Lean checker's.

use std::rc::Rc;

use midnight_circuits::parsing::regex::VerifRegexTree;

#[derive(Clone, Debug, PartialEq, Eq, PartialOrd, Ord, Hash)]
pub enum Rx {
    Empty,
    Eps,
    /// (marker, 256-bit mask of bytes)
    Single(Rc<Vec<(usize, [u64; 4])>>),
    Cat(Rc<Rx>, Rc<Rx>),
    Alt(Rc<Rx>, Rc<Rx>),
    And(Rc<Rx>, Rc<Rx>),
    Star(Rc<Rx>),
    Compl(Rc<Rx>),
}
use Rx::*;

fn lmem(s: &[(usize, [u64; 4])], b: u8, m: usize) -> bool {
    s.iter().any(|(mm, mask)| *mm == m && (mask[(b as usize) / 64] >> ((b as usize) % 64)) & 1 == 1)
}

pub fn from_tree(t: &VerifRegexTree) -> Rx {
    match t {
        VerifRegexTree::Single(letters) => {
            let mut by: std::collections::BTreeMap<usize, [u64; 4]> = Default::default();
            for (b, m) in letters {
                by.entry(*m).or_insert([0; 4])[(*b as usize) / 64] |= 1u64 << ((*b as usize) % 64);
            }
            Single(Rc::new(by.into_iter().collect()))
        }
        VerifRegexTree::Concat(v) => {
            v.iter().rev().fold(Eps, |acc, r| Cat(Rc::new(from_tree(r)), Rc::new(acc)))
        }
        VerifRegexTree::Union(v) => {
            v.iter().rev().fold(Empty, |acc, r| Alt(Rc::new(from_tree(r)), Rc::new(acc)))
        }
        VerifRegexTree::Inter(v) => v.iter().fold(Compl(Rc::new(Empty)), |acc, r| {
            And(Rc::new(acc), Rc::new(from_tree(r)))
        }),
        VerifRegexTree::Star(strict, r) => {
            let r = Rc::new(from_tree(r));
            if *strict {
                Cat(r.clone(), Rc::new(Star(r)))
            } else {
                Star(r)
            }
        }
        VerifRegexTree::Complement(r) => Compl(Rc::new(from_tree(r))),
    }
}

pub fn markers_of(t: &VerifRegexTree, out: &mut Vec<usize>) {
    match t {
        VerifRegexTree::Single(letters) => {
            for (_, m) in letters {
                if !out.contains(m) {
                    out.push(*m)
                }
            }
        }
        VerifRegexTree::Concat(v) | VerifRegexTree::Union(v) | VerifRegexTree::Inter(v) => {
            v.iter().for_each(|x| markers_of(x, out))
        }
        VerifRegexTree::Star(_, r) | VerifRegexTree::Complement(r) => markers_of(r, out),
    }
}

pub fn nullable(r: &Rx) -> bool {
    match r {
        Empty => false,
        Eps => true,
        Single(_) => false,
        Cat(a, b) => nullable(a) && nullable(b),
        Alt(a, b) => nullable(a) || nullable(b),
        And(a, b) => nullable(a) && nullable(b),
        Star(_) => true,
        Compl(a) => !nullable(a),
    }
}

fn mk_cat(a: Rx, b: Rx) -> Rx {
    match a {
        Empty => Empty,
        Eps => b,
        Cat(x, y) => mk_cat((*x).clone(), mk_cat((*y).clone(), b)),
        a => match b {
            Empty => Empty,
            Eps => a,
            b => Cat(Rc::new(a), Rc::new(b)),
        },
    }
}

fn alt_insert(x: Rx, r: Rx) -> Rx {
    match r {
        Empty => x,
        Alt(y, z) => {
            if x == *y {
                Alt(y, z)
            } else if x < *y {
                Alt(Rc::new(x), Rc::new(Alt(y, z)))
            } else {
                Alt(y, Rc::new(alt_insert(x, (*z).clone())))
            }
        }
        y => {
            if x == y {
                y
            } else if x < y {
                Alt(Rc::new(x), Rc::new(y))
            } else {
                Alt(Rc::new(y), Rc::new(x))
            }
        }
    }
}

fn mk_alt(a: Rx, b: Rx) -> Rx {
    match a {
        Empty => b,
        Alt(x, y) => alt_insert((*x).clone(), mk_alt((*y).clone(), b)),
        a => alt_insert(a, b),
    }
}

fn univ() -> Rx {
    Compl(Rc::new(Empty))
}

fn mk_and_r(a: &Rx, b: Rx) -> Rx {
    match b {
        Empty => Empty,
        Alt(x, y) => mk_alt(mk_and_r(a, (*x).clone()), mk_and_r(a, (*y).clone())),
        b => {
            if *a == univ() {
                b
            } else if b == univ() {
                a.clone()
            } else {
                And(Rc::new(a.clone()), Rc::new(b))
            }
        }
    }
}

fn mk_and(a: Rx, b: Rx) -> Rx {
    match a {
        Empty => Empty,
        Alt(x, y) => mk_alt(mk_and((*x).clone(), b.clone()), mk_and((*y).clone(), b)),
        a => mk_and_r(&a, b),
    }
}

fn mk_star(a: Rx) -> Rx {
    match a {
        Empty | Eps => Eps,
        Star(x) => Star(x),
        a => Star(Rc::new(a)),
    }
}

/// Bottom-up normalisation (mirror of `Rx.norm`).
pub fn norm(r: &Rx) -> Rx {
    match r {
        Single(s) => {
            if s.iter().all(|(_, m)| *m == [0; 4]) {
                Empty
            } else {
                r.clone()
            }
        }
        Cat(a, b) => mk_cat(norm(a), norm(b)),
        Alt(a, b) => mk_alt(norm(a), norm(b)),
        And(a, b) => mk_and(norm(a), norm(b)),
        Star(a) => mk_star(norm(a)),
        Compl(a) => Compl(Rc::new(norm(a))),
        r => r.clone(),
    }
}

pub fn size(r: &Rx) -> usize {
    match r {
        Cat(a, b) | Alt(a, b) | And(a, b) => 1 + size(a) + size(b),
        Star(a) | Compl(a) => 1 + size(a),
        _ => 1,
    }
}

pub fn deriv(b: u8, m: usize, r: &Rx) -> Rx {
    match r {
        Empty | Eps => Empty,
        Single(s) => {
            if lmem(s, b, m) {
                Eps
            } else {
                Empty
            }
        }
        Cat(x, y) => {
            let l = mk_cat(deriv(b, m, x), (**y).clone());
            if nullable(x) {
                mk_alt(l, deriv(b, m, y))
            } else {
                l
            }
        }
        Alt(x, y) => mk_alt(deriv(b, m, x), deriv(b, m, y)),
        And(x, y) => {
            if m == 0 {
                mk_and(deriv(b, 0, x), deriv(b, 0, y))
            } else {
                mk_alt(
                    mk_and(deriv(b, m, x), deriv(b, m, y)),
                    mk_alt(
                        mk_and(deriv(b, m, x), deriv(b, 0, y)),
                        mk_and(deriv(b, 0, x), deriv(b, m, y)),
                    ),
                )
            }
        }
        Star(x) => mk_cat(deriv(b, m, x), r.clone()),
        Compl(x) => {
            if m == 0 {
                Compl(Rc::new(deriv(b, 0, x)))
            } else {
                Empty
            }
        }
    }
}

/// Is the marked word in the language?
pub fn matches(r: &Rx, bytes: &[u8], markers: &[usize]) -> bool {
    let mut cur = r.clone();
    for (b, m) in bytes.iter().zip(markers) {
        cur = deriv(*b, *m, &cur);
        if cur == Empty {
            return false;
        }
    }
    nullable(&cur)
}

/// Is there a marking (over `ms`) of the byte string that is in the language? Returns it.
pub fn matches_bytes(r: &Rx, bytes: &[u8], ms: &[usize]) -> Option<Vec<usize>> {
    // depth-first over the markings; the languages of interest are (nearly) output-deterministic
    // so that the search is linear in practice. A budget bounds the pathological cases.
    fn go(
        r: &Rx,
        bytes: &[u8],
        ms: &[usize],
        acc: &mut Vec<usize>,
        budget: &mut usize,
    ) -> bool {
        if *budget == 0 {
            return false;
        }
        *budget -= 1;
        match bytes.split_first() {
            None => nullable(r),
            Some((b, rest)) => {
                for m in ms {
                    let d = deriv(*b, *m, r);
                    if d != Empty {
                        acc.push(*m);
                        if go(&d, rest, ms, acc, budget) {
                            return true;
                        }
                        acc.pop();
                    }
                }
                false
            }
        }
    }
    let mut acc = vec![];
    let mut budget = 20000;
    go(r, bytes, ms, &mut acc, &mut budget).then_some(acc)
}

/// Result of the product exploration automaton × derivatives (mirror of the Lean search).
pub enum Explored {
    /// closed: number of pairs
    Equiv(usize),
    /// a distinguishing marked word
    Diff(Vec<(u8, usize)>),
    /// pair or size budget exceeded
    Budget,
}

/// Breadth-first closure of (automaton state or deadlock, derivative) under `letters`.
/// `step(s, b, m)`: the automaton read as a machine over marked letters.
pub fn explore(
    init: usize,
    is_final: &dyn Fn(usize) -> bool,
    lookup: &dyn Fn(usize, u8) -> Option<(usize, usize)>,
    r: &Rx,
    letters: &[(u8, usize)],
    max_pairs: usize,
    max_size: usize,
) -> Explored {
    use std::collections::HashMap;
    let mut pairs: Vec<(Option<usize>, Rx)> = vec![(Some(init), norm(r))];
    let mut parent: Vec<(usize, (u8, usize))> = vec![(0, (0, 0))];
    let mut idx: HashMap<(Option<usize>, Rx), usize> = HashMap::new();
    idx.insert(pairs[0].clone(), 0);
    let mut i = 0;
    while i < pairs.len() {
        let (s, t) = pairs[i].clone();
        let acc_s = s.map(is_final).unwrap_or(false);
        if acc_s != nullable(&t) {
            let mut w = vec![];
            let mut j = i;
            while j != 0 {
                w.push(parent[j].1);
                j = parent[j].0;
            }
            w.reverse();
            return Explored::Diff(w);
        }
        if size(&t) > max_size || pairs.len() > max_pairs {
            return Explored::Budget;
        }
        for &(b, m) in letters {
            let s2 = s.and_then(|s| lookup(s, b)).and_then(|(t2, m2)| (m2 == m).then_some(t2));
            let t2 = deriv(b, m, &t);
            let p = (s2, t2);
            if !idx.contains_key(&p) {
                idx.insert(p.clone(), pairs.len());
                pairs.push(p);
                parent.push((i, (b, m)));
            }
        }
        i += 1;
    }
    Explored::Equiv(pairs.len())
}

/// Is the language sequentially output-deterministic (the condition under which
/// `Regex::to_automaton` accepts to compile)? `None` = budget exceeded.
pub fn output_deterministic(
    r: &Rx,
    reps: &[u8],
    ms: &[usize],
    max_states: usize,
    max_size: usize,
) -> Option<bool> {
    use std::collections::HashMap;
    let mut states: Vec<Rx> = vec![norm(r)];
    let mut idx: HashMap<Rx, usize> = HashMap::new();
    idx.insert(states[0].clone(), 0);
    let mut succ: Vec<Vec<usize>> = vec![];
    let mut i = 0;
    while i < states.len() {
        let t = states[i].clone();
        if size(&t) > max_size || states.len() > max_states {
            return None;
        }
        let mut row = vec![];
        for b in reps {
            for m in ms {
                let d = deriv(*b, *m, &t);
                let k = match idx.get(&d) {
                    Some(k) => *k,
                    None => {
                        idx.insert(d.clone(), states.len());
                        states.push(d);
                        states.len() - 1
                    }
                };
                row.push(k);
            }
        }
        succ.push(row);
        i += 1;
    }
    let n = states.len();
    let mut live: Vec<bool> = states.iter().map(nullable).collect();
    loop {
        let mut changed = false;
        for i in 0..n {
            if !live[i] && succ[i].iter().any(|k| live[*k]) {
                live[i] = true;
                changed = true;
            }
        }
        if !changed {
            break;
        }
    }
    for i in 0..n {
        if !live[i] {
            continue;
        }
        for bi in 0..reps.len() {
            let c = (0..ms.len()).filter(|mi| live[succ[i][bi * ms.len() + mi]]).count();
            if c >= 2 {
                return Some(false);
            }
        }
    }
    Some(true)
}

/// Class representatives of the bytes w.r.t. the `Single` sets of a tree.
pub fn tree_byte_classes(t: &VerifRegexTree) -> Vec<u8> {
    fn masks(t: &VerifRegexTree, out: &mut Vec<[u64; 4]>) {
        match t {
            VerifRegexTree::Single(letters) => {
                let mut by: std::collections::BTreeMap<usize, [u64; 4]> = Default::default();
                for (b, m) in letters {
                    by.entry(*m).or_insert([0; 4])[(*b as usize) / 64] |=
                        1u64 << ((*b as usize) % 64);
                }
                out.extend(by.into_values());
            }
            VerifRegexTree::Concat(v) | VerifRegexTree::Union(v) | VerifRegexTree::Inter(v) => {
                v.iter().for_each(|x| masks(x, out))
            }
            VerifRegexTree::Star(_, r) | VerifRegexTree::Complement(r) => masks(r, out),
        }
    }
    let mut ms = vec![];
    masks(t, &mut ms);
    ms.sort();
    ms.dedup();
    let mut seen = std::collections::BTreeSet::new();
    let mut reps = vec![];
    for b in 0..=255u8 {
        let sig: Vec<bool> =
            ms.iter().map(|m| (m[(b as usize) / 64] >> ((b as usize) % 64)) & 1 == 1).collect();
        if seen.insert(sig) {
            reps.push(b);
        }
    }
    reps
}

/// Is the language empty? (`None` = budget exceeded.)
pub fn lang_empty(r: &Rx, reps: &[u8], ms: &[usize], max_states: usize) -> Option<bool> {
    use std::collections::HashSet;
    let mut states: Vec<Rx> = vec![norm(r)];
    let mut seen: HashSet<Rx> = HashSet::new();
    seen.insert(states[0].clone());
    let mut i = 0;
    while i < states.len() {
        let t = states[i].clone();
        if nullable(&t) {
            return Some(false);
        }
        if states.len() > max_states || size(&t) > 3000 {
            return None;
        }
        for b in reps {
            for m in ms {
                let d = deriv(*b, *m, &t);
                if d != Empty && seen.insert(d.clone()) {
                    states.push(d);
                }
            }
        }
        i += 1;
    }
    Some(true)
}

/// Does the tree contain a concatenation one factor of which has an empty language (so that
/// the automaton built by `RawAutomaton::concat` has dead states)?
pub fn has_dead_concat(t: &VerifRegexTree, reps: &[u8], ms: &[usize]) -> bool {
    match t {
        VerifRegexTree::Single(_) => false,
        VerifRegexTree::Concat(v) => {
            (v.len() > 1
                && v.iter().any(|x| lang_empty(&from_tree(x), reps, ms, 200) == Some(true)))
                || v.iter().any(|x| has_dead_concat(x, reps, ms))
        }
        VerifRegexTree::Union(v) | VerifRegexTree::Inter(v) => {
            v.iter().any(|x| has_dead_concat(x, reps, ms))
        }
        VerifRegexTree::Star(_, r) | VerifRegexTree::Complement(r) => has_dead_concat(r, reps, ms),
    }
}
