//! `ParserGadget` (`parser_gadget.rs: fetch_bytes` / `get_subsequence`, `data_types.rs:
//! ascii_to_int` / `date_to_int`) under `MockProver`, against the Lean mirrors
//! `PG.fetchBytes`, `PG.asciiToInt`, `PG.dateToInt` and against the specification directly
//! (window of the sequence; decimal reading; `DD + 100·MM + 10000·YYYY`).

use std::sync::{Arc, Mutex};

use midnight_circuits::{
    field::{decomposition::chip::P2RDecompositionConfig, AssignedNative},
    instructions::AssignmentInstructions,
    parsing::{DateFormat, ParserGadget, Separator},
    types::{AssignedByte, InnerValue},
};
use midnight_proofs::{
    circuit::{Layouter, SimpleFloorPlanner, Value},
    dev::MockProver,
    plonk::{Circuit, ConstraintSystem, Error},
};
use midnight_circuits::ComposableChip;
use mzkh::Ctx;
use num_bigint::BigUint;
use rand::Rng;
use serde_json::json;

use crate::circuit::{base_config, native_gadget, F};
use crate::hex;

#[derive(Clone, Debug)]
pub enum DataOp {
    Int,
    Date(bool, Option<u8>),
    Fetch(u64, usize),
}

#[derive(Clone)]
pub struct DataCircuit {
    pub input: Vec<u8>,
    pub op: DataOp,
    pub out: Arc<Mutex<String>>,
}

impl Circuit<F> for DataCircuit {
    type Config = P2RDecompositionConfig;
    type FloorPlanner = SimpleFloorPlanner;
    type Params = ();

    fn without_witnesses(&self) -> Self {
        self.clone()
    }
    fn configure(meta: &mut ConstraintSystem<F>) -> Self::Config {
        base_config(meta).0
    }
    fn synthesize(&self, config: Self::Config, mut layouter: impl Layouter<F>) -> Result<(), Error> {
        let (ng, core) = native_gadget(&config);
        let pg = ParserGadget::new(&ng);
        let vals: Vec<Value<u8>> = self.input.iter().map(|b| Value::known(*b)).collect();
        let input: Vec<AssignedByte<F>> = ng.assign_many(&mut layouter, &vals)?;
        let mut got = String::new();
        match &self.op {
            DataOp::Int => {
                let r: AssignedNative<F> = pg.ascii_to_int(&mut layouter, &input)?;
                r.value().map(|v| got = mzkh::fe_big(v).to_string());
            }
            DataOp::Date(ymd, sep) => {
                let fmt = (
                    if *ymd { DateFormat::YYYYMMDD } else { DateFormat::DDMMYYYY },
                    match sep {
                        Some(c) => Separator::Sep(*c as char),
                        None => Separator::NoSep,
                    },
                );
                let r: AssignedNative<F> = pg.date_to_int(&mut layouter, &input, fmt)?;
                r.value().map(|v| got = mzkh::fe_big(v).to_string());
            }
            DataOp::Fetch(idx, len) => {
                let idx: AssignedNative<F> = ng.assign(&mut layouter, Value::known(F::from(*idx)))?;
                let r = pg.fetch_bytes(&mut layouter, &input, &idx, *len)?;
                let mut bytes = vec![];
                for b in &r {
                    b.value().map(|v| bytes.push(v));
                }
                got = hex(&bytes);
            }
        }
        *self.out.lock().unwrap() = got;
        core.load(&mut layouter)
    }
}

fn run_data(input: &[u8], op: DataOp) -> String {
    let out = Arc::new(Mutex::new(String::new()));
    let circuit = DataCircuit { input: input.to_vec(), op, out: out.clone() };
    match mzkh::catch(|| MockProver::run(13, &circuit, vec![vec![], vec![]])) {
        // the honest prover cannot build a witness for a failing range check (the decomposition
        // chip panics while computing the limbs): there is no satisfying assignment to report
        Err(p) if p.contains("cannot be represented with the given limb_sizes") => "unsat".into(),
        Err(_) => "panic".into(),
        Ok(Err(_)) => "unsat".into(),
        Ok(Ok(prover)) => match prover.verify() {
            Ok(()) => format!("ok {}", out.lock().unwrap()),
            Err(_) => "unsat".into(),
        },
    }
}

fn int_case(ctx: &mut Ctx, kind: &str, input: &[u8]) {
    let ans = run_data(input, DataOp::Int);
    ctx.case(&format!("atoi-{kind}"), !input.is_empty(), &format!("atoi {}", hex(input)), &ans);
    // the property itself: satisfiable exactly on decimal digit strings, value = decimal reading
    let want = if input.len() >= 76 {
        "panic".to_string()
    } else if input.iter().all(|b| b.is_ascii_digit()) {
        let v = input.iter().fold(BigUint::from(0u8), |a, b| a * 10u8 + (*b - b'0'));
        format!("ok {v}")
    } else {
        "unsat".into()
    };
    if ans != want {
        ctx.oracle_fail(
            &format!("ascii-to-int:{}", hex(input)),
            "ParserGadget::ascii_to_int is not satisfiable exactly on digit strings with the decimal value",
            json!({"input": hex(input), "expected": want, "circuit": ans}),
        );
    }
}

fn date_case(ctx: &mut Ctx, kind: &str, input: &[u8], ymd: bool, sep: Option<u8>) {
    let ans = run_data(input, DataOp::Date(ymd, sep));
    let s = sep.map(|c| c.to_string()).unwrap_or("-".into());
    ctx.case(
        &format!("date-{kind}"),
        true,
        &format!("date {} {s} {}", if ymd { "ymd" } else { "dmy" }, hex(input)),
        &ans,
    );
    let n = if sep.is_some() { 10 } else { 8 };
    let want = if input.len() != n {
        "panic".to_string()
    } else {
        let (d, m, y, seps): (&[u8], &[u8], &[u8], Vec<u8>) = match (ymd, sep) {
            (false, None) => (&input[0..2], &input[2..4], &input[4..8], vec![]),
            (false, Some(_)) => (&input[0..2], &input[3..5], &input[6..10], vec![input[2], input[5]]),
            (true, None) => (&input[6..8], &input[4..6], &input[0..4], vec![]),
            (true, Some(_)) => (&input[8..10], &input[5..7], &input[0..4], vec![input[4], input[7]]),
        };
        let num = |x: &[u8]| -> Option<u64> {
            x.iter().try_fold(0u64, |a, b| if b.is_ascii_digit() { Some(a * 10 + (*b - b'0') as u64) } else { None })
        };
        match (num(d), num(m), num(y)) {
            (Some(d), Some(m), Some(y)) if seps.iter().all(|c| Some(*c) == sep) => format!("ok {}", d + 100 * m + 10000 * y),
            _ => "unsat".into(),
        }
    };
    if ans != want {
        ctx.oracle_fail(
            &format!("date-to-int:{ymd}:{s}:{}", hex(input)),
            "ParserGadget::date_to_int is not satisfiable exactly on well-formed dates with the value DD + 100 MM + 10000 YYYY",
            json!({"input": hex(input), "ymd": ymd, "sep": sep, "expected": want, "circuit": ans}),
        );
    }
}

fn fetch_case(ctx: &mut Ctx, kind: &str, seq: &[u8], idx: u64, len: usize) {
    let ans = run_data(seq, DataOp::Fetch(idx, len));
    ctx.case(&format!("fetch-{kind}"), len > 0, &format!("fetch {idx} {len} {}", hex(seq)), &ans);
    let want = if len > seq.len() {
        "panic".to_string()
    } else if (idx as usize) + len <= seq.len() && idx < (1 << 40) {
        format!("ok {}", hex(&seq[idx as usize..idx as usize + len]))
    } else {
        "unsat".into()
    };
    if ans != want {
        ctx.oracle_fail(
            &format!("fetch-bytes:{idx}:{len}:{}", hex(seq)),
            "ParserGadget::fetch_bytes is not satisfiable exactly for in-range indices with the window of the sequence",
            json!({"sequence": hex(seq), "idx": idx, "len": len, "expected": want, "circuit": ans}),
        );
    }
}

pub fn run_data_types(ctx: &mut Ctx) {
    let mut rng = ctx.rng("data-types");
    // ---- ascii_to_int: every length 0..=75 of digits (leading zeros, all 9s), the panic bound,
    // every non-digit neighbour of the digit range at every position class
    for n in 0..=77usize {
        if ctx.quick() && n > 12 && n % 9 != 3 && n < 74 {
            continue;
        }
        let nines = vec![b'9'; n];
        int_case(ctx, "nines", &nines);
        let r: Vec<u8> = (0..n).map(|_| b'0' + rng.gen_range(0..10)).collect();
        int_case(ctx, "random", &r);
    }
    for bad in [47u8, 58, 0, 255, b' ', b'-', b'a', 48 + 10, 48 + 16] {
        for (n, pos) in [(1usize, 0usize), (4, 0), (4, 3), (4, 1), (20, 19)] {
            let mut s = vec![b'7'; n];
            s[pos] = bad;
            int_case(ctx, "non-digit", &s);
        }
    }
    int_case(ctx, "leading-zeros", b"000123");
    // ---- date_to_int
    let dates: Vec<(&[u8], bool, Option<u8>)> = vec![
        (b"31121999", false, None),
        (b"00000000", false, None),
        (b"99999999", false, None),
        (b"19991231", true, None),
        (b"31-12-1999", false, Some(b'-')),
        (b"31/12/1999", false, Some(b'/')),
        (b"1999-12-31", true, Some(b'-')),
        (b"1999.01.02", true, Some(b'.')),
        (b"31-12/1999", false, Some(b'-')),
        (b"31/12-1999", false, Some(b'-')),
        (b"1999-12/31", true, Some(b'-')),
        (b"1999/12-31", true, Some(b'-')),
        (b"3112-1999-", false, Some(b'-')),
        (b"31-12-199", false, Some(b'-')),
        (b"3112199", false, None),
        (b"311219990", false, None),
        (b"3a121999", false, None),
        (b"311219 9", false, None),
        (b"1999-1x-31", true, Some(b'-')),
        (b"1999012", true, None),
    ];
    for (d, ymd, sep) in dates {
        date_case(ctx, "fixed", d, ymd, sep);
    }
    let nd = if ctx.quick() { 12 } else { 60 };
    for _ in 0..nd {
        let ymd = rng.gen_range(0..2) == 0;
        let sep = if rng.gen_range(0..2) == 0 { None } else { Some(b"-/. :"[rng.gen_range(0..5)]) };
        let n = if sep.is_some() { 10 } else { 8 };
        let mut s: Vec<u8> = (0..n).map(|_| b'0' + rng.gen_range(0..10)).collect();
        if let Some(c) = sep {
            let (i, j) = if ymd { (4, 7) } else { (2, 5) };
            s[i] = c;
            s[j] = c;
        }
        date_case(ctx, "random", &s, ymd, sep);
        let k = rng.gen_range(0..n);
        s[k] = match rng.gen_range(0..3) {
            0 => 47,
            1 => 58,
            _ => rng.gen(),
        };
        date_case(ctx, "corrupted", &s, ymd, sep);
    }
    // ---- fetch_bytes: sequence lengths around the chunk boundaries (31 bytes per chunk),
    // every window length class, first / last / chunk-straddling / out-of-range indices
    let lens: Vec<usize> = if ctx.quick() { vec![0, 1, 5, 30, 31, 32, 62, 63, 70] } else { (0..=70).filter(|n| n % 4 == 0 || [1, 29, 30, 31, 32, 33, 61, 62, 63].contains(n)).chain([93, 124]).collect() };
    for n in lens {
        let seq: Vec<u8> = (0..n).map(|i| if rng.gen_range(0..4) == 0 { rng.gen() } else { (i as u8).wrapping_mul(7).wrapping_add(1) }).collect();
        let mut wl: Vec<usize> = vec![0, 1, 2, 30, 31, 32, 33, 61, 62, 63, n / 2, n.saturating_sub(1), n, n + 1];
        wl.retain(|l| *l <= n + 1);
        wl.sort();
        wl.dedup();
        for len in wl {
            if len > n {
                fetch_case(ctx, "len-too-big", &seq, 0, len);
                continue;
            }
            let last = (n - len) as u64;
            let mut idxs: Vec<u64> = vec![0, 1, 30, 31, 32, 61, 62, last / 2, last.saturating_sub(1), last, last + 1, last + 31, 1 << 18, (1 << 18) + last];
            idxs.sort();
            idxs.dedup();
            if ctx.quick() {
                idxs.retain(|i| *i <= last + 1 || *i == 1 << 18);
            }
            for idx in idxs {
                let kind = if idx <= last { "in-range" } else { "out-of-range" };
                if ctx.quick() && kind == "in-range" && rng.gen_range(0..3) != 0 && idx != last && idx != 0 {
                    continue;
                }
                fetch_case(ctx, kind, &seq, idx, len);
            }
        }
    }
}
