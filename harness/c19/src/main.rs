//! Correspondence harness of property C19 (stub).
use mzkh::Ctx;

fn main() {
    let ctx = Ctx::from_args("C19");
    ctx.finish();
}
