//! Correspondence harness of property C19 (regex compilation, automaton parsing, base64).
mod circuit;
mod coll;
mod data;
mod reference;
mod shapes;
mod spec;
mod trace;

use std::collections::BTreeMap;

use midnight_circuits::parsing::{
    regex::{Regex, VerifRegexTree},
    verif_hooks::{verif_deserialize_automaton, verif_spec_library_data, Automaton},
};
use mzkh::{catch, Ctx};
use rand::Rng;
use rand_chacha::ChaCha8Rng;
use serde_json::json;

use spec::*;

// ---------------------------------------------------------------------------------------------
// Automata: text form and runs
// ---------------------------------------------------------------------------------------------

/// `A nb_states initial F k f*k R k (source target marker hexmask-of-bytes)*k`, sorted.
pub fn dfa_text(a: &Automaton) -> String {
    let mut finals: Vec<usize> = a.final_states.iter().copied().collect();
    finals.sort();
    let mut rows: BTreeMap<(usize, usize, usize), [u64; 4]> = BTreeMap::new();
    for (&(s, b), &(t, m)) in a.transitions.iter() {
        let e = rows.entry((s, t, m)).or_insert([0; 4]);
        e[(b as usize) / 64] |= 1u64 << ((b as usize) % 64);
    }
    let mut out = vec![
        "A".to_string(),
        a.nb_states.to_string(),
        a.initial_state.to_string(),
        "F".into(),
        finals.len().to_string(),
    ];
    out.extend(finals.iter().map(|f| f.to_string()));
    out.push("R".into());
    out.push(rows.len().to_string());
    for ((s, t, m), mask) in rows {
        out.push(s.to_string());
        out.push(t.to_string());
        out.push(m.to_string());
        out.push(mask_hex(&mask));
    }
    out.join(" ")
}

/// Mirror of the (test-only) `Automaton::run`: final state and markers, `None` if stuck.
pub fn run(a: &Automaton, input: &[u8]) -> Option<(usize, Vec<usize>)> {
    let mut s = a.initial_state;
    let mut out = Vec::with_capacity(input.len());
    for b in input {
        let (t, m) = *a.transitions.get(&(s, *b))?;
        s = t;
        out.push(m);
    }
    Some((s, out))
}

pub fn accepts(a: &Automaton, input: &[u8]) -> Option<Vec<usize>> {
    run(a, input).and_then(|(s, m)| a.final_states.contains(&s).then_some(m))
}

pub fn word_text(bytes: &[u8], markers: &[usize]) -> String {
    if bytes.is_empty() {
        "-".into()
    } else {
        bytes.iter().zip(markers).map(|(b, m)| format!("{b}:{m}")).collect::<Vec<_>>().join(",")
    }
}

/// A random accepted word (random walk that is steered towards a final state), if any.
fn sample_accepted(a: &Automaton, rng: &mut ChaCha8Rng, max_len: usize) -> Option<Vec<u8>> {
    // distance to a final state (backward BFS)
    let n = a.nb_states;
    let mut dist = vec![usize::MAX; n];
    let mut rev: Vec<Vec<usize>> = vec![vec![]; n];
    let mut succ: Vec<Vec<(u8, usize)>> = vec![vec![]; n];
    for (&(s, b), &(t, _)) in a.transitions.iter() {
        rev[t].push(s);
        succ[s].push((b, t));
    }
    succ.iter_mut().for_each(|v| v.sort());
    let mut queue: std::collections::VecDeque<usize> = Default::default();
    let mut finals: Vec<usize> = a.final_states.iter().copied().collect();
    finals.sort();
    for f in finals {
        dist[f] = 0;
        queue.push_back(f);
    }
    while let Some(s) = queue.pop_front() {
        for &p in &rev[s] {
            if dist[p] == usize::MAX {
                dist[p] = dist[s] + 1;
                queue.push_back(p);
            }
        }
    }
    if dist[a.initial_state] == usize::MAX {
        return None;
    }
    let target_len = rng.gen_range(0..=max_len);
    let mut s = a.initial_state;
    let mut w = vec![];
    loop {
        let remaining = max_len.saturating_sub(w.len());
        if a.final_states.contains(&s) && (w.len() >= target_len || succ[s].is_empty()) {
            return Some(w);
        }
        // candidates that can still reach a final state within the budget
        let cands: Vec<&(u8, usize)> = succ[s]
            .iter()
            .filter(|(_, t)| dist[*t] != usize::MAX && dist[*t] < remaining.max(1))
            .collect();
        let cands: Vec<&(u8, usize)> = if w.len() >= target_len {
            // head for the closest final state
            let best = cands.iter().map(|(_, t)| dist[*t]).min();
            cands.into_iter().filter(|(_, t)| Some(dist[*t]) == best).collect()
        } else {
            cands
        };
        if cands.is_empty() {
            return if a.final_states.contains(&s) { Some(w) } else { None };
        }
        let (b, t) = *cands[rng.gen_range(0..cands.len())];
        w.push(b);
        s = t;
        if w.len() > max_len + n {
            return None;
        }
    }
}

// ---------------------------------------------------------------------------------------------
// Regex compilation: translation validation + sampled words
// ---------------------------------------------------------------------------------------------

/// Representatives of the classes of bytes that no `Single` set of the tree and no column of the
/// automaton's transition table distinguishes.
fn byte_classes(tree: &VerifRegexTree, a: &Automaton) -> Vec<u8> {
    fn masks(t: &VerifRegexTree, out: &mut Vec<[u64; 4]>) {
        match t {
            VerifRegexTree::Single(letters) => {
                let mut by: BTreeMap<usize, [u64; 4]> = BTreeMap::new();
                for (b, m) in letters {
                    by.entry(*m).or_insert([0; 4])[(*b as usize) / 64] |=
                        1u64 << ((*b as usize) % 64);
                }
                out.extend(by.into_values());
            }
            VerifRegexTree::Concat(v) | VerifRegexTree::Union(v) | VerifRegexTree::Inter(v) => {
                v.iter().for_each(|x| masks(x, out))
            }
            VerifRegexTree::Star(_, r) | VerifRegexTree::Complement(r) => masks(r, out),
        }
    }
    let mut ms = vec![];
    masks(tree, &mut ms);
    ms.sort();
    ms.dedup();
    let mut seen: BTreeMap<Vec<usize>, u8> = BTreeMap::new();
    let mut reps = vec![];
    for b in 0..=255u8 {
        let mut sig: Vec<usize> =
            ms.iter().map(|m| ((m[(b as usize) / 64] >> ((b as usize) % 64)) & 1) as usize).collect();
        for s in 0..a.nb_states {
            match a.transitions.get(&(s, b)) {
                None => sig.push(0),
                Some(&(t, m)) => {
                    sig.push(t + 1);
                    sig.push(m)
                }
            }
        }
        if !seen.contains_key(&sig) {
            seen.insert(sig, b);
            reps.push(b);
        }
    }
    reps
}

fn has_marked_complement(t: &VerifRegexTree) -> bool {
    fn marked(t: &VerifRegexTree) -> bool {
        match t {
            VerifRegexTree::Single(l) => l.iter().any(|(_, m)| *m != 0),
            VerifRegexTree::Concat(v) | VerifRegexTree::Union(v) | VerifRegexTree::Inter(v) => {
                v.iter().any(marked)
            }
            VerifRegexTree::Star(_, r) | VerifRegexTree::Complement(r) => marked(r),
        }
    }
    match t {
        VerifRegexTree::Single(_) => false,
        VerifRegexTree::Concat(v) | VerifRegexTree::Union(v) | VerifRegexTree::Inter(v) => {
            v.iter().any(has_marked_complement)
        }
        VerifRegexTree::Star(_, r) => has_marked_complement(r),
        VerifRegexTree::Complement(r) => marked(r) || has_marked_complement(r),
    }
}

/// Key of a language difference between a compiled automaton and the reference language.
fn lang_key(tree: &VerifRegexTree, tree_s: &str) -> String {
    if has_marked_complement(tree) {
        // `mark`/`mark_bytes`/`replace_markers` applied on top of `neg`/`minus` (see findings)
        "regex-lang:marked-complement".to_string()
    } else {
        format!("regex-lang:{tree_s}")
    }
}

fn wrng_pick(rng: &mut ChaCha8Rng) -> bool {
    rng.gen_range(0..8) == 0
}

static LANG_REPORTS: std::sync::atomic::AtomicUsize = std::sync::atomic::AtomicUsize::new(0);

struct Compiled {
    tree: VerifRegexTree,
    tree_s: String,
    automaton: Automaton,
}

/// Builds and compiles one specification through the real library; emits the all-words
/// equivalence request and the sampled-word requests.
fn case_if(ctx: &mut Ctx, emit: bool, kind: &str, nontrivial: bool, op: &str, ans: &str) {
    if emit {
        ctx.case(kind, nontrivial, op, ans);
    }
}

/// `light`: only the all-words request and the empty word (structural corpus); `src`: label of
/// the generator for the distribution table.
fn one_spec(ctx: &mut Ctx, s: &Spec, rng: &mut ChaCha8Rng, nwords: usize, light: bool, src: &str) -> Option<Compiled> {
    let mut tags = vec![];
    spec_tags(s, &mut tags);
    let spec_s = spec_string(s);
    if std::env::var("VERIF_C19_TRACE").is_ok() {
        eprintln!("spec {spec_s}");
    }
    let regex: Regex = match catch(|| build(s)) {
        Ok(r) => r,
        Err(msg) => {
            if msg.contains("markers are not allowed under complement") {
                ctx.count("regex:build-refused-markers-under-neg");
                ctx.case("tree-refused", true, &format!("tree {spec_s}"), "panic:neg-markers");
            } else {
                ctx.oracle_fail(
                    &format!("regex-build-panic:{}", spec_string(s)),
                    "building a regular expression with the public combinators panics",
                    json!({"spec": spec_string(s), "panic": msg}),
                );
            }
            return None;
        }
    };
    let tree = regex.verif_dump();
    let tsize = tree_size(&tree);
    if tsize > 600 {
        ctx.count("regex:skipped-too-large");
        return None;
    }
    let tree_s = tree_string(&tree);
    // the tree built by the real combinators must be the transcription's tree
    // (the search tier only looks for failing inputs: nothing is sent to the Lean model)
    if !ctx.search() {
        ctx.case("tree", spec_size(s) > 1, &format!("tree {spec_s}"), &tree_s);
    }
    // Is the language output-deterministic (reference verdict; `None` = too large to tell)?
    let (det, dead_concat) = {
        let rx = reference::from_tree(&tree);
        let mut ms = vec![0usize];
        reference::markers_of(&tree, &mut ms);
        ms.sort();
        let reps = reference::tree_byte_classes(&tree);
        (
            reference::output_deterministic(&rx, &reps, &ms, 300, 3000),
            reference::has_dead_concat(&tree, &reps, &ms),
        )
    };
    // Expressions of the two recorded defect classes (see /verif/findings/C19.json) are only
    // checked by the oracle (which reports them under their stable keys), not sent to the model.
    let emit = !(has_marked_complement(&tree) || dead_concat) && !ctx.search();
    if !emit && !ctx.search() {
        ctx.count("regex:known-defect-class(oracle-only)");
    }
    let compiled = catch(|| regex.to_automaton());
    if det.is_some() {
        let refused = matches!(&compiled, Err(m) if m.contains("non output-deterministic"));
        let panicked = compiled.is_err() && !refused;
        // the refusal verdict goes to the model for every refused expression and for a sample
        // of the compiled ones
        if !panicked && (refused || wrng_pick(rng)) {
            case_if(ctx, emit, 
                if refused { "detcheck-refused" } else { "detcheck-compiled" },
                true,
                &format!("detcheck {tree_s}"),
                if refused { "nondet" } else { "det" },
            );
        }
        if det == Some(true) && refused {
            let key = if has_marked_complement(&tree) {
                "regex-lang:marked-complement".to_string()
            } else if dead_concat {
                // known finding: conflict detected in a dead part of the automaton
                "regex-dead-concat-conflict".to_string()
            } else {
                format!("regex-refused-deterministic:{tree_s}")
            };
            ctx.oracle_fail(
                &key,
                "Regex::to_automaton refuses an output-deterministic expression",
                json!({"spec": spec_s, "tree": tree_s, "panic": compiled.as_ref().err()}),
            );
        }
        if det == Some(false) && compiled.is_ok() {
            ctx.oracle_fail(
                &format!("regex-accepted-nondeterministic:{tree_s}"),
                "Regex::to_automaton compiles an expression that is not output-deterministic",
                json!({"spec": spec_s, "tree": tree_s}),
            );
        }
    }
    let automaton: Automaton = match compiled {
        Ok(a) => a,
        Err(msg) => {
            if msg.contains("non output-deterministic") {
                ctx.count("regex:refused-non-output-deterministic");
            } else if msg.contains("witness_reachability has been called on an unreachable state")
                && dead_concat
            {
                // known finding: conflict detected in a dead part of the automaton
                ctx.oracle_fail(
                    "regex-dead-concat-conflict",
                    "Regex::to_automaton panics with an internal '(bug)' message",
                    json!({"spec": spec_s, "tree": tree_s, "panic": msg, "reference_deterministic": det}),
                );
            } else {
                ctx.oracle_fail(
                    &format!("regex-compile-panic:{}", tree_s),
                    "Regex::to_automaton panics",
                    json!({"spec": spec_s, "tree": tree_s, "panic": msg}),
                );
            }
            return None;
        }
    };
    for t in &tags {
        ctx.count(&format!("combinator:{t}"));
    }
    {
        // (head of left factor) x (head of right factor) of every Concat node of the internal tree
        let mut pairs = vec![];
        shapes::concat_pairs(&tree, &mut pairs);
        for (l, r) in pairs {
            ctx.count(&format!("concat-pair[{src}]:{l}>{r}"));
        }
    }
    ctx.count(&format!("regex:depth-{}", spec_depth(s)));
    ctx.count(&format!(
        "automaton:states-{}",
        match automaton.nb_states {
            0..=1 => "0-1",
            2..=4 => "2-4",
            5..=16 => "5-16",
            17..=64 => "17-64",
            _ => "65+",
        }
    ));
    let nontrivial = automaton.nb_states > 1 && !automaton.transitions.is_empty();
    // Reference exploration (same algorithm as the Lean search, much smaller budget): decides
    // whether the all-words request is sent, and yields a concrete distinguishing word.
    let rx = reference::from_tree(&tree);
    let mut ms = vec![0usize];
    reference::markers_of(&tree, &mut ms);
    for (_, (_, m)) in automaton.transitions.iter() {
        if !ms.contains(m) {
            ms.push(*m)
        }
    }
    ms.sort();
    let reps = byte_classes(&tree, &automaton);
    let letters: Vec<(u8, usize)> =
        reps.iter().flat_map(|b| ms.iter().map(move |m| (*b, *m))).collect();
    let (max_pairs, max_size) = if ctx.quick() { (600, 3000) } else { (1500, 6000) };
    let explored = reference::explore(
        automaton.initial_state,
        &|s| automaton.final_states.contains(&s),
        &|s, b| automaton.transitions.get(&(s, b)).copied(),
        &rx,
        &letters,
        max_pairs,
        max_size,
    );
    match &explored {
        reference::Explored::Budget => {
            // coverage gap, not a verdict: the derivative automaton is too large for the budget
            ctx.count("equiv:skipped-budget");
        }
        other => {
            case_if(ctx, emit, 
                "equiv",
                nontrivial,
                &format!("equiv {} | {}", tree_s, dfa_text(&automaton)),
                "equiv",
            );
            ctx.count("programs");
            ctx.count(&format!("equiv:classes-{}", match reps.len() { 0..=2 => "1-2", 3..=8 => "3-8", 9..=32 => "9-32", _ => "33+" }));
            if let reference::Explored::Equiv(n) = other {
                ctx.count_n("equiv:pairs-explored", *n as u64);
            }
            if let reference::Explored::Diff(_) = other {
                ctx.count("equiv:reference-found-distinguishing-word");
            }
            // the structural corpus reports at most 8 language differences (one realistic defect
            // of `concat` breaks hundreds of shapes; the others are counted)
            let report = !light
                || !matches!(other, reference::Explored::Diff(_))
                || LANG_REPORTS.fetch_add(1, std::sync::atomic::Ordering::Relaxed) < 8;
            if let (reference::Explored::Diff(w), true) = (other, report) {
                let bytes: Vec<u8> = w.iter().map(|x| x.0).collect();
                let marks: Vec<usize> = w.iter().map(|x| x.1).collect();
                ctx.oracle_fail(
                    &lang_key(&tree, &tree_s),
                    "the compiled automaton and the regular expression disagree on a word",
                    json!({"spec": spec_string(s), "tree": tree_s, "word_bytes": bytes, "word_markers": marks,
                           "automaton_accepts_with": accepts(&automaton, &bytes),
                           "reference_matches": reference::matches(&rx, &bytes, &marks)}),
                );
            }
        }
    }
    // sampled words: accepted ones (random walks), their mutations, random ones
    let mut words: Vec<Vec<u8>> = vec![vec![]];
    for _ in 0..(if light { 0 } else { nwords }) {
        if let Some(w) = sample_accepted(&automaton, rng, 40) {
            let mut m = w.clone();
            words.push(w);
            if !m.is_empty() {
                match rng.gen_range(0..3) {
                    0 => {
                        let i = rng.gen_range(0..m.len());
                        m[i] = POOL[rng.gen_range(0..POOL.len())];
                    }
                    1 => {
                        let i = rng.gen_range(0..m.len());
                        m.remove(i);
                    }
                    _ => {
                        let i = rng.gen_range(0..=m.len());
                        m.insert(i, POOL[rng.gen_range(0..POOL.len())]);
                    }
                }
                words.push(m);
            }
        }
        let n = rng.gen_range(0..6);
        words.push((0..n).map(|_| POOL[rng.gen_range(0..POOL.len())]).collect());
    }
    words.sort();
    words.dedup();
    for w in words {
        let (ans, markers) = match accepts(&automaton, &w) {
            Some(m) => ("1", m),
            None => {
                // markers of the partial run, 0 afterwards
                let mut ms = vec![];
                let mut st = automaton.initial_state;
                for b in &w {
                    match automaton.transitions.get(&(st, *b)) {
                        Some(&(t, m)) => {
                            st = t;
                            ms.push(m)
                        }
                        None => break,
                    }
                }
                ms.resize(w.len(), 0);
                ("0", ms)
            }
        };
        let ref_ok = if ans == "1" {
            reference::matches(&rx, &w, &markers)
        } else {
            reference::matches_bytes(&rx, &w, &ms).is_none()
        };
        if !ref_ok {
            ctx.oracle_fail(
                &lang_key(&tree, &tree_s),
                "the compiled automaton and the regular expression disagree on a word",
                json!({"spec": spec_string(s), "tree": tree_s, "word_bytes": w, "automaton_accepts": ans == "1",
                       "automaton_markers": markers}),
            );
        }
        case_if(ctx, emit, 
            if ans == "1" { "match-accepted" } else { "match-rejected" },
            !w.is_empty(),
            &format!("match {} | {}", tree_s, word_text(&w, &markers)),
            ans,
        );
    }
    if !light && emit && nontrivial && rng.gen_range(0..4) == 0 {
        serialization_cases(ctx, &automaton, &tree_s, rng, 2);
    }
    Some(Compiled {
        tree,
        tree_s,
        automaton,
    })
}

fn fixed_specs() -> Vec<Spec> {
    use Spec::*;
    let w = |s: &str| Word(s.as_bytes().to_vec());
    let bx = Box::new;
    vec![
        Epsilon,
        Union(vec![]),
        Any,
        AnyByte,
        w("hello"),
        // regex_test regex0
        SepCat(vec![w("hello"), w("test"), w("lmao!")], bx(BlanksStrict)),
        // regex2 / regex3 of the repository tests
        List(bx(MarkBytes(bx(AnyByte), b" \n\t".to_vec(), 1))),
        List(bx(Mark(bx(AnyByte), vec![(b'\t', 3), (b'\n', 2), (b' ', 1)]))),
        And(
            bx(SepCat(vec![w("hello"), w("test"), w("lmao!")], bx(BlanksStrict))),
            bx(List(bx(Mark(bx(AnyByte), vec![(b'\t', 3), (b'\n', 2), (b' ', 1)])))),
        ),
        // automaton_test regex5..regex8
        Minus(bx(Any), bx(List(bx(Or(bx(ByteFrom(vec![0])), bx(ByteFrom(vec![1]))))))),
        Minus(
            bx(List(bx(Minus(bx(AnyByte), bx(ByteFrom(vec![2])))))),
            bx(ByteFrom(vec![0])),
        ),
        SepList(
            bx(MarkBytes(bx(NonEmptyList(bx(ByteFrom(vec![1])))), vec![1], 1)),
            bx(ByteFrom(vec![2])),
        ),
        // complements of the two languages whose automata have no transition
        Neg(bx(Epsilon)),
        Neg(bx(Union(vec![]))),
        Minus(bx(List(bx(Lower))), bx(Epsilon)),
        Neg(bx(Neg(bx(w("ab"))))),
        // regression cases of the repaired defects (see /verif/findings/C19.json)
        List(bx(Any)),
        NonEmptyList(bx(Any)),
        Optional(bx(Any)),
        Cat(vec![w("a"), Any]),
        List(bx(Epsilon)),
        List(bx(w(""))),
        List(bx(Repeat(bx(Blanks), 0))),
        SepList(bx(Epsilon), bx(Epsilon)),
        Cat(vec![w("a"), Union(vec![Epsilon]), w("b")]),
        Cat(vec![w("a"), RepeatAtMost(bx(Digit), 0), w("b")]),
        Cat(vec![w("x"), And(bx(List(bx(w("a")))), bx(List(bx(w("b"))))), w("y")]),
        Cat(vec![NonEmptyList(bx(Epsilon)), w("b")]),
        Minus(bx(Any), bx(Epsilon)),
        And(bx(OneBlank), bx(Neg(bx(Inter(vec![Epsilon, ByteFrom(vec![])]))))),
        Neg(bx(List(bx(Epsilon)))),
        Neg(bx(And(bx(w("a")), bx(w("b"))))),
        // known finding: marking on top of a complement
        Mark(
            bx(Minus(bx(Or(bx(w("ab")), bx(w("cd")))), bx(w("ab")))),
            (0..=255u8).map(|x| (x, 1)).collect(),
        ),
        ByteFrom(b"aab".to_vec()),
        Cat(vec![ByteFrom(b"hello".to_vec()), w("x")]),
        // known finding: marker conflict in a dead part (empty factor in a concatenation)
        Cat(vec![
            Or(bx(ByteFrom(vec![b'a'])), bx(MarkBytes(bx(ByteFrom(vec![b'a'])), vec![b'a'], 1))),
            ByteFrom(vec![]),
        ]),
        Utf8,
        JsonString,
        RepeatAtMost(bx(Digit), 3),
        SpacedSepList(bx(NonEmptyList(bx(Digit))), bx(w(","))),
    ]
}

fn run_regex(ctx: &mut Ctx) {
    let mut rng = ctx.rng("regex-gen");
    let mut wrng = ctx.rng("regex-words");
    let n_random = if ctx.quick() {
        250
    } else if ctx.thorough() {
        4000
    } else {
        600
    };
    let nwords = if ctx.quick() { 4 } else { 8 };
    let only: Option<usize> = std::env::var("VERIF_C19_ONLY").ok().and_then(|x| x.parse().ok());
    // (a) structural corpus, first in every tier: every ordered pair / triple of combinator heads
    // with inner words of length 1, 2, 3 over {a,b,c} (see shapes.rs)
    if only.is_none() {
        for (name, s) in shapes::corpus(!ctx.quick()) {
            ctx.count("regex:corpus");
            ctx.count(&format!("regex:corpus-{}", name.split(':').next().unwrap()));
            one_spec(ctx, &s, &mut wrng, 0, true, "corpus");
        }
    }
    for s in fixed_specs() {
        if only.is_some() {
            break;
        }
        ctx.count("regex:fixed");
        one_spec(ctx, &s, &mut wrng, nwords, false, "fixed");
    }
    for i in 0..n_random {
        let depth = 1 + (i % 5);
        let s = gen(&mut rng, depth, true);
        if only.map(|o| o != i).unwrap_or(false) {
            continue;
        }
        if spec_size(&s) > 60 {
            ctx.count("regex:skipped-spec-too-large");
            continue;
        }
        if std::env::var("VERIF_C19_TRACE").is_ok() {
            eprintln!("index {i}");
        }
        one_spec(ctx, &s, &mut wrng, nwords, false, "random");
    }
    // (b) second random stream: concatenation-heavy, multi-byte words under star/list at every
    // depth (1..=6), alphabet {a,b,c}
    let mut rng2 = ctx.rng("regex-gen-weighted");
    let n_weighted = if ctx.quick() {
        400
    } else if ctx.thorough() {
        2000
    } else {
        1500
    };
    for i in 0..n_weighted {
        let depth = 1 + (i % 6);
        let s = shapes::gen_weighted(&mut rng2, depth.min(4), i % 3 != 0);
        if only.map(|o| o != 100000 + i).unwrap_or(false) {
            continue;
        }
        if spec_size(&s) > if ctx.quick() { 22 } else if ctx.thorough() { 30 } else { 50 } {
            ctx.count("regex:skipped-weighted-spec-too-large");
            continue;
        }
        if std::env::var("VERIF_C19_TRACE").is_ok() {
            eprintln!("windex {i}");
        }
        one_spec(ctx, &s, &mut wrng, nwords.min(3), false, "weighted");
    }
}

// ---------------------------------------------------------------------------------------------
// Serialization and the shipped parsing library
// ---------------------------------------------------------------------------------------------

/// Mirror of the (test-only) `Automaton::serialize` of `serialization.rs`.
fn serialize_automaton(a: &Automaton) -> Vec<u8> {
    let mut buf = vec![];
    let u = |buf: &mut Vec<u8>, x: usize| buf.extend((x as u64).to_le_bytes());
    u(&mut buf, a.nb_states);
    u(&mut buf, a.initial_state);
    let mut finals: Vec<usize> = a.final_states.iter().copied().collect();
    finals.sort();
    u(&mut buf, finals.len());
    finals.iter().for_each(|f| u(&mut buf, *f));
    let mut tr: Vec<((usize, u8), (usize, usize))> =
        a.transitions.iter().map(|(k, v)| (*k, *v)).collect();
    tr.sort_by_key(|e| e.0);
    u(&mut buf, tr.len());
    for ((s, b), (t, m)) in tr {
        u(&mut buf, s);
        buf.push(b);
        u(&mut buf, t);
        u(&mut buf, m);
    }
    buf
}

fn hex(b: &[u8]) -> String {
    if b.is_empty() {
        "-".into()
    } else {
        b.iter().map(|x| format!("{x:02x}")).collect()
    }
}

fn same_automaton(a: &Automaton, b: &Automaton) -> bool {
    a.nb_states == b.nb_states
        && a.initial_state == b.initial_state
        && a.final_states == b.final_states
        && a.transitions == b.transitions
}

/// Round trip through the REAL deserializer, byte-level comparison with the Lean model of the
/// format, and rejection of truncated buffers.
fn serialization_cases(ctx: &mut Ctx, a: &Automaton, label: &str, rng: &mut ChaCha8Rng, ntrunc: usize) {
    let bytes = serialize_automaton(a);
    let text = dfa_text(a);
    ctx.case("serial", a.nb_states > 1, &format!("serial {text}"), &hex(&bytes));
    match catch(|| verif_deserialize_automaton(&bytes)) {
        Ok(Ok((back, rest))) => {
            ctx.case(
                "deser",
                a.nb_states > 1,
                &format!("deser {}", hex(&bytes)),
                &format!("ok {} rest={rest}", dfa_text(&back)),
            );
            if !same_automaton(a, &back) || rest != 0 {
                ctx.oracle_fail(
                    &format!("serialization-roundtrip:{label}"),
                    "an automaton does not survive the serialization round trip",
                    json!({"automaton": text, "bytes": hex(&bytes), "back": dfa_text(&back), "rest": rest}),
                );
            }
        }
        other => ctx.oracle_fail(
            &format!("serialization-roundtrip:{label}"),
            "the deserializer rejects (or panics on) a serialized automaton",
            json!({"automaton": text, "bytes": hex(&bytes), "result": format!("{:?}", other.map(|r| r.map(|x| x.1)))}),
        ),
    }
    // with trailing bytes: the rest is reported, the automaton is the same
    let mut longer = bytes.clone();
    longer.extend([1u8, 2, 3]);
    if let Ok(Ok((back, rest))) = catch(|| verif_deserialize_automaton(&longer)) {
        ctx.case(
            "deser-trailing",
            true,
            &format!("deser {}", hex(&longer)),
            &format!("ok {} rest={rest}", dfa_text(&back)),
        );
    }
    // EVERY truncation of a small automaton (first 6 small automata of the run): always an
    // error, never a panic, never an automaton
    static FULL_SWEEPS: std::sync::atomic::AtomicUsize = std::sync::atomic::AtomicUsize::new(0);
    let sweep = bytes.len() <= 420
        && a.nb_states > 1
        && FULL_SWEEPS.fetch_add(1, std::sync::atomic::Ordering::Relaxed) < 6;
    if sweep {
        for cut in 0..bytes.len() {
            let r = catch(|| verif_deserialize_automaton(&bytes[..cut]));
            let ans = match &r {
                Ok(Ok(_)) => "ok".to_string(),
                Ok(Err(_)) => "error".to_string(),
                Err(p) => format!("panic {p}"),
            };
            if ans != "error" {
                ctx.oracle_fail(
                    &format!("serialization-truncated:{label}:{cut}"),
                    "a truncated serialized automaton is not rejected with an error",
                    json!({"bytes": hex(&bytes[..cut]), "result": ans}),
                );
            }
            ctx.case("deser-truncated-sweep", true, &format!("deser {}", hex(&bytes[..cut])), &ans);
        }
        // the 16 bytes of the two scalar header fields (nb_states, initial_state) x 256 values:
        // decoded without panic into the automaton the bytes say (the format has no checksum and
        // does not validate state numbers). The two length fields are decreased and increased.
        let nfinals = a.final_states.len();
        let mut mutants: Vec<Vec<u8>> = vec![];
        static HEADER_SWEEPS: std::sync::atomic::AtomicUsize = std::sync::atomic::AtomicUsize::new(0);
        let header = HEADER_SWEEPS.fetch_add(1, std::sync::atomic::Ordering::Relaxed) < 2;
        for pos in 0..(if header { 16usize } else { 0 }) {
            for v in 0..=255u8 {
                if v != bytes[pos] {
                    let mut m = bytes.clone();
                    m[pos] = v;
                    mutants.push(m);
                }
            }
        }
        for (pos, cur) in [(16usize, nfinals), (24 + 8 * nfinals, a.transitions.len())] {
            for v in 0..cur.min(256) {
                let mut m = bytes.clone();
                m[pos] = v as u8;
                mutants.push(m);
            }
            // INCREASED / misaligned lengths (since /repo e0a0bca the pre-allocation is bounded
            // by the remaining input, so these are errors or re-readings of the following bytes,
            // exactly as the model says; never a panic or an abort): low byte +1, +2, .., 255 and
            // every higher byte of the 8-byte field set to 1, 0x7f, 0x80, 0xff (2^63 included)
            for v in (cur + 1)..=255usize {
                if v <= cur + 3 || v % 32 == 31 {
                    let mut m = bytes.clone();
                    m[pos] = v as u8;
                    mutants.push(m);
                }
            }
            for hi in 1..8usize {
                for v in [1u8, 0x7f, 0x80, 0xff] {
                    let mut m = bytes.clone();
                    m[pos + hi] = v;
                    mutants.push(m);
                }
            }
            let mut m = bytes.clone();
            for hi in 0..8usize {
                m[pos + hi] = 0xff;
            }
            mutants.push(m);
        }
        for m in mutants {
            let nb = u64::from_le_bytes(m[..8].try_into().unwrap());
            if nb > 1000 && nb <= 100000 {
                // the model would allocate nb * 256 table entries
                continue;
            }
            let r = catch(|| verif_deserialize_automaton(&m));
            let ans = match &r {
                Ok(Ok((back, rest))) => {
                    let n = back.nb_states;
                    if n > 100000
                        || back.final_states.iter().any(|f| *f >= n)
                        || back.transitions.iter().any(|((s, _), (t, _))| *s >= n || *t >= n)
                    {
                        "ok invalid-states".to_string()
                    } else {
                        format!("ok {} rest={rest}", dfa_text(back))
                    }
                }
                Ok(Err(_)) => "error".to_string(),
                Err(p) => format!("panic {p}"),
            };
            if ans.starts_with("panic") {
                ctx.oracle_fail(
                    &format!("serialization-corrupted-panic:{label}"),
                    "the deserializer panics on a corrupted serialized automaton",
                    json!({"bytes": hex(&m), "result": ans}),
                );
            }
            ctx.case("deser-corrupted-header", true, &format!("deser {}", hex(&m)), &ans);
        }
    }
    // truncations: always an error
    for _ in 0..ntrunc {
        let cut = rng.gen_range(0..bytes.len());
        let r = catch(|| verif_deserialize_automaton(&bytes[..cut]));
        let ans = match &r {
            Ok(Ok(_)) => "ok".to_string(),
            Ok(Err(_)) => "error".to_string(),
            Err(p) => format!("panic {p}"),
        };
        if ans != "error" {
            ctx.oracle_fail(
                &format!("serialization-truncated:{label}:{cut}"),
                "a truncated serialized automaton is not rejected with an error",
                json!({"bytes": hex(&bytes[..cut]), "result": ans}),
            );
        }
        if cut <= 4000 {
            ctx.case("deser-truncated", true, &format!("deser {}", hex(&bytes[..cut])), &ans);
        }
    }
}

/// Shipped serialized automata: equal (for all words) to the fresh compilation of their
/// specification; canonical bytes; `spec_library()` returns what the bytes say.
fn run_library(ctx: &mut Ctx) {
    let mut rng = ctx.rng("library");
    let lib = midnight_circuits::parsing::spec_library();
    for (name, spec, bytes) in verif_spec_library_data() {
        ctx.count("library:entries");
        let (shipped, rest) = match catch(|| verif_deserialize_automaton(bytes)) {
            Ok(Ok(x)) => x,
            other => {
                ctx.oracle_fail(
                    &format!("library-deserialize:{name}"),
                    "a shipped serialized automaton cannot be deserialized",
                    json!({"name": name, "result": format!("{:?}", other.map(|r| r.map(|x| x.1)))}),
                );
                continue;
            }
        };
        let public = lib.iter().find(|(k, _)| format!("{:?}", k) == name).map(|(_, v)| v);
        if rest != 0 || public.map(|p| !same_automaton(p, &shipped)).unwrap_or(true) {
            ctx.oracle_fail(
                &format!("library-load:{name}"),
                "spec_library() does not return the automaton encoded by the shipped bytes",
                json!({"name": name, "rest": rest}),
            );
        }
        let t0 = std::time::Instant::now();
        let fresh = match catch(|| spec.to_automaton()) {
            Ok(a) => a,
            Err(p) => {
                ctx.oracle_fail(
                    &format!("library-compile:{name}"),
                    "the specification of a shipped automaton does not compile",
                    json!({"name": name, "panic": p}),
                );
                continue;
            }
        };
        ctx.set_extra(
            &format!("library:{name}"),
            json!({"states": shipped.nb_states, "transitions": shipped.transitions.len(),
                   "bytes": bytes.len(), "fresh_states": fresh.nb_states,
                   "compile_ms_bucket": if t0.elapsed().as_millis() < 60000 { "<60s" } else { ">=60s" }}),
        );
        // (ii) shipped = compilation of the specification, for all words
        ctx.case(
            "bisim-shipped-fresh",
            true,
            &format!("bisim {} | {}", dfa_text(&shipped), dfa_text(&fresh)),
            "equiv",
        );
        if !same_automaton(&shipped, &fresh) {
            ctx.count("library:shipped-not-identical-to-fresh");
            // not identical: look for a concrete word on which they differ
            for _ in 0..2000 {
                for a in [&shipped, &fresh] {
                    if let Some(w) = sample_accepted(a, &mut rng, 300) {
                        if accepts(&shipped, &w) != accepts(&fresh, &w) {
                            ctx.oracle_fail(
                                &format!("library-shipped-vs-spec:{name}"),
                                "a shipped automaton differs from the compilation of its specification",
                                json!({"name": name, "word": w, "shipped": accepts(&shipped, &w), "fresh": accepts(&fresh, &w)}),
                            );
                        }
                    }
                }
            }
        } else {
            ctx.count("library:shipped-identical-to-fresh");
        }
        // canonical bytes and round trip
        let again = serialize_automaton(&shipped);
        if again != bytes {
            ctx.oracle_fail(
                &format!("library-bytes-canonical:{name}"),
                "re-serializing a shipped automaton does not give the shipped bytes",
                json!({"name": name, "len": bytes.len(), "again_len": again.len()}),
            );
        }
        serialization_cases(ctx, &shipped, &format!("library:{name}"), &mut rng, if ctx.quick() { 6 } else { 40 });
        // (i) shipped automaton against the specification itself, all words
        let tree = spec.verif_dump();
        ctx.set_extra(&format!("library:{name}:spec-tree-size"), json!(tree_size(&tree)));
        // (about 12 minutes of checker run for the Jwt specification: thorough tier only)
        if ctx.thorough() {
            ctx.case(
                "equiv-shipped-spec",
                true,
                &format!("equiv {} | {}", tree_string(&tree), dfa_text(&shipped)),
                "equiv",
            );
        }
        // sampled words of the shipped automaton against the specification
        let rx = reference::from_tree(&tree);
        let n = if ctx.quick() { 6 } else { 20 };
        for _ in 0..n {
            if let Some(w) = sample_accepted(&shipped, &mut rng, 600) {
                let ms = accepts(&shipped, &w).unwrap();
                ctx.case(
                    "match-shipped",
                    true,
                    &format!("match {} | {}", tree_string(&tree), word_text(&w, &ms)),
                    "1",
                );
                if !reference::matches(&rx, &w, &ms) {
                    ctx.oracle_fail(
                        &format!("library-shipped-vs-spec:{name}"),
                        "a shipped automaton accepts a word that its specification rejects",
                        json!({"name": name, "word": w, "markers": ms}),
                    );
                }
            }
        }
    }
}

// ---------------------------------------------------------------------------------------------
// In-circuit automaton parser (AutomatonChip::parse under MockProver)
// ---------------------------------------------------------------------------------------------

fn k_for(a: &Automaton, input_len: usize) -> u32 {
    let rows = (a.transitions.len() + a.final_states.len() + 1).max(300).max(4 * input_len + 64);
    let mut k = 9;
    while (1usize << k) < rows + 64 {
        k += 1;
    }
    k
}

fn parse_cases(ctx: &mut Ctx, a: &Automaton, label: &str, rng: &mut ChaCha8Rng, nwords: usize, max_len: usize) {
    use circuit::{run_parse, Verdict};
    let text = dfa_text(a);
    let mut words: Vec<Vec<u8>> = vec![vec![]];
    for i in 0..nwords {
        if let Some(w) = sample_accepted(a, rng, if i % 3 == 0 { max_len } else { max_len / 3 }) {
            let mut m = w.clone();
            words.push(w);
            if !m.is_empty() {
                match rng.gen_range(0..4) {
                    0 => {
                        let i = rng.gen_range(0..m.len());
                        m[i] = m[i].wrapping_add(1 + rng.gen_range(0..3));
                    }
                    1 => {
                        m.pop();
                    }
                    2 => {
                        let i = rng.gen_range(0..m.len());
                        m.remove(i);
                    }
                    _ => m.push(POOL[rng.gen_range(0..POOL.len())]),
                }
                words.push(m);
            }
        }
    }
    words.sort();
    words.dedup();
    let mut table_done = false;
    let mut forged = 0usize;
    let mut forged_mid = 0usize;
    for w in words {
        let k = k_for(a, w.len());
        let expected = accepts(a, &w);
        let (v, tr) = circuit::run_parse_traced(a, &w, k);
        // structure of the real circuit: lookup, loaded table (once per automaton), rows and copy
        // constraints of the parsing region (every word, accepted or not final)
        match tr {
            Some(Ok(t)) => {
                if !table_done {
                    table_done = true;
                    ctx.case("parse-lookup", true, &format!("plookup {}", a.nb_states), &t.lookup);
                    ctx.case(
                        "parse-table",
                        true,
                        &format!("ptable {text}"),
                        &format!("{} rows {} pad 0.0.0.0", t.table.len(), t.table.join(" ")),
                    );
                    if !t.padding.starts_with("0.0.0.0x") {
                        ctx.oracle_fail(
                            &format!("parse-table-padding:{label}"),
                            "the unused rows of the automaton lookup table are not the dummy transition (0,0,0,0)",
                            json!({"automaton": text, "padding": t.padding}),
                        );
                    }
                }
                ctx.case(
                    if expected.is_some() { "parse-trace-accepted" } else { "parse-trace-not-final" },
                    true,
                    &format!("ptrace {text} | {}", hex(&w)),
                    &t.rows.join(" "),
                );
            }
            Some(Err(e)) => {
                ctx.case("parse-trace-unreadable", true, &format!("ptrace {text} | {}", hex(&w)), &format!("unreadable {e}"));
            }
            None => {}
        }
        let ans = match &v {
            Verdict::Ok(ms) => format!("ok {}", mzkh::join(ms)),
            Verdict::Stuck => {
                ctx.count("parse:prover-stuck");
                "reject".to_string()
            }
            Verdict::Unsat => {
                ctx.count("parse:unsatisfied");
                "reject".to_string()
            }
            Verdict::Panic(p) => format!("panic {p}"),
        };
        ctx.count(&format!("parse:len-{}", match w.len() { 0 => "0", 1..=8 => "1-8", 9..=40 => "9-40", _ => "41+" }));
        ctx.case(
            if expected.is_some() { "parse-accepted" } else { "parse-rejected" },
            !w.is_empty(),
            &format!("parse {text} | {}", hex(&w)),
            &ans,
        );
        // the property itself: satisfiable exactly for accepted inputs, with exactly the markers
        let ok = match (&v, &expected) {
            (Verdict::Ok(ms), Some(e)) => ms.iter().map(|x| *x as usize).collect::<Vec<_>>() == *e,
            (Verdict::Stuck | Verdict::Unsat, None) => true,
            _ => false,
        };
        if !ok {
            ctx.oracle_fail(
                &format!("parse-circuit:{label}:{}", hex(&w)),
                "AutomatonChip::parse is not satisfiable exactly for the accepted inputs with their markers",
                json!({"automaton": text, "input": w, "expected": expected, "circuit": ans}),
            );
        }
        // forged witness: a word on which the run from the initial state ends in a non-final
        // state, but the run from ANOTHER state accepts: the prover writes that other run into
        // the (free) state and output cells and overwrites the (pinned) first state cell. The
        // copy constraint of the first state cell must make the circuit unsatisfied.
        if expected.is_none() && matches!(v, Verdict::Unsat) && forged < 3 {
            let mut starts: Vec<usize> = (0..a.nb_states).filter(|s| *s != a.initial_state).collect();
            starts.truncate(64);
            for s0 in starts {
                let mut st = s0;
                let mut states = vec![(s0 + 1) as u64];
                let mut outs = vec![];
                let mut ok = true;
                for b in &w {
                    match a.transitions.get(&(st, *b)) {
                        Some(&(t, m)) => {
                            st = t;
                            states.push((t + 1) as u64);
                            outs.push(m as u64);
                        }
                        None => {
                            ok = false;
                            break;
                        }
                    }
                }
                if !ok || !a.final_states.contains(&st) {
                    continue;
                }
                forged += 1;
                ctx.count("parse:forged-initial-state");
                if let Some(true) = circuit::run_parse_forged(a, &w, k, &states, &outs) {
                    ctx.oracle_fail(
                        &format!("parse-circuit-forged-initial-state:{label}:{}", hex(&w)),
                        "AutomatonChip::parse accepts a forged witness that starts the run in a state other than the initial state",
                        json!({"automaton": text, "input": w, "forged_states_shifted": states, "forged_outputs": outs}),
                    );
                }
                break;
            }
        }
        // forged witness on an accepted word: one intermediate state cell replaced by another
        // state: some lookup must fail
        if let (Some(e), true) = (&expected, w.len() >= 2 && forged_mid < 2 && a.nb_states >= 2) {
            forged_mid += 1;
            if let Some((_, _)) = run(a, &w) {
                let mut st = a.initial_state;
                let mut states = vec![(st + 1) as u64];
                for b in &w {
                    st = a.transitions[&(st, *b)].0;
                    states.push((st + 1) as u64);
                }
                let i = 1 + rng.gen_range(0..w.len() - 1);
                let other = (0..a.nb_states).map(|s| (s + 1) as u64).find(|s| *s != states[i]).unwrap();
                states[i] = other;
                let outs: Vec<u64> = e.iter().map(|x| *x as u64).collect();
                ctx.count("parse:forged-middle-state");
                // satisfiable only if the other state happens to have the same transitions
                let same = a.transitions.get(&((other - 1) as usize, w[i])).map(|x| (x.0 + 1) as u64, ) == Some(states[i + 1])
                    && a.transitions.get(&((other - 1) as usize, w[i])).map(|x| x.1 as u64) == Some(outs[i])
                    && a.transitions.get(&((states[i - 1] - 1) as usize, w[i - 1])).map(|x| (x.0 + 1) as u64) == Some(other);
                if let Some(true) = circuit::run_parse_forged(a, &w, k, &states, &outs) {
                    if !same {
                        ctx.oracle_fail(
                            &format!("parse-circuit-forged-middle-state:{label}:{}", hex(&w)),
                            "AutomatonChip::parse accepts a forged witness with a wrong intermediate state",
                            json!({"automaton": text, "input": w, "forged_states_shifted": states, "row": i}),
                        );
                    }
                }
            }
        }
        // claimed markers: the right ones are accepted, a wrong one is refused
        if let Some(e) = expected {
            if !e.is_empty() {
                let mut wrong: Vec<u64> = e.iter().map(|x| *x as u64).collect();
                let i = rng.gen_range(0..wrong.len());
                wrong[i] += 1;
                for (claim, want) in [(e.iter().map(|x| *x as u64).collect::<Vec<u64>>(), true), (wrong, false)] {
                    let v = run_parse(a, &w, Some(claim.clone()), k);
                    let got = matches!(v, Verdict::Ok(_));
                    let marks: Vec<usize> = claim.iter().map(|x| *x as usize).collect();
                    ctx.case(
                        if want { "parse-claim-right" } else { "parse-claim-wrong" },
                        true,
                        &format!("parsewith {text} | {}", word_text(&w, &marks)),
                        if got { "1" } else { "0" },
                    );
                    if got != want {
                        ctx.oracle_fail(
                            &format!("parse-circuit-markers:{label}:{}", hex(&w)),
                            "AutomatonChip::parse accepts a wrong marker sequence (or refuses the right one)",
                            json!({"automaton": text, "input": w, "claimed": claim, "accepted": got}),
                        );
                    }
                }
            }
        }
    }
}

fn run_parse_circuit(ctx: &mut Ctx) {
    use Spec::*;
    let mut rng = ctx.rng("parse-circuit");
    let bx = Box::new;
    let w = |s: &str| Word(s.as_bytes().to_vec());
    // the two hard-coded examples of automaton_chip.rs (tests) and a marked list
    let hellos = SepNonEmptyList(bx(w("hello")), bx(BlanksStrict));
    let worlds = SepNonEmptyList(bx(w("world")), bx(Cat(vec![Blanks, w(","), Blanks])));
    let example0 = SepCat(
        vec![
            Terminated(bx(hellos), bx(OneBlank)),
            Delimited(bx(Delimited(bx(worlds), bx(Blanks), bx(Blanks))), bx(w("(")), bx(w(")"))),
            Repeat(bx(w("!")), 5),
            List(bx(Minus(bx(AnyByte), bx(w("!"))))),
        ],
        bx(Blanks),
    );
    let mut tbl: Vec<(u8, usize)> = (0..=255u8)
        .filter(|b| !b"h\n\t l".contains(b))
        .map(|b| (b, 1))
        .collect();
    tbl.push((b'l', 2));
    tbl.sort();
    let marker_regex = List(bx(Mark(bx(AnyByte), tbl)));
    let holy = Terminated(bx(w("holy")), bx(List(bx(w("y")))));
    let example1 = And(
        bx(SepCat(vec![holy, w("hell"), NonEmptyList(bx(w("!")))], bx(BlanksStrict))),
        bx(marker_regex),
    );
    let marked_list = SepList(
        bx(MarkBytes(bx(NonEmptyList(bx(Digit))), (b'0'..=b'9').collect(), 3)),
        bx(w(",")),
    );
    let mut specs = vec![("example0", example0), ("example1", example1), ("marked-list", marked_list), ("json-string", JsonString)];
    let n_random = if ctx.quick() {
        4
    } else if ctx.search() {
        10
    } else {
        30
    };
    let mut tries = 0;
    let mut grng = ctx.rng("parse-circuit-gen");
    let mut extra = vec![];
    while extra.len() < n_random && tries < 2000 {
        tries += 1;
        let s = gen(&mut grng, 3, true);
        if spec_size(&s) > 30 {
            continue;
        }
        if let Ok(r) = catch(|| build(&s)) {
            let t = r.verif_dump();
            if has_marked_complement(&t) {
                continue;
            }
            if let Ok(a) = catch(|| r.to_automaton()) {
                if a.nb_states >= 3 && a.nb_states <= 40 {
                    extra.push(s);
                }
            }
        }
    }
    let nwords = if ctx.quick() { 5 } else { 14 };
    for (name, s) in specs.drain(..) {
        let a = build(&s).to_automaton();
        parse_cases(ctx, &a, name, &mut rng, nwords, 40);
    }
    for (i, s) in extra.iter().enumerate() {
        let a = build(s).to_automaton();
        parse_cases(ctx, &a, &format!("random{i}"), &mut rng, nwords, 40);
    }
    // the shipped Jwt automaton
    for (name, _, bytes) in verif_spec_library_data() {
        if let Ok(Ok((a, _))) = catch(|| verif_deserialize_automaton(bytes)) {
            parse_cases(ctx, &a, &format!("library:{name}"), &mut rng, if ctx.quick() { 1 } else { 4 }, 700);
        }
    }
}

// ---------------------------------------------------------------------------------------------
// Base64 (Base64Chip under MockProver)
// ---------------------------------------------------------------------------------------------

const B64_STD: &[u8; 64] = b"ABCDEFGHIJKLMNOPQRSTUVWXYZabcdefghijklmnopqrstuvwxyz0123456789+/";

/// RFC 4648 encoding (independent reference).
fn b64_encode(bytes: &[u8], pad: bool, url: bool) -> Vec<u8> {
    let mut out = vec![];
    for c in bytes.chunks(3) {
        let t = ((c[0] as u32) << 16) | ((*c.get(1).unwrap_or(&0) as u32) << 8) | (*c.get(2).unwrap_or(&0) as u32);
        let chars = [(t >> 18) & 63, (t >> 12) & 63, (t >> 6) & 63, t & 63];
        for (i, v) in chars.iter().enumerate() {
            if i <= c.len() {
                out.push(B64_STD[*v as usize]);
            } else if pad {
                out.push(b'=');
            }
        }
    }
    if url {
        for c in out.iter_mut() {
            if *c == b'+' {
                *c = b'-'
            } else if *c == b'/' {
                *c = b'_'
            }
        }
    }
    out
}

fn b64_case(ctx: &mut Ctx, kind: &str, input: &[u8], mode: circuit::B64Mode, expect: Option<Option<Vec<u8>>>) {
    use circuit::{run_b64_traced, B64Verdict};
    let (v, tr) = run_b64_traced(input, mode, 13);
    let ans = match &v {
        B64Verdict::Ok(out) => format!("ok {}", hex(out)),
        B64Verdict::Stuck => {
            ctx.count("b64:prover-stuck");
            "unsat".to_string()
        }
        B64Verdict::Unsat => {
            ctx.count("b64:unsatisfied");
            "unsat".to_string()
        }
        B64Verdict::Panic(p) => {
            if p.contains("Valid base64 character") {
                ctx.count("b64:prover-cannot-decode-char");
                "unsat".to_string()
            } else {
                ctx.count("b64:panic-length");
                "panic".to_string()
            }
        }
    };
    let m = format!(
        "{} {}",
        if mode.url { "url" } else { "std" },
        if mode.var { "var" } else if mode.padded { "pad" } else { "nopad" }
    );
    ctx.count(&format!("b64:{kind}:{m}"));
    ctx.case(&format!("b64-{kind}"), !input.is_empty(), &format!("b64 {m} {}", hex(input)), &ans);
    // structure of the real circuit: lookup expression and loaded table (once), and the enabled
    // rows of the "Base64 chunk" regions (characters after url translation / padding
    // normalisation with their copy constraints, 12-bit values) of every case that synthesises
    match tr {
        Some(Ok(t)) => {
            static ONCE: std::sync::atomic::AtomicBool = std::sync::atomic::AtomicBool::new(false);
            if !ONCE.swap(true, std::sync::atomic::Ordering::Relaxed) {
                ctx.case("b64-lookup", true, "b64lookup x", &t.lookup);
                ctx.case(
                    "b64-table",
                    true,
                    "b64table x",
                    &format!("{} rows {} pad {}", t.table.len(), t.table.join(" "), t.padding.split('x').next().unwrap_or("")),
                );
            }
            let rows: Vec<String> = t.rows.chunks(2).map(|c| c.join(" ")).collect();
            ctx.case(
                "b64-rows",
                !input.is_empty(),
                &format!("b64rows {m} {}", hex(input)),
                &(if rows.is_empty() { "-".to_string() } else { rows.join(" ") }),
            );
        }
        Some(Err(e)) => ctx.case("b64-rows-unreadable", true, &format!("b64rows {m} {}", hex(input)), &format!("unreadable {e}")),
        None => {}
    }
    // the property itself
    match expect {
        Some(Some(bytes)) => {
            // well-formed: satisfiable, output = bytes + zero fill
            let mut want = bytes.clone();
            while want.len() % 3 != 0 {
                want.push(0);
            }
            if ans != format!("ok {}", hex(&want)) {
                ctx.oracle_fail(
                    &format!("b64-wellformed:{m}:{}", hex(input)),
                    "in-circuit base64 decoding of a well-formed input differs from the standard decoding",
                    json!({"mode": m, "input": hex(input), "expected": hex(&want), "circuit": ans}),
                );
            }
        }
        Some(None) => {
            if ans.starts_with("ok") {
                ctx.oracle_fail(
                    &format!("b64-malformed:{m}:{}", hex(input)),
                    "in-circuit base64 decoding is satisfiable on a malformed input",
                    json!({"mode": m, "input": hex(input), "circuit": ans}),
                );
            }
        }
        None => {}
    }
}

fn run_base64(ctx: &mut Ctx) {
    use circuit::B64Mode;
    let mut rng = ctx.rng("base64");
    let max_bytes = 48usize;
    let lens: Vec<usize> = (0..=max_bytes).collect();
    for &n in &lens {
        let reps = if ctx.quick() { 1 } else { 2 };
        for rep in 0..reps {
            let bytes: Vec<u8> = (0..n)
                .map(|i| match (rep, n % 5) {
                    (0, 0) => 0xff,
                    (0, 1) => 0x00,
                    // 0xfb 0xef 0xbe.. produce '+', '/', '-' and '_' characters
                    (0, 2) => [0xfb, 0xef, 0xbe, 0xff, 0xfe][i % 5],
                    _ => rng.gen(),
                })
                .collect();
            for url in [false, true] {
                for padded in [true, false] {
                    let enc = b64_encode(&bytes, padded, url);
                    b64_case(ctx, "wellformed", &enc, B64Mode { padded, url, var: false }, Some(Some(bytes.clone())));
                }
                // a standard-alphabet input through the url decoder, and conversely
                let enc_std = b64_encode(&bytes, true, false);
                let enc_url = b64_encode(&bytes, true, true);
                if url && enc_std != enc_url {
                    b64_case(ctx, "std-chars-in-url-mode", &enc_std, B64Mode { padded: true, url: true, var: false }, None);
                    b64_case(ctx, "url-chars-in-std-mode", &enc_url, B64Mode { padded: true, url: false, var: false }, Some(None));
                }
                // variable length (capacity 64)
                let enc = b64_encode(&bytes, true, url);
                if enc.len() <= circuit::VAR_M && (ctx.thorough() || n % 3 != 2 || n < 8) {
                    b64_case(ctx, "wellformed", &enc, B64Mode { padded: true, url, var: true }, Some(Some(bytes.clone())));
                }
            }
        }
    }
    // every input length 0..64 in unpadded mode (random alphabet characters), and every length
    // in padded mode (the lengths that are not multiples of 4 make the decoder panic)
    for n in 0..=64usize {
        let input: Vec<u8> = (0..n).map(|_| B64_STD[rng.gen_range(0..64)]).collect();
        b64_case(ctx, "anylength", &input, B64Mode { padded: false, url: false, var: false }, None);
        if n % 4 != 0 && (ctx.thorough() || n < 12) {
            b64_case(ctx, "badlength", &input, B64Mode { padded: true, url: false, var: false }, None);
            b64_case(ctx, "badlength", &input, B64Mode { padded: true, url: false, var: true }, None);
        }
    }
    // every padding form on the last chunk
    for (tail, wellformed) in [
        (&b"QUJD"[..], true),
        (b"QUI=", true),
        (b"QQ==", true),
        (b"QR==", true), // non-canonical trailing bits: accepted by the circuit (documented leniency)
        (b"QUJ=", true),
        (b"Q===", false),
        (b"====", false),
        (b"=QQQ", false),
        (b"Q=QQ", false),
        (b"QQ=Q", false),
        (b"QQ=A", false),
        (b"QQQ=", true),
        (b"=", false),
        (b"Q=", false),
    ] {
        for prefix in [&b""[..], b"QUJD", b"QUJDQUJD"] {
            let mut input = prefix.to_vec();
            input.extend(tail);
            for url in [false, true] {
                for padded in [true, false] {
                    if padded && input.len() % 4 != 0 {
                        continue;
                    }
                    let expect = if !wellformed || !padded && tail.contains(&b'=') { Some(None) } else { None };
                    b64_case(ctx, "padding-form", &input, B64Mode { padded, url, var: false }, expect);
                }
                if input.len() % 4 == 0 {
                    let expect = if !wellformed { Some(None) } else { None };
                    b64_case(ctx, "padding-form", &input, B64Mode { padded: true, url, var: true }, expect);
                }
            }
        }
    }
    // '=' in a chunk that is not the last one
    for input in [&b"QQ==QUJD"[..], b"QUI=QUJD", b"QUJDQQ==QUJD"] {
        for var in [false, true] {
            b64_case(ctx, "early-padding", input, B64Mode { padded: true, url: false, var }, Some(None));
        }
    }
    // single-character corruptions
    let corrupt_lens: Vec<usize> = if ctx.quick() { vec![1, 2, 3, 7, 12] } else { (1..=24).chain([31, 32, 33, 47, 48]).collect() };
    for &n in &corrupt_lens {
        let bytes: Vec<u8> = (0..n).map(|_| rng.gen()).collect();
        for url in [false, true] {
            let enc = b64_encode(&bytes, true, url);
            let positions: Vec<usize> = if ctx.quick() {
                let mut p = vec![0, enc.len() - 1, enc.len() - 2, enc.len() / 2];
                p.sort();
                p.dedup();
                p
            } else {
                (0..enc.len()).collect()
            };
            for &i in &positions {
                let bad: Vec<u8> = if ctx.quick() { vec![b'!', 0xff] } else { vec![b'!', 0x00, 0xff, b'.', b'@', b'[', b'`', b'{', b':'] };
                for c in bad {
                    let mut input = enc.clone();
                    input[i] = c;
                    for (padded, var) in [(true, false), (false, false), (true, true)] {
                        if var && (input.len() > circuit::VAR_M || !(ctx.thorough() || i % 2 == 0)) {
                            continue;
                        }
                        b64_case(ctx, "corrupted", &input, B64Mode { padded, url, var }, Some(None));
                    }
                }
                // a misplaced '='
                if i + 2 < enc.len() {
                    let mut input = enc.clone();
                    input[i] = b'=';
                    b64_case(ctx, "corrupted-pad", &input, B64Mode { padded: true, url, var: false }, Some(None));
                }
                // another alphabet character: still satisfiable, different output (model decides)
                let mut input = enc.clone();
                if input[i] != b'=' {
                    input[i] = if input[i] == b'B' { b'C' } else { b'B' };
                    b64_case(ctx, "substituted", &input, B64Mode { padded: true, url, var: false }, None);
                }
            }
        }
    }
}

fn main() {
    let mut ctx = Ctx::from_args("C19");
    run_regex(&mut ctx);
    run_library(&mut ctx);
    // the in-circuit parser also in the search tier (forged witnesses, verdicts); base64 sweeps
    // are identical in every tier and are not repeated by the search
    run_parse_circuit(&mut ctx);
    coll::run_collections(&mut ctx);
    data::run_data_types(&mut ctx);
    if !ctx.search() {
        run_base64(&mut ctx);
    }
    ctx.finish();
}
