//! Structural corpus of regular expressions (run first in every tier), a generator weighted
//! towards iterated multi-byte words inside concatenations, and the (head of left factor x head
//! of right factor) distribution of the `Concat` nodes of the dumped internal trees.
//!
//! Why: `RawAutomaton::concat` / `weak_repeat` / `make_optional` (automaton.rs) take different
//! branches according to (a) whether the final states of the left factor have successors and
//! (b) whether the initial state of the right factor is re-entered (`loop_on_initial`). The two
//! notions "direct self loop" and "some transition points to the initial state" only differ for
//! the iteration of a word of >= 2 bytes. The corpus therefore enumerates every ordered pair
//! (and triple) of combinator heads with inner words of length 1, 2 and 3 over {a, b, c}.

use midnight_circuits::parsing::regex::VerifRegexTree;
use rand::Rng;
use rand_chacha::ChaCha8Rng;

use crate::spec::Spec::{self, *};

pub const HEADS: &[&str] = &[
    "byte",
    "word",
    "class",
    "star",
    "plus",
    "optional",
    "repeat",
    "repeat_at_most",
    "union",
    "inter",
    "minus",
    "neg",
    "sep_list",
    "spaced_sep_list",
    "delimited",
    "mark",
    "mark_bytes",
];

const ALPHA: &[u8] = b"abc";

/// The word of length `len` over {a,b,c} starting at letter number `rot`.
pub fn word(len: usize, rot: usize) -> Vec<u8> {
    (0..len).map(|i| ALPHA[(rot + i) % 3]).collect()
}

/// One instance of the combinator head `head` around the word of length `len` (1..=3) that
/// starts at letter `rot`.
pub fn head(head: &str, len: usize, rot: usize) -> Spec {
    let bx = Box::new;
    let w = Word(word(len, rot));
    let other = Word(word(len, rot + 1));
    let sep = Word(vec![ALPHA[(rot + len) % 3]]);
    match head {
        "byte" => ByteFrom(vec![ALPHA[rot % 3]]),
        "word" => w,
        "class" => ByteFrom(vec![ALPHA[rot % 3], ALPHA[(rot + 1) % 3]]),
        "star" => List(bx(w)),
        "plus" => NonEmptyList(bx(w)),
        "optional" => Optional(bx(w)),
        "repeat" => Repeat(bx(w), 2),
        "repeat_at_most" => RepeatAtMost(bx(w), 2),
        "union" => Or(bx(w), bx(other)),
        // (w)+ as an intersection of two iterations
        "inter" => And(bx(List(bx(w))), bx(NonEmptyList(bx(ByteFrom(ALPHA.to_vec()))))),
        // epsilon | w w+
        "minus" => Minus(bx(List(bx(w.clone()))), bx(w)),
        "neg" => Neg(bx(w)),
        "sep_list" => SepList(bx(w), bx(sep)),
        "spaced_sep_list" => SpacedSepList(bx(w), bx(sep)),
        "delimited" => Delimited(bx(List(bx(w))), bx(sep.clone()), bx(sep)),
        "mark" => Mark(bx(List(bx(w))), vec![(ALPHA[rot % 3], 1)]),
        "mark_bytes" => MarkBytes(bx(List(bx(w))), vec![ALPHA[(rot + len - 1) % 3]], 2),
        _ => unreachable!("unknown head"),
    }
}

/// Heads used for the triples of the quick tier (those whose automata have final states with
/// successors and/or a re-entered initial state, plus the plain word).
const TRIPLE_HEADS_QUICK: &[&str] =
    &["word", "star", "plus", "optional", "repeat_at_most", "union", "sep_list", "mark_bytes"];

/// The structural corpus. `full = false` (quick tier; the verified all-words check costs about
/// 25 ms per expression): every ordered pair of the 17 heads with inner lengths (2,2), (1,2),
/// (2,1), (3,3) for `cat(A,B)`, (2,2), (1,2) for `star(cat(A,B))`, (2,2) for `union(A,B)`, and
/// every ordered triple of 8 heads with one combination of lengths chosen by rotation.
/// `full = true` (thorough and search tiers): all 9 combinations for pairs, every triple of the
/// 17 heads (one combination by rotation).
pub fn corpus(full: bool) -> Vec<(String, Spec)> {
    let bx = Box::new;
    let mut out = vec![];
    // the expressions of the seeded defect C19-1 first
    let st = |s: &str| List(bx(Word(s.as_bytes().to_vec())));
    let wd = |s: &str| Word(s.as_bytes().to_vec());
    out.push(("seed:x*(ab)*c".to_string(), Cat(vec![st("x"), st("ab"), wd("c")])));
    out.push(("seed:(ab)*(cd)*".to_string(), Cat(vec![st("ab"), st("cd")])));
    out.push(("seed:(ab)*(cd)*(ef)*g".to_string(), Cat(vec![st("ab"), st("cd"), st("ef"), wd("g")])));
    out.push(("seed:(abc)+(ab)*".to_string(), Cat(vec![NonEmptyList(bx(wd("abc"))), st("ab")])));
    for (ia, a) in HEADS.iter().enumerate() {
        for (ib, b) in HEADS.iter().enumerate() {
            for la in 1..=3usize {
                for lb in 1..=3usize {
                    let x = head(a, la, 0);
                    // the right factor starts at another letter (and, every other pair, at the
                    // same letter, so that the factors overlap)
                    let rot = if (ia + ib) % 2 == 0 { 2 } else { 0 };
                    let y = head(b, lb, rot);
                    let l = (la, lb);
                    if full || l == (2, 2) || l == (1, 2) || l == (2, 1) || l == (3, 3) {
                        out.push((format!("cat:{a}{la}>{b}{lb}"), Cat(vec![x.clone(), y.clone()])));
                    }
                    if full || l == (2, 2) || l == (1, 2) {
                        out.push((
                            format!("star-cat:{a}{la}>{b}{lb}"),
                            List(bx(Cat(vec![x.clone(), y.clone()]))),
                        ));
                    }
                    if full || l == (2, 2) {
                        out.push((format!("union:{a}{la}|{b}{lb}"), Or(bx(x), bx(y))));
                    }
                }
            }
        }
    }
    let heads3: &[&str] = if full { HEADS } else { TRIPLE_HEADS_QUICK };
    let mut n = 0usize;
    for a in heads3.iter() {
        for b in heads3.iter() {
            for c in heads3.iter() {
                // one combination of lengths, rotating; lengths >= 2 three times as often as 1
                let i = n * 7 + 13;
                let pick = |j: usize| [2, 3, 1, 2][j % 4];
                let (la, lb, lc) = (pick(i), pick(i / 4), pick(i / 16));
                n += 1;
                out.push((
                    format!("cat3:{a}{la}>{b}{lb}>{c}{lc}"),
                    Cat(vec![head(a, la, 0), Cat(vec![head(b, lb, 2), head(c, lc, 1)])]),
                ));
            }
        }
    }
    out
}

// ---------------------------------------------------------------------------------------------
// Weighted random generation
// ---------------------------------------------------------------------------------------------

fn rword(rng: &mut ChaCha8Rng, min: usize) -> Spec {
    let len = rng.gen_range(min..=3);
    Word(word(len, rng.gen_range(0..3)))
}

/// Random specification over {a,b,c} in which, at EVERY depth, iterations (`list`,
/// `non_empty_list`, separated lists, repetitions) of words of >= 2 bytes occur as factors of
/// concatenations whose other factors are themselves iterations / optionals.
pub fn gen_weighted(rng: &mut ChaCha8Rng, depth: usize, allow_marks: bool) -> Spec {
    let bx = Box::new;
    if depth == 0 {
        return match rng.gen_range(0..6) {
            0 => ByteFrom(vec![ALPHA[rng.gen_range(0..3)]]),
            1 => ByteFrom(vec![ALPHA[rng.gen_range(0..3)], ALPHA[rng.gen_range(0..3)]]),
            2 => List(bx(rword(rng, 2))),
            3 => NonEmptyList(bx(rword(rng, 2))),
            _ => rword(rng, 1),
        };
    }
    let d = depth - 1;
    // an iteration whose body is (or contains) a multi-byte word
    let iter = |rng: &mut ChaCha8Rng| -> Spec {
        let body = if rng.gen_range(0..3) == 0 {
            gen_weighted(rng, d, allow_marks)
        } else if rng.gen_range(0..4) == 0 {
            Cat(vec![rword(rng, 1), gen_weighted(rng, d.min(1), allow_marks)])
        } else {
            rword(rng, 2)
        };
        match rng.gen_range(0..9) {
            0..=2 => List(bx(body)),
            3..=4 => NonEmptyList(bx(body)),
            5 => Optional(bx(body)),
            6 => SepList(bx(body), bx(rword(rng, 1))),
            7 => RepeatAtMost(bx(body), rng.gen_range(0..=2)),
            _ => Repeat(bx(List(bx(body))), rng.gen_range(1..=2)),
        }
    };
    match rng.gen_range(0..20) {
        0..=8 => {
            // concatenation of 2..4 factors, most of them iterations
            let n = rng.gen_range(2..=4);
            Cat((0..n)
                .map(|_| {
                    if rng.gen_range(0..4) == 0 {
                        gen_weighted(rng, d, allow_marks)
                    } else {
                        iter(rng)
                    }
                })
                .collect())
        }
        9..=10 => iter(rng),
        11 => List(bx(gen_weighted(rng, d, allow_marks))),
        12 => Or(bx(gen_weighted(rng, d, allow_marks)), bx(gen_weighted(rng, d, allow_marks))),
        13 => And(bx(gen_weighted(rng, d, allow_marks)), bx(List(bx(ByteFrom(ALPHA.to_vec()))))),
        14 => Minus(bx(gen_weighted(rng, d, allow_marks)), bx(gen_weighted(rng, d, false))),
        15 => Terminated(bx(iter(rng)), bx(iter(rng))),
        16 => Delimited(bx(iter(rng)), bx(rword(rng, 1)), bx(iter(rng))),
        17 => SepCat(vec![iter(rng), iter(rng)], bx(iter(rng))),
        18 if allow_marks => MarkBytes(
            bx(gen_weighted(rng, d, allow_marks)),
            vec![ALPHA[rng.gen_range(0..3)]],
            rng.gen_range(1..=2),
        ),
        _ => Cat(vec![iter(rng), gen_weighted(rng, d, allow_marks)]),
    }
}

// ---------------------------------------------------------------------------------------------
// Distribution of the Concat nodes
// ---------------------------------------------------------------------------------------------

fn is_word(v: &[VerifRegexTree]) -> bool {
    v.len() >= 2
        && v.iter().all(|x| match x {
            VerifRegexTree::Single(l) => {
                let mut bytes: Vec<u8> = l.iter().map(|e| e.0).collect();
                bytes.sort();
                bytes.dedup();
                bytes.len() == 1
            }
            _ => false,
        })
}

fn star_inner(r: &VerifRegexTree) -> &'static str {
    match r {
        VerifRegexTree::Single(_) => "byte",
        VerifRegexTree::Concat(v) if is_word(v) => "word",
        _ => "other",
    }
}

/// Head of a node of the internal tree, as seen by `RawAutomaton::concat`.
pub fn tree_head(t: &VerifRegexTree) -> String {
    match t {
        VerifRegexTree::Single(l) => {
            let mut bytes: Vec<u8> = l.iter().map(|e| e.0).collect();
            bytes.sort();
            bytes.dedup();
            match bytes.len() {
                0 => "empty-class",
                1 => "byte",
                _ => "class",
            }
            .to_string()
        }
        VerifRegexTree::Concat(v) if v.is_empty() => "epsilon".into(),
        VerifRegexTree::Concat(v) if is_word(v) => "word".into(),
        VerifRegexTree::Concat(_) => "cat".into(),
        VerifRegexTree::Union(v) if v.is_empty() => "empty".into(),
        // `list` = union(non_empty_list, epsilon); `optional` = union(x, epsilon)
        VerifRegexTree::Union(v)
            if v.len() == 2
                && v.iter().any(|x| matches!(x, VerifRegexTree::Concat(e) if e.is_empty())) =>
        {
            let other = v
                .iter()
                .find(|x| !matches!(x, VerifRegexTree::Concat(e) if e.is_empty()))
                .unwrap_or(&v[0]);
            match other {
                VerifRegexTree::Star(true, r) => format!("star-{}", star_inner(r)),
                VerifRegexTree::Concat(w) if is_word(w) => "optional-word".into(),
                VerifRegexTree::Single(_) => "optional-byte".into(),
                _ => "optional-other".into(),
            }
        }
        VerifRegexTree::Union(_) => "union".into(),
        VerifRegexTree::Inter(_) => "inter".into(),
        VerifRegexTree::Complement(_) => "neg".into(),
        VerifRegexTree::Star(strict, r) => {
            format!("{}-{}", if *strict { "plus" } else { "star" }, star_inner(r))
        }
    }
}

/// `(head of v[i], head of v[i+1])` for every `Concat(v)` node of the tree.
pub fn concat_pairs(t: &VerifRegexTree, out: &mut Vec<(String, String)>) {
    match t {
        VerifRegexTree::Single(_) => {}
        VerifRegexTree::Concat(v) => {
            for p in v.windows(2) {
                out.push((tree_head(&p[0]), tree_head(&p[1])));
            }
            v.iter().for_each(|x| concat_pairs(x, out));
        }
        VerifRegexTree::Union(v) | VerifRegexTree::Inter(v) => {
            v.iter().for_each(|x| concat_pairs(x, out))
        }
        VerifRegexTree::Star(_, r) | VerifRegexTree::Complement(r) => concat_pairs(r, out),
    }
}
