//! Generator of regular-expression specifications over ALL public combinators of
//! `circuits/src/parsing/regex.rs` (`RegexInstructions`), their construction through the REAL
//! combinators, and the canonical text forms sent to the Lean model.

use midnight_circuits::parsing::regex::{Regex, RegexInstructions, VerifRegexTree};
use rand::Rng;
use rand_chacha::ChaCha8Rng;

/// One node per public combinator of `RegexInstructions`.
#[derive(Clone, Debug)]
pub enum Spec {
    ByteFrom(Vec<u8>),
    ByteNotFrom(Vec<u8>),
    AnyByte,
    Word(Vec<u8>),
    Digit,
    Lower,
    Upper,
    Letter,
    Alnum,
    OneBlank,
    BlanksStrict,
    Blanks,
    Any,
    Epsilon,
    Utf8Cps,
    Utf8,
    JsonString,
    Neg(Box<Spec>),
    Union(Vec<Spec>),
    Inter(Vec<Spec>),
    Cat(Vec<Spec>),
    SpacedCat(Vec<Spec>),
    List(Box<Spec>),
    SpacedList(Box<Spec>),
    NonEmptyList(Box<Spec>),
    SpacedNonEmptyList(Box<Spec>),
    Terminated(Box<Spec>, Box<Spec>),
    SpacedTerminated(Box<Spec>, Box<Spec>),
    Or(Box<Spec>, Box<Spec>),
    And(Box<Spec>, Box<Spec>),
    Minus(Box<Spec>, Box<Spec>),
    Optional(Box<Spec>),
    Delimited(Box<Spec>, Box<Spec>, Box<Spec>),
    SpacedDelimited(Box<Spec>, Box<Spec>, Box<Spec>),
    SepNonEmptyList(Box<Spec>, Box<Spec>),
    SpacedSepNonEmptyList(Box<Spec>, Box<Spec>),
    SepList(Box<Spec>, Box<Spec>),
    SpacedSepList(Box<Spec>, Box<Spec>),
    SepCat(Vec<Spec>, Box<Spec>),
    SpacedSepCat(Vec<Spec>, Box<Spec>),
    Repeat(Box<Spec>, usize),
    SpacedRepeat(Box<Spec>, usize),
    RepeatAtMost(Box<Spec>, usize),
    SpacedRepeatAtMost(Box<Spec>, usize),
    SepRepeat(Box<Spec>, usize, Box<Spec>),
    SpacedSepRepeat(Box<Spec>, usize, Box<Spec>),
    SepRepeatAtMost(Box<Spec>, usize, Box<Spec>),
    SpacedSepRepeatAtMost(Box<Spec>, usize, Box<Spec>),
    /// `mark(f)` with `f(b) = Some(m)` for the listed `(b, m)`, `None` otherwise.
    Mark(Box<Spec>, Vec<(u8, usize)>),
    MarkBytes(Box<Spec>, Vec<u8>, usize),
    /// `replace_markers(upd)` with `upd(m) = Some(m')` for the listed `(m, m')`.
    ReplaceMarkers(Box<Spec>, Vec<(usize, usize)>),
}

use Spec::*;

fn b(s: &Spec) -> Regex {
    build(s)
}
fn bv(v: &[Spec]) -> Vec<Regex> {
    v.iter().map(build).collect()
}

/// Builds the expression with the real public combinators (may panic: `neg` on markers).
pub fn build(s: &Spec) -> Regex {
    match s {
        ByteFrom(l) => Regex::byte_from(l.iter().copied()),
        ByteNotFrom(l) => Regex::byte_not_from(l.iter().copied()),
        AnyByte => Regex::any_byte(),
        Word(w) => Regex::word(std::str::from_utf8(w).expect("ascii word")),
        Digit => Regex::digit(),
        Lower => Regex::lowercase_letter(),
        Upper => Regex::uppercase_letter(),
        Letter => Regex::letter(),
        Alnum => Regex::alphanumeric(),
        OneBlank => Regex::one_blank(),
        BlanksStrict => Regex::blanks_strict(),
        Blanks => Regex::blanks(),
        Any => Regex::any(),
        Epsilon => Regex::epsilon(),
        Utf8Cps => Regex::utf8_cps(),
        Utf8 => Regex::utf8(),
        JsonString => Regex::json_string(),
        Neg(a) => b(a).neg(),
        Union(v) => Regex::union(bv(v)),
        Inter(v) => Regex::inter(bv(v)),
        Cat(v) => Regex::cat(bv(v)),
        SpacedCat(v) => Regex::spaced_cat(bv(v)),
        List(a) => b(a).list(),
        SpacedList(a) => b(a).spaced_list(),
        NonEmptyList(a) => b(a).non_empty_list(),
        SpacedNonEmptyList(a) => b(a).spaced_non_empty_list(),
        Terminated(a, c) => b(a).terminated(b(c)),
        SpacedTerminated(a, c) => b(a).spaced_terminated(b(c)),
        Or(a, c) => b(a).or(b(c)),
        And(a, c) => b(a).and(b(c)),
        Minus(a, c) => b(a).minus(b(c)),
        Optional(a) => b(a).optional(),
        Delimited(a, o, c) => b(a).delimited(b(o), b(c)),
        SpacedDelimited(a, o, c) => b(a).spaced_delimited(b(o), b(c)),
        SepNonEmptyList(a, s) => b(a).separated_non_empty_list(b(s)),
        SpacedSepNonEmptyList(a, s) => b(a).spaced_separated_non_empty_list(b(s)),
        SepList(a, s) => b(a).separated_list(b(s)),
        SpacedSepList(a, s) => b(a).spaced_separated_list(b(s)),
        SepCat(v, s) => Regex::separated_cat(bv(v), b(s)),
        SpacedSepCat(v, s) => Regex::spaced_separated_cat(bv(v), b(s)),
        Repeat(a, n) => b(a).repeat(*n),
        SpacedRepeat(a, n) => b(a).spaced_repeat(*n),
        RepeatAtMost(a, n) => b(a).repeat_at_most(*n),
        SpacedRepeatAtMost(a, n) => b(a).spaced_repeat_at_most(*n),
        SepRepeat(a, n, s) => b(a).separated_repeat(*n, b(s)),
        SpacedSepRepeat(a, n, s) => b(a).spaced_separated_repeat(*n, b(s)),
        SepRepeatAtMost(a, n, s) => b(a).separated_repeat_at_most(*n, b(s)),
        SpacedSepRepeatAtMost(a, n, s) => b(a).spaced_separated_repeat_at_most(*n, b(s)),
        Mark(a, tbl) => {
            let mut f = [None; 256];
            for (byte, m) in tbl {
                f[*byte as usize] = Some(*m);
            }
            b(a).mark(&|x| f[x as usize])
        }
        MarkBytes(a, bytes, m) => b(a).mark_bytes(bytes.iter().copied(), *m),
        ReplaceMarkers(a, tbl) => {
            let tbl = tbl.clone();
            b(a).replace_markers(&move |m| tbl.iter().find(|(x, _)| *x == m).map(|(_, y)| *y))
        }
    }
}

fn hexbytes(l: &[u8]) -> String {
    if l.is_empty() {
        "-".into()
    } else {
        l.iter().map(|x| format!("{x:02x}")).collect()
    }
}

/// Canonical prefix text of a specification (parsed by the Lean driver).
pub fn spec_text(s: &Spec, out: &mut Vec<String>) {
    fn un(out: &mut Vec<String>, tag: &str, a: &Spec) {
        out.push(tag.into());
        spec_text(a, out);
    }
    fn bin(out: &mut Vec<String>, tag: &str, a: &Spec, c: &Spec) {
        out.push(tag.into());
        spec_text(a, out);
        spec_text(c, out);
    }
    fn nary(out: &mut Vec<String>, tag: &str, v: &[Spec]) {
        out.push(tag.into());
        out.push(v.len().to_string());
        for x in v {
            spec_text(x, out);
        }
    }
    fn rep(out: &mut Vec<String>, tag: &str, a: &Spec, n: usize) {
        out.push(tag.into());
        out.push(n.to_string());
        spec_text(a, out);
    }
    match s {
        ByteFrom(l) => {
            out.push("byte_from".into());
            out.push(hexbytes(l));
        }
        ByteNotFrom(l) => {
            out.push("byte_not_from".into());
            out.push(hexbytes(l));
        }
        AnyByte => out.push("any_byte".into()),
        Word(w) => {
            out.push("word".into());
            out.push(hexbytes(w));
        }
        Digit => out.push("digit".into()),
        Lower => out.push("lowercase_letter".into()),
        Upper => out.push("uppercase_letter".into()),
        Letter => out.push("letter".into()),
        Alnum => out.push("alphanumeric".into()),
        OneBlank => out.push("one_blank".into()),
        BlanksStrict => out.push("blanks_strict".into()),
        Blanks => out.push("blanks".into()),
        Any => out.push("any".into()),
        Epsilon => out.push("epsilon".into()),
        Utf8Cps => out.push("utf8_cps".into()),
        Utf8 => out.push("utf8".into()),
        JsonString => out.push("json_string".into()),
        Neg(a) => un(out, "neg", a),
        Union(v) => nary(out, "union", v),
        Inter(v) => nary(out, "inter", v),
        Cat(v) => nary(out, "cat", v),
        SpacedCat(v) => nary(out, "spaced_cat", v),
        List(a) => un(out, "list", a),
        SpacedList(a) => un(out, "spaced_list", a),
        NonEmptyList(a) => un(out, "non_empty_list", a),
        SpacedNonEmptyList(a) => un(out, "spaced_non_empty_list", a),
        Terminated(a, c) => bin(out, "terminated", a, c),
        SpacedTerminated(a, c) => bin(out, "spaced_terminated", a, c),
        Or(a, c) => bin(out, "or", a, c),
        And(a, c) => bin(out, "and", a, c),
        Minus(a, c) => bin(out, "minus", a, c),
        Optional(a) => un(out, "optional", a),
        Delimited(a, o, c) => {
            out.push("delimited".into());
            spec_text(a, out);
            spec_text(o, out);
            spec_text(c, out);
        }
        SpacedDelimited(a, o, c) => {
            out.push("spaced_delimited".into());
            spec_text(a, out);
            spec_text(o, out);
            spec_text(c, out);
        }
        SepNonEmptyList(a, s) => bin(out, "separated_non_empty_list", a, s),
        SpacedSepNonEmptyList(a, s) => bin(out, "spaced_separated_non_empty_list", a, s),
        SepList(a, s) => bin(out, "separated_list", a, s),
        SpacedSepList(a, s) => bin(out, "spaced_separated_list", a, s),
        SepCat(v, s) => {
            nary(out, "separated_cat", v);
            spec_text(s, out);
        }
        SpacedSepCat(v, s) => {
            nary(out, "spaced_separated_cat", v);
            spec_text(s, out);
        }
        Repeat(a, n) => rep(out, "repeat", a, *n),
        SpacedRepeat(a, n) => rep(out, "spaced_repeat", a, *n),
        RepeatAtMost(a, n) => rep(out, "repeat_at_most", a, *n),
        SpacedRepeatAtMost(a, n) => rep(out, "spaced_repeat_at_most", a, *n),
        SepRepeat(a, n, s) => {
            rep(out, "separated_repeat", a, *n);
            spec_text(s, out);
        }
        SpacedSepRepeat(a, n, s) => {
            rep(out, "spaced_separated_repeat", a, *n);
            spec_text(s, out);
        }
        SepRepeatAtMost(a, n, s) => {
            rep(out, "separated_repeat_at_most", a, *n);
            spec_text(s, out);
        }
        SpacedSepRepeatAtMost(a, n, s) => {
            rep(out, "spaced_separated_repeat_at_most", a, *n);
            spec_text(s, out);
        }
        Mark(a, tbl) => {
            out.push("mark".into());
            out.push(tbl.len().to_string());
            for (x, m) in tbl {
                out.push(format!("{x}:{m}"));
            }
            spec_text(a, out);
        }
        MarkBytes(a, bytes, m) => {
            out.push("mark_bytes".into());
            out.push(hexbytes(bytes));
            out.push(m.to_string());
            spec_text(a, out);
        }
        ReplaceMarkers(a, tbl) => {
            out.push("replace_markers".into());
            out.push(tbl.len().to_string());
            for (x, m) in tbl {
                out.push(format!("{x}:{m}"));
            }
            spec_text(a, out);
        }
    }
}

pub fn spec_string(s: &Spec) -> String {
    let mut v = vec![];
    spec_text(s, &mut v);
    v.join(" ")
}

/// Top-level combinator name (for the distribution table).
pub fn spec_tag(s: &Spec) -> String {
    let mut v = vec![];
    spec_text(s, &mut v);
    v[0].clone()
}

pub fn spec_tags(s: &Spec, out: &mut Vec<&'static str>) {
    let (tag, kids): (&'static str, Vec<&Spec>) = match s {
        ByteFrom(_) => ("byte_from", vec![]),
        ByteNotFrom(_) => ("byte_not_from", vec![]),
        AnyByte => ("any_byte", vec![]),
        Word(_) => ("word", vec![]),
        Digit => ("digit", vec![]),
        Lower => ("lowercase_letter", vec![]),
        Upper => ("uppercase_letter", vec![]),
        Letter => ("letter", vec![]),
        Alnum => ("alphanumeric", vec![]),
        OneBlank => ("one_blank", vec![]),
        BlanksStrict => ("blanks_strict", vec![]),
        Blanks => ("blanks", vec![]),
        Any => ("any", vec![]),
        Epsilon => ("epsilon", vec![]),
        Utf8Cps => ("utf8_cps", vec![]),
        Utf8 => ("utf8", vec![]),
        JsonString => ("json_string", vec![]),
        Neg(a) => ("neg", vec![a]),
        Union(v) => ("union", v.iter().collect()),
        Inter(v) => ("inter", v.iter().collect()),
        Cat(v) => ("cat", v.iter().collect()),
        SpacedCat(v) => ("spaced_cat", v.iter().collect()),
        List(a) => ("list", vec![a]),
        SpacedList(a) => ("spaced_list", vec![a]),
        NonEmptyList(a) => ("non_empty_list", vec![a]),
        SpacedNonEmptyList(a) => ("spaced_non_empty_list", vec![a]),
        Terminated(a, c) => ("terminated", vec![a, c]),
        SpacedTerminated(a, c) => ("spaced_terminated", vec![a, c]),
        Or(a, c) => ("or", vec![a, c]),
        And(a, c) => ("and", vec![a, c]),
        Minus(a, c) => ("minus", vec![a, c]),
        Optional(a) => ("optional", vec![a]),
        Delimited(a, o, c) => ("delimited", vec![a, o, c]),
        SpacedDelimited(a, o, c) => ("spaced_delimited", vec![a, o, c]),
        SepNonEmptyList(a, s) => ("separated_non_empty_list", vec![a, s]),
        SpacedSepNonEmptyList(a, s) => ("spaced_separated_non_empty_list", vec![a, s]),
        SepList(a, s) => ("separated_list", vec![a, s]),
        SpacedSepList(a, s) => ("spaced_separated_list", vec![a, s]),
        SepCat(v, s) => ("separated_cat", v.iter().chain(std::iter::once(&**s)).collect()),
        SpacedSepCat(v, s) => {
            ("spaced_separated_cat", v.iter().chain(std::iter::once(&**s)).collect())
        }
        Repeat(a, _) => ("repeat", vec![a]),
        SpacedRepeat(a, _) => ("spaced_repeat", vec![a]),
        RepeatAtMost(a, _) => ("repeat_at_most", vec![a]),
        SpacedRepeatAtMost(a, _) => ("spaced_repeat_at_most", vec![a]),
        SepRepeat(a, _, s) => ("separated_repeat", vec![a, s]),
        SpacedSepRepeat(a, _, s) => ("spaced_separated_repeat", vec![a, s]),
        SepRepeatAtMost(a, _, s) => ("separated_repeat_at_most", vec![a, s]),
        SpacedSepRepeatAtMost(a, _, s) => ("spaced_separated_repeat_at_most", vec![a, s]),
        Mark(a, _) => ("mark", vec![a]),
        MarkBytes(a, _, _) => ("mark_bytes", vec![a]),
        ReplaceMarkers(a, _) => ("replace_markers", vec![a]),
    };
    out.push(tag);
    for k in kids {
        spec_tags(k, out);
    }
}

/// Canonical prefix text of the dumped internal tree:
/// `S k (marker hexmask)*k | C n .. | U n .. | I n .. | P t | T t | N t`.
pub fn tree_text(t: &VerifRegexTree, out: &mut Vec<String>) {
    match t {
        VerifRegexTree::Single(letters) => {
            let mut by_marker: std::collections::BTreeMap<usize, [u64; 4]> = Default::default();
            for (byte, m) in letters {
                let e = by_marker.entry(*m).or_insert([0; 4]);
                e[(*byte as usize) / 64] |= 1u64 << ((*byte as usize) % 64);
            }
            out.push("S".into());
            out.push(by_marker.len().to_string());
            for (m, mask) in by_marker {
                out.push(m.to_string());
                out.push(mask_hex(&mask));
            }
        }
        VerifRegexTree::Concat(v) => {
            out.push("C".into());
            out.push(v.len().to_string());
            v.iter().for_each(|x| tree_text(x, out));
        }
        VerifRegexTree::Union(v) => {
            out.push("U".into());
            out.push(v.len().to_string());
            v.iter().for_each(|x| tree_text(x, out));
        }
        VerifRegexTree::Inter(v) => {
            out.push("I".into());
            out.push(v.len().to_string());
            v.iter().for_each(|x| tree_text(x, out));
        }
        VerifRegexTree::Star(strict, r) => {
            out.push(if *strict { "P" } else { "T" }.into());
            tree_text(r, out);
        }
        VerifRegexTree::Complement(r) => {
            out.push("N".into());
            tree_text(r, out);
        }
    }
}

pub fn mask_hex(mask: &[u64; 4]) -> String {
    let s = format!("{:016x}{:016x}{:016x}{:016x}", mask[3], mask[2], mask[1], mask[0]);
    let t = s.trim_start_matches('0');
    if t.is_empty() {
        "0".into()
    } else {
        t.into()
    }
}

pub fn tree_string(t: &VerifRegexTree) -> String {
    let mut v = vec![];
    tree_text(t, &mut v);
    v.join(" ")
}

pub fn tree_size(t: &VerifRegexTree) -> usize {
    match t {
        VerifRegexTree::Single(_) => 1,
        VerifRegexTree::Concat(v) | VerifRegexTree::Union(v) | VerifRegexTree::Inter(v) => {
            1 + v.iter().map(tree_size).sum::<usize>()
        }
        VerifRegexTree::Star(_, r) | VerifRegexTree::Complement(r) => 1 + tree_size(r),
    }
}

// ---------------------------------------------------------------------------------------------
// Random generation
// ---------------------------------------------------------------------------------------------

/// Bytes the generator draws from: a few letters, blanks, digits, punctuation and the extreme
/// byte values (so that classes, blanks, complements and the alphabet bounds all interact).
pub const POOL: &[u8] = b"ab c\t0,1\nz\"\\{}:";
pub const EXTREME: &[u8] = &[0x00, 0x7f, 0x80, 0xff];

fn pick_byte(rng: &mut ChaCha8Rng) -> u8 {
    if rng.gen_range(0..10) == 0 {
        EXTREME[rng.gen_range(0..EXTREME.len())]
    } else {
        POOL[rng.gen_range(0..POOL.len())]
    }
}

fn pick_bytes(rng: &mut ChaCha8Rng, max: usize) -> Vec<u8> {
    let n = rng.gen_range(0..=max);
    let mut v: Vec<u8> = (0..n).map(|_| pick_byte(rng)).collect();
    if rng.gen_range(0..6) == 0 {
        // a range of bytes
        let lo = pick_byte(rng);
        let len = rng.gen_range(1..12u16);
        for x in lo as u16..(lo as u16 + len).min(256) {
            v.push(x as u8);
        }
    }
    v
}

fn ascii_word(rng: &mut ChaCha8Rng) -> Vec<u8> {
    let n = rng.gen_range(0..=3);
    (0..n)
        .map(|_| loop {
            let x = POOL[rng.gen_range(0..POOL.len())];
            if x < 0x80 {
                break x;
            }
        })
        .collect()
}

fn leaf(rng: &mut ChaCha8Rng) -> Spec {
    match rng.gen_range(0..32) {
        0..=7 => ByteFrom(pick_bytes(rng, 3)),
        8..=9 => ByteNotFrom(pick_bytes(rng, 3)),
        10 => AnyByte,
        11..=16 => Word(ascii_word(rng)),
        17 => Digit,
        18 => Lower,
        19 => Upper,
        20 => Letter,
        21 => Alnum,
        22..=23 => OneBlank,
        24 => BlanksStrict,
        25..=26 => Blanks,
        27 => Any,
        28..=29 => Epsilon,
        30 => {
            if rng.gen_range(0..4) == 0 {
                Utf8Cps
            } else {
                ByteFrom(pick_bytes(rng, 2))
            }
        }
        _ => Word(ascii_word(rng)),
    }
}

fn marker(rng: &mut ChaCha8Rng) -> usize {
    // small markers, 0 (= erase) included
    [1, 1, 2, 2, 3, 0, 7][rng.gen_range(0..7)]
}

/// Random specification of depth at most `depth`. `allow_marks = false` below a negation
/// (the library refuses markers under `neg`; a few marked arguments are still generated on
/// purpose by the caller to exercise that refusal).
pub fn gen(rng: &mut ChaCha8Rng, depth: usize, allow_marks: bool) -> Spec {
    if depth == 0 || rng.gen_range(0..7) == 0 {
        return leaf(rng);
    }
    let d = depth - 1;
    let mut g = |rng: &mut ChaCha8Rng| Box::new(gen(rng, d, allow_marks));
    let gu = |rng: &mut ChaCha8Rng| Box::new(gen(rng, d, false));
    let small = |rng: &mut ChaCha8Rng| Box::new(gen(rng, d.min(1), allow_marks));
    let choice = rng.gen_range(0..60);
    match choice {
        0..=3 => Neg(gu(rng)),
        4..=6 => {
            let n = rng.gen_range(0..=3);
            Union((0..n).map(|_| gen(rng, d, allow_marks)).collect())
        }
        7..=8 => {
            let n = rng.gen_range(0..=3);
            Inter((0..n).map(|_| gen(rng, d, allow_marks)).collect())
        }
        9..=12 => {
            let n = rng.gen_range(0..=3);
            Cat((0..n).map(|_| gen(rng, d, allow_marks)).collect())
        }
        13 => {
            let n = rng.gen_range(0..=3);
            SpacedCat((0..n).map(|_| gen(rng, d, allow_marks)).collect())
        }
        14..=16 => List(g(rng)),
        17 => SpacedList(g(rng)),
        18..=19 => NonEmptyList(g(rng)),
        20 => SpacedNonEmptyList(g(rng)),
        21..=22 => Terminated(g(rng), g(rng)),
        23 => SpacedTerminated(g(rng), g(rng)),
        24..=26 => Or(g(rng), g(rng)),
        27..=29 => And(g(rng), g(rng)),
        30..=32 => Minus(g(rng), gu(rng)),
        33..=34 => Optional(g(rng)),
        35 => Delimited(g(rng), small(rng), small(rng)),
        36 => SpacedDelimited(g(rng), small(rng), small(rng)),
        37 => SepNonEmptyList(g(rng), small(rng)),
        38 => SpacedSepNonEmptyList(g(rng), small(rng)),
        39..=40 => SepList(g(rng), small(rng)),
        41 => SpacedSepList(g(rng), small(rng)),
        42 => {
            let n = rng.gen_range(0..=3);
            SepCat((0..n).map(|_| gen(rng, d, allow_marks)).collect(), small(rng))
        }
        43 => {
            let n = rng.gen_range(0..=3);
            SpacedSepCat((0..n).map(|_| gen(rng, d, allow_marks)).collect(), small(rng))
        }
        44..=45 => Repeat(g(rng), rng.gen_range(0..=3)),
        46 => SpacedRepeat(g(rng), rng.gen_range(0..=3)),
        47..=48 => RepeatAtMost(small(rng), rng.gen_range(0..=3)),
        49 => SpacedRepeatAtMost(small(rng), rng.gen_range(0..=2)),
        50 => SepRepeat(g(rng), rng.gen_range(0..=3), small(rng)),
        51 => SpacedSepRepeat(g(rng), rng.gen_range(0..=2), small(rng)),
        52 => SepRepeatAtMost(small(rng), rng.gen_range(0..=2), small(rng)),
        53 => SpacedSepRepeatAtMost(small(rng), rng.gen_range(0..=2), small(rng)),
        54..=56 => {
            if !allow_marks {
                return gen(rng, d, false);
            }
            let n = rng.gen_range(1..=3);
            let mut tbl: Vec<(u8, usize)> = (0..n).map(|_| (pick_byte(rng), marker(rng))).collect();
            if rng.gen_range(0..4) == 0 {
                let m = marker(rng);
                tbl = (0..=255u8).map(|x| (x, m)).collect();
            }
            tbl.sort();
            tbl.dedup_by_key(|e| e.0);
            Mark(g(rng), tbl)
        }
        57..=58 => {
            if !allow_marks {
                return gen(rng, d, false);
            }
            MarkBytes(g(rng), pick_bytes(rng, 3), marker(rng))
        }
        _ => {
            if !allow_marks {
                return gen(rng, d, false);
            }
            let n = rng.gen_range(1..=2);
            let mut tbl: Vec<(usize, usize)> =
                (0..n).map(|_| (marker(rng), marker(rng))).collect();
            tbl.sort();
            tbl.dedup_by_key(|e| e.0);
            ReplaceMarkers(g(rng), tbl)
        }
    }
}

pub fn spec_size(s: &Spec) -> usize {
    let mut v = vec![];
    spec_tags(s, &mut v);
    v.len()
}

pub fn spec_depth(s: &Spec) -> usize {
    fn kids(s: &Spec) -> Vec<&Spec> {
        match s {
            Neg(a) | List(a) | SpacedList(a) | NonEmptyList(a) | SpacedNonEmptyList(a)
            | Optional(a) | Repeat(a, _) | SpacedRepeat(a, _) | RepeatAtMost(a, _)
            | SpacedRepeatAtMost(a, _) | Mark(a, _) | MarkBytes(a, _, _)
            | ReplaceMarkers(a, _) => vec![a],
            Union(v) | Inter(v) | Cat(v) | SpacedCat(v) => v.iter().collect(),
            Terminated(a, c) | SpacedTerminated(a, c) | Or(a, c) | And(a, c) | Minus(a, c)
            | SepNonEmptyList(a, c) | SpacedSepNonEmptyList(a, c) | SepList(a, c)
            | SpacedSepList(a, c) | SepRepeat(a, _, c) | SpacedSepRepeat(a, _, c)
            | SepRepeatAtMost(a, _, c) | SpacedSepRepeatAtMost(a, _, c) => vec![a, c],
            Delimited(a, o, c) | SpacedDelimited(a, o, c) => vec![a, o, c],
            SepCat(v, s) | SpacedSepCat(v, s) => {
                v.iter().chain(std::iter::once(&**s)).collect()
            }
            _ => vec![],
        }
    }
    1 + kids(s).into_iter().map(spec_depth).max().unwrap_or(0)
}
