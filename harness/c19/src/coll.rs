//! Several automata in ONE lookup table (`NativeAutomaton::from_collection`, `AutomatonChip::load`
//! over a map of automata, `parse(automaton_index, ..)`): collections of 2-4 automata including
//! the shipped one; every member is parsed in-circuit; the loaded table is compared with the Lean
//! emitter `collTableRows (collOf As)`, the rows of the parsing region with `parseRows A_i off_i`;
//! forged witnesses that start in (or jump into) another member's state range must be refused;
//! and the REAL loaded table is explored as a nondeterministic automaton from the pinned initial
//! state of every member: any word it accepts (with markers) that the member itself does not
//! accept with these markers is a failing input for the property.

use std::collections::{BTreeMap, BTreeSet, VecDeque};

use midnight_circuits::parsing::verif_hooks::Automaton;
use mzkh::{catch, Ctx};
use rand::Rng;
use rand_chacha::ChaCha8Rng;
use serde_json::json;

use crate::circuit::{self, Verdict};
use crate::spec::{Spec::*, *};
use crate::{accepts, dfa_text, hex, run, sample_accepted};

fn k_coll(autos: &[Automaton], input_len: usize) -> u32 {
    let rows: usize = autos.iter().map(|a| a.transitions.len() + a.final_states.len()).sum::<usize>() + 1;
    let rows = rows.max(300).max(4 * input_len + 64);
    let mut k = 9;
    while (1usize << k) < rows + 64 {
        k += 1;
    }
    k
}

/// Explores the real table (rows `s.l.t.o`) from `start` in product with member `a`: returns a
/// word with markers and the table states of a path that ends on a sentinel row, such that `a`
/// does not accept the word with these markers.
fn table_counterexample(table: &[String], start: u64, a: &Automaton) -> Option<(Vec<u8>, Vec<u64>, Vec<u64>)> {
    let mut trans: BTreeMap<u64, Vec<(u64, u64, u64)>> = BTreeMap::new();
    let mut finals: BTreeSet<u64> = BTreeSet::new();
    for r in table {
        let v: Vec<u64> = r.split('.').map(|x| x.parse::<u64>().unwrap_or(u64::MAX)).collect();
        if v.len() != 4 {
            continue;
        }
        if v[1] == 256 {
            if v[2] == 0 && v[3] == 0 {
                finals.insert(v[0]);
            }
        } else if v[1] < 256 {
            trans.entry(v[0]).or_default().push((v[1], v[2], v[3]));
        }
    }
    // pair (table state, Some(state of a) / None = a is dead or emitted another marker)
    type Node = (u64, Option<usize>);
    let init: Node = (start, Some(a.initial_state));
    let mut pred: BTreeMap<Node, (Node, u8, u64)> = BTreeMap::new();
    let mut seen: BTreeSet<Node> = BTreeSet::new();
    let mut q: VecDeque<Node> = VecDeque::new();
    seen.insert(init);
    q.push_back(init);
    while let Some(n) = q.pop_front() {
        let bad = finals.contains(&n.0) && !n.1.map(|s| a.final_states.contains(&s)).unwrap_or(false);
        if bad {
            let (mut w, mut ms, mut sts) = (vec![], vec![], vec![n.0]);
            let mut cur = n;
            while let Some((p, b, m)) = pred.get(&cur) {
                w.push(*b);
                ms.push(*m);
                sts.push(p.0);
                cur = *p;
            }
            w.reverse();
            ms.reverse();
            sts.reverse();
            return Some((w, ms, sts));
        }
        if seen.len() > 400_000 {
            return None;
        }
        for (b, t, m) in trans.get(&n.0).cloned().unwrap_or_default() {
            let qa = n.1.and_then(|s| a.transitions.get(&(s, b as u8)).copied()).and_then(|(t2, m2)| {
                if m2 as u64 == m {
                    Some(t2)
                } else {
                    None
                }
            });
            let nn: Node = (t, qa);
            if seen.insert(nn) {
                pred.insert(nn, (n, b as u8, m));
                q.push_back(nn);
            }
        }
    }
    None
}

fn one_collection(ctx: &mut Ctx, label: &str, autos: &[Automaton], rng: &mut ChaCha8Rng, nwords: usize, max_len: usize) {
    let order = circuit::coll_order(autos);
    // offsets as `from_collection` hands them out (1, then + nb_states in iteration order)
    let mut offs = vec![0usize; autos.len()];
    let mut off = 1;
    for k in &order {
        offs[*k] = off;
        off += autos[*k].nb_states;
    }
    let ctext = format!(
        "{} {}",
        autos.len(),
        order.iter().map(|k| dfa_text(&autos[*k])).collect::<Vec<_>>().join(" ")
    );
    ctx.count(&format!("coll:members-{}", autos.len()));
    let mut table_done = false;
    // words: per member the empty word, accepted words, and the accepted words of the others
    let mut pool: Vec<Vec<u8>> = vec![vec![]];
    for a in autos {
        for i in 0..nwords {
            if let Some(w) = sample_accepted(a, rng, if i == 0 { max_len } else { max_len / 3 }) {
                let mut m = w.clone();
                pool.push(w);
                if !m.is_empty() && rng.gen_range(0..2) == 0 {
                    m.pop();
                    pool.push(m);
                }
            }
        }
    }
    pool.sort();
    pool.dedup();
    for idx in 0..autos.len() {
        let a = &autos[idx];
        let pos = order.iter().position(|k| *k == idx).unwrap();
        let mut forged = 0usize;
        for w in &pool {
            let k = k_coll(autos, w.len());
            let expected = accepts(a, w);
            let (v, tr) = circuit::run_coll_traced(autos, idx, w, k);
            match tr {
                Some(Ok(t)) => {
                    if !table_done {
                        table_done = true;
                        ctx.case(
                            "coll-table",
                            true,
                            &format!("pctable {ctext}"),
                            &format!(
                                "offs {} | {} rows {} pad 0.0.0.0",
                                mzkh::join(&order.iter().map(|k| offs[*k]).collect::<Vec<_>>()),
                                t.table.len(),
                                t.table.join(" ")
                            ),
                        );
                        if !t.padding.starts_with("0.0.0.0x") {
                            ctx.oracle_fail(
                                &format!("coll-table-padding:{label}"),
                                "the unused rows of the automaton lookup table are not the dummy transition (0,0,0,0)",
                                json!({"collection": ctext, "padding": t.padding}),
                            );
                        }
                        // the real table explored as an automaton from every member's pinned start
                        for j in 0..autos.len() {
                            let start = (autos[j].initial_state + offs[j]) as u64;
                            ctx.count("coll:table-explored");
                            if let Some((cw, cms, csts)) = table_counterexample(&t.table, start, &autos[j]) {
                                // try it through the real circuit when the honest prover is not stuck
                                let kk = k_coll(autos, cw.len());
                                let through = circuit::run_coll_forged(autos, j, &cw, kk, &csts, &cms);
                                ctx.oracle_fail(
                                    &format!("coll-table-interference:{label}:{j}:{}", hex(&cw)),
                                    "the lookup table loaded for a collection of automata lets a run that starts in the initial state of one member accept a word (with markers) that this member does not accept",
                                    json!({"collection": ctext, "member": j, "input": cw, "markers": cms,
                                           "table_states": csts, "mock_prover_accepts_forged_witness": through}),
                                );
                            }
                        }
                    }
                    // the pinned first state must be init + offset of THIS member
                    ctx.case(
                        if expected.is_some() { "coll-trace-accepted" } else { "coll-trace-not-final" },
                        true,
                        &format!("pctrace {ctext} | {pos} | {}", hex(w)),
                        &t.rows.join(" "),
                    );
                }
                Some(Err(e)) => {
                    ctx.case("coll-trace-unreadable", true, &format!("pctrace {ctext} | {pos} | {}", hex(w)), &format!("unreadable {e}"));
                }
                None => {}
            }
            let ans = match &v {
                Verdict::Ok(ms) => format!("ok {}", mzkh::join(ms)),
                Verdict::Stuck => {
                    ctx.count("coll:prover-stuck");
                    "reject".to_string()
                }
                Verdict::Unsat => {
                    ctx.count("coll:unsatisfied");
                    "reject".to_string()
                }
                Verdict::Panic(p) => format!("panic {p}"),
            };
            ctx.case(
                if expected.is_some() { "coll-parse-accepted" } else { "coll-parse-rejected" },
                !w.is_empty(),
                &format!("pcparse {ctext} | {pos} | {}", hex(w)),
                &ans,
            );
            let ok = match (&v, &expected) {
                (Verdict::Ok(ms), Some(e)) => ms.iter().map(|x| *x as usize).collect::<Vec<_>>() == *e,
                (Verdict::Stuck | Verdict::Unsat, None) => true,
                _ => false,
            };
            if !ok {
                ctx.oracle_fail(
                    &format!("coll-parse-circuit:{label}:{idx}:{}", hex(w)),
                    "AutomatonChip::parse with several automata in the table is not satisfiable exactly for the inputs accepted by the chosen automaton, with its markers",
                    json!({"collection": ctext, "member": idx, "input": w, "expected": expected, "circuit": ans}),
                );
            }
            // forged witnesses: the word is refused by member idx (honest prover not stuck) but
            // accepted by member j: (a) the whole run of j, first state cell included;
            // (b) the first state cell honest, then a jump into j's range.
            if expected.is_none() && matches!(v, Verdict::Unsat) && forged < 2 {
                for j in 0..autos.len() {
                    if j == idx {
                        continue;
                    }
                    let b = &autos[j];
                    if accepts(b, w).is_none() {
                        continue;
                    }
                    let mut st = b.initial_state;
                    let mut states = vec![(st + offs[j]) as u64];
                    let mut outs = vec![];
                    for x in w {
                        let (t, m) = b.transitions[&(st, *x)];
                        st = t;
                        states.push((t + offs[j]) as u64);
                        outs.push(m as u64);
                    }
                    forged += 1;
                    for variant in 0..2 {
                        let mut sts = states.clone();
                        if variant == 1 {
                            sts[0] = (a.initial_state + offs[idx]) as u64;
                        }
                        ctx.count(if variant == 0 { "coll:forged-start-in-other-range" } else { "coll:forged-jump-to-other-range" });
                        if let Some(true) = circuit::run_coll_forged(autos, idx, w, k, &sts, &outs) {
                            ctx.oracle_fail(
                                &format!("coll-forged:{label}:{idx}:{j}:{variant}:{}", hex(w)),
                                "AutomatonChip::parse accepts a forged witness whose states are those of ANOTHER automaton of the table",
                                json!({"collection": ctext, "member": idx, "other": j, "input": w,
                                       "forged_states_shifted": sts, "forged_outputs": outs, "variant": variant}),
                            );
                        }
                    }
                    break;
                }
            }
        }
        let _ = run(a, &[]);
    }
}

pub fn run_collections(ctx: &mut Ctx) {
    let mut rng = ctx.rng("parse-collections");
    let bx = Box::new;
    let w = |s: &str| Word(s.as_bytes().to_vec());
    let a = |s: &Spec| build(s).to_automaton();
    // a+b / a+ (marked) / a* c: common prefixes, so that a word refused by one member without
    // getting the honest prover stuck is accepted by another one (forged witnesses)
    let apb = Cat(vec![NonEmptyList(bx(w("a"))), w("b")]);
    let ap = NonEmptyList(bx(Mark(bx(w("a")), vec![(b'a', 4)])));
    let asc = Cat(vec![List(bx(w("a"))), Optional(bx(w("c")))]);
    let hello = SepNonEmptyList(bx(w("hello")), bx(BlanksStrict));
    let digits = SepList(
        bx(MarkBytes(bx(NonEmptyList(bx(Digit))), (b'0'..=b'9').collect(), 3)),
        bx(w(",")),
    );
    let eps = Cat(vec![]);
    let mut colls: Vec<(String, Vec<Automaton>)> = vec![
        ("prefixes".into(), vec![a(&apb), a(&ap), a(&asc)]),
        ("twins".into(), vec![a(&apb), a(&apb)]),
        ("four".into(), vec![a(&hello), a(&eps), a(&digits), a(&ap)]),
        ("json-digits".into(), vec![a(&JsonString), a(&digits)]),
    ];
    // random members
    let n_random = if ctx.quick() { 1 } else { 6 };
    let mut grng = ctx.rng("parse-collections-gen");
    let mut tries = 0;
    let mut members: Vec<Automaton> = vec![];
    while members.len() < 3 * n_random && tries < 3000 {
        tries += 1;
        let s = gen(&mut grng, 3, true);
        if spec_size(&s) > 24 {
            continue;
        }
        if let Ok(r) = catch(|| build(&s)) {
            if crate::has_marked_complement(&r.verif_dump()) {
                continue;
            }
            if let Ok(x) = catch(|| r.to_automaton()) {
                if x.nb_states >= 2 && x.nb_states <= 25 {
                    members.push(x);
                }
            }
        }
    }
    for (i, c) in members.chunks(3).enumerate() {
        let n = 2 + (i % 2);
        if c.len() >= n {
            colls.push((format!("random{i}"), c[..n].to_vec()));
        }
    }
    let nwords = if ctx.quick() { 2 } else { 4 };
    for (label, autos) in &colls {
        one_collection(ctx, label, autos, &mut rng, nwords, 24);
    }
    // the shipped automaton together with two small ones (it is not the first to get its offset
    // for some iteration orders; whichever it is, the table dump says)
    for (name, _, bytes) in midnight_circuits::parsing::verif_hooks::verif_spec_library_data() {
        if let Ok(Ok((lib, _))) = catch(|| midnight_circuits::parsing::verif_hooks::verif_deserialize_automaton(bytes)) {
            let autos = vec![a(&ap), lib, a(&apb)];
            one_collection(ctx, &format!("library:{name}"), &autos, &mut rng, 1, 120);
        }
    }
}
