//! Synthetic layer: guards and accumulators over points with KNOWN discrete logarithms and a
//! KNOWN trapdoor τ, run through the real `MSMKZG` / `DualMSM` / `Guard::batch_verify` /
//! `Msm` / `Accumulator` code; the Lean model recomputes every structure and every verdict over
//! ℤ/r. Here the combination challenge can be chosen, so batches with invalid members that are
//! nevertheless accepted (roots of the combination polynomial) are produced on purpose: model and
//! code must agree on those too.

use std::collections::BTreeMap;

use ff::Field;
use group::Group;
use midnight_circuits::{
    hash::poseidon::PoseidonChip,
    instructions::hash::HashCPU,
    types::Instantiable,
    verifier::{Accumulator, AssignedAccumulator, SelfEmulation},
};
use midnight_curves::G2Projective;
use midnight_proofs::{
    poly::{
        commitment::Guard,
        kzg::{msm::DualMSM, params::{ParamsKZG, ParamsVerifierKZG}},
        CommitmentLabel,
    },
    utils::arithmetic::MSM,
};
use mzkh::{catch, fe_hex, Ctx};
use rand::{Rng, RngCore};
use rand_chacha::ChaCha8Rng;
use rand_core::SeedableRng;
use serde_json::json;

use crate::fmt::*;

/// Verifier parameters with a known trapdoor: `unsafe_setup` draws `s` first from its rng.
pub fn params_with_tau(k: u32, seed: u64) -> (ParamsKZG<E>, F) {
    let srs = ParamsKZG::<E>::unsafe_setup(k, ChaCha8Rng::seed_from_u64(seed));
    let tau = F::random(ChaCha8Rng::seed_from_u64(seed));
    assert_eq!(srs.s_g2(), G2Projective::generator() * tau, "trapdoor recovery");
    (srs, tau)
}

pub fn rand_scalar(rng: &mut ChaCha8Rng) -> F {
    match rng.gen_range(0..12) {
        0 => F::ZERO,
        1 => F::ONE,
        2 => -F::ONE,
        3 | 4 => F::from(rng.gen_range(2..1000u64)),
        5 => F::from(rng.next_u64()),
        _ => F::random(&mut *rng),
    }
}

pub fn rand_log(rng: &mut ChaCha8Rng) -> F {
    match rng.gen_range(0..10) {
        0 => F::from(rng.gen_range(1..6u64)),
        1 => F::ZERO,
        2 | 3 => F::random(&mut *rng),
        _ => F::from(rng.next_u64() | 1),
    }
}

fn rand_label(rng: &mut ChaCha8Rng) -> CommitmentLabel {
    match rng.gen_range(0..8) {
        0 => CommitmentLabel::Advice(rng.gen_range(0..20)),
        1 => CommitmentLabel::Instance(rng.gen_range(0..3)),
        2 => CommitmentLabel::Custom("π".into()),
        3 => CommitmentLabel::Custom("h".into()),
        _ => CommitmentLabel::NoLabel,
    }
}

/// A guard with the given defect `τ·L − R = d` (`d = 0`: valid). `proof_like`: the left side
/// is the single term `1·π` as produced by `multi_prepare`.
pub fn gen_dual(rng: &mut ChaCha8Rng, tau: F, d: F, proof_like: bool) -> SDual {
    let left: Vec<T> = if proof_like {
        vec![T { s: F::ONE, b: rand_log(rng), l: CommitmentLabel::Custom("π".into()) }]
    } else {
        (0..rng.gen_range(0..4))
            .map(|_| T { s: rand_scalar(rng), b: rand_log(rng), l: rand_label(rng) })
            .collect()
    };
    let mut right: Vec<T> = (0..rng.gen_range(0..5))
        .map(|_| T { s: rand_scalar(rng), b: rand_log(rng), l: rand_label(rng) })
        .collect();
    let ev = |ts: &[T]| ts.iter().fold(F::ZERO, |a, t| a + t.s * t.b);
    // last right term fixes the defect: s·b = τ·L − d − Σ others
    let want = tau * ev(&left) - d - ev(&right);
    let b = loop {
        let b = rand_log(rng);
        if b != F::ZERO {
            break b;
        }
    };
    right.push(T { s: want * b.invert().unwrap(), b, l: rand_label(rng) });
    let pos = rng.gen_range(0..right.len());
    let last = right.len() - 1;
    right.swap(pos, last);
    let sd = SDual { left, right };
    assert_eq!(sd.defect(tau), d);
    sd
}

fn nonzero(rng: &mut ChaCha8Rng) -> F {
    loop {
        let d = rand_scalar(rng);
        if d != F::ZERO {
            return d;
        }
    }
}

pub struct Synth {
    pub vp1: ParamsVerifierKZG<E>,
    pub tau1: F,
    pub vp2: ParamsVerifierKZG<E>,
    pub tau2: F,
    pub pts: Pts,
}

impl Synth {
    pub fn new() -> Synth {
        let (s1, tau1) = params_with_tau(1, 0xC15_0001);
        let (s2, tau2) = params_with_tau(1, 0xC15_0002);
        Synth { vp1: s1.verifier_params(), tau1, vp2: s2.verifier_params(), tau2, pts: Pts::default() }
    }

    // ---------------------------------------------------------------- MSMKZG::eval / check
    pub fn msm_eval(&mut self, ctx: &mut Ctx, n: usize) {
        let mut rng = ctx.rng("c15:msm-eval");
        let mut shapes: Vec<Vec<T>> = vec![
            vec![],
            vec![T { s: F::ONE, b: F::from(5), l: CommitmentLabel::NoLabel }],
            vec![T { s: F::from(2), b: F::from(5), l: CommitmentLabel::NoLabel }],
            vec![T { s: F::ZERO, b: F::from(5), l: CommitmentLabel::NoLabel }],
            vec![T { s: F::ONE, b: F::ZERO, l: CommitmentLabel::NoLabel }],
            vec![
                T { s: F::ZERO, b: F::from(5), l: CommitmentLabel::Fixed(0) },
                T { s: F::ZERO, b: F::from(7), l: CommitmentLabel::Fixed(1) },
            ],
            vec![
                T { s: F::from(3), b: F::from(5), l: CommitmentLabel::Fixed(0) },
                T { s: -F::from(5), b: F::from(3), l: CommitmentLabel::Fixed(1) },
            ],
            vec![
                T { s: F::ONE, b: F::from(5), l: CommitmentLabel::NoLabel },
                T { s: F::ZERO, b: F::from(9), l: CommitmentLabel::NoLabel },
            ],
        ];
        for i in 0..n {
            let len = i % 7;
            shapes.push(
                (0..len).map(|_| T { s: rand_scalar(&mut rng), b: rand_log(&mut rng), l: rand_label(&mut rng) }).collect(),
            );
        }
        for ts in shapes {
            let m = real_msm(&ts, &mut self.pts);
            let got = catch(|| (m.eval(), m.check()));
            let line = format!("msm-eval {}", terms_str(&ts));
            match got {
                Ok((p, c)) => {
                    let want = ts.iter().fold(F::ZERO, |a, t| a + t.s * t.b);
                    if p != G::generator() * want || c != (want == F::ZERO) {
                        ctx.oracle_fail("msmkzg-eval:wrong-value", "MSMKZG::eval/check differs from Σ sᵢ·bᵢ", json!({"msm": terms_str(&ts)}));
                    }
                    ctx.case("msm-eval", ts.len() > 1, &line, &format!("{} {}", affine_str(&p), c as u8));
                }
                Err(e) => {
                    ctx.oracle_fail("msmkzg-eval:panic", "MSMKZG::eval panics", json!({"msm": terms_str(&ts), "panic": e}));
                    ctx.case("msm-eval", true, &line, "panic");
                }
            }
        }
    }

    // ---------------------------------------------------------------- constructors
    pub fn constructors(&mut self, ctx: &mut Ctx, n: usize) {
        use midnight_proofs::poly::kzg::msm::MSMKZG;
        let mut rng = ctx.rng("c15:constructors");
        for i in 0..n {
            // MSMKZG::from_many
            let parts: Vec<Vec<T>> = (0..i % 4)
                .map(|_| (0..rng.gen_range(0..4)).map(|_| T { s: rand_scalar(&mut rng), b: rand_log(&mut rng), l: rand_label(&mut rng) }).collect())
                .collect();
            let reals: Vec<MSMKZG<E>> = parts.iter().map(|p| real_msm(p, &mut self.pts)).collect();
            let m = MSMKZG::<E>::from_many(reals);
            let line = format!("msm-from-many {}", parts.iter().map(|p| terms_str(p)).collect::<Vec<_>>().join(" "));
            ctx.case("msm-from-many", true, line.trim_end(), &format!("{} {}", msmkzg_str(&m, &self.pts), affine_str(&m.eval())));
            // MSMKZG::from_base
            let b = rand_log(&mut rng);
            let m = MSMKZG::<E>::from_base(&self.pts.pt(b));
            ctx.case("msm-from-base", true, &format!("msm-from-base {}", fe_hex(&b)), &format!("{} {}", msmkzg_str(&m, &self.pts), affine_str(&m.eval())));
            // Msm::new / Msm::from_terms: equal lengths or an assertion failure
            let nb = rng.gen_range(0..4usize);
            let ns = if i % 3 == 0 { rng.gen_range(0..4usize) } else { nb };
            let bases: Vec<F> = (0..nb).map(|_| rand_log(&mut rng)).collect();
            let scalars: Vec<F> = (0..ns).map(|_| rand_scalar(&mut rng)).collect();
            let fixed: Vec<(String, F)> = if i % 2 == 0 { vec![] } else { vec![("zz".to_string(), rand_scalar(&mut rng)), ("-G".to_string(), rand_scalar(&mut rng))] };
            let pts_b: Vec<G> = bases.iter().map(|b| self.pts.pt(*b)).collect();
            let map: BTreeMap<String, F> = fixed.iter().cloned().collect();
            let got = if fixed.is_empty() {
                catch(|| midnight_circuits::verifier::Msm::<S>::from_terms(&pts_b, &scalars))
            } else {
                catch(|| midnight_circuits::verifier::Msm::<S>::new(&pts_b, &scalars, &map))
            };
            let line = format!(
                "msm-new {} {} {}",
                mzkh::join(&bases.iter().map(fe_hex).collect::<Vec<_>>()),
                mzkh::join(&scalars.iter().map(fe_hex).collect::<Vec<_>>()),
                mzkh::join(&fixed.iter().map(|(k, v)| format!("{k}={}", fe_hex(v))).collect::<Vec<_>>())
            );
            ctx.case(if nb == ns { "msm-new" } else { "msm-new:len-mismatch" }, true, &line, &match got { Ok(m) => msm_str(&m, &self.pts, false), Err(_) => "panic".into() });
        }
    }

    // ---------------------------------------------------------------- scale / add_msm sequences
    pub fn dual_seq(&mut self, ctx: &mut Ctx, n: usize) {
        let mut rng = ctx.rng("c15:dual-seq");
        for i in 0..n {
            let all_valid = i % 3 != 0;
            let mk = |rng: &mut ChaCha8Rng| {
                let d = if all_valid || rng.gen_bool(0.5) { F::ZERO } else { nonzero(rng) };
                let pl = rng.gen_bool(0.5);
                gen_dual(rng, self.tau1, d, pl)
            };
            let d0 = if i % 11 == 0 { SDual::default() } else { mk(&mut rng) };
            let mut real = d0.real(&mut self.pts);
            let mut line = format!("dual-seq check {} {}", fe_hex(&self.tau1), d0.text());
            let mut defect = d0.defect(self.tau1);
            for _ in 0..rng.gen_range(0..5) {
                if rng.gen_bool(0.5) {
                    let f = rand_scalar(&mut rng);
                    real.scale(f);
                    defect *= f;
                    line.push_str(&format!(" s={}", fe_hex(&f)));
                } else {
                    let o = mk(&mut rng);
                    real.add_msm(o.real(&mut self.pts));
                    defect += o.defect(self.tau1);
                    line.push_str(&format!(" a={}", o.text()));
                }
            }
            let text = dual_str(&real, &self.pts);
            let ok = real.check(&self.vp1);
            if ok != (defect == F::ZERO) {
                ctx.oracle_fail("dualmsm:check-not-linear", "DualMSM::check after scale/add_msm differs from the linear combination of the members' defects", json!({"op": line}));
            }
            ctx.count(if ok { "dual-seq:accepted" } else { "dual-seq:rejected" });
            ctx.case("dual-seq", true, &line, &format!("{text} {}", ok as u8));
        }
    }

    /// The loop of `batch_verify` on explicit guards.
    fn horner_real(&mut self, gs: &[SDual], r: F) -> Option<DualMSM<E>> {
        let guards: Vec<DualMSM<E>> = gs.iter().map(|g| g.real(&mut self.pts)).collect();
        let mut acc = guards.first()?.clone();
        for g in guards.into_iter().skip(1) {
            acc.scale(r);
            acc.add_msm(g);
        }
        Some(acc)
    }

    fn horner_case(&mut self, ctx: &mut Ctx, kind: &str, gs: &[SDual], r: F) {
        let line = format!(
            "horner {} {} {}",
            fe_hex(&self.tau1),
            fe_hex(&r),
            gs.iter().map(|g| g.text()).collect::<Vec<_>>().join(" ")
        );
        let n = gs.len();
        // Σ r^(n-1-i) δᵢ
        let comb = gs.iter().fold(F::ZERO, |a, g| a * r + g.defect(self.tau1));
        match self.horner_real(gs, r) {
            None => ctx.case(kind, false, line.trim_end(), "empty"),
            Some(acc) => {
                let text = dual_str(&acc, &self.pts);
                let ok = acc.check(&self.vp1);
                if ok != (comb == F::ZERO) {
                    ctx.oracle_fail("dualmsm:horner-not-polynomial", "check of the Horner-combined guard differs from Σ r^(n-1-i)·δᵢ = 0", json!({"op": line}));
                }
                let all_valid = gs.iter().all(|g| g.defect(self.tau1) == F::ZERO);
                ctx.count(&format!("{kind}:n={n}:{}", if ok { if all_valid { "accept-valid" } else { "accept-at-root" } } else { "reject" }));
                ctx.case(kind, n > 1, &line, &format!("{text} {}", ok as u8));
            }
        }
    }

    pub fn horner(&mut self, ctx: &mut Ctx, reps: usize) {
        let mut rng = ctx.rng("c15:horner");
        let tau = self.tau1;
        for n in 0..=6usize {
            for rep in 0..reps {
                let r = if rep % 4 == 3 { [F::ZERO, F::ONE, -F::ONE][rng.gen_range(0..3)] } else { F::random(&mut rng) };
                // all valid
                let gs: Vec<SDual> = (0..n).map(|_| { let pl = rng.gen_bool(0.7); gen_dual(&mut rng, tau, F::ZERO, pl) }).collect();
                self.horner_case(ctx, "horner:all-valid", &gs, r);
                // one invalid at each position
                for bad in 0..n {
                    let gs: Vec<SDual> = (0..n)
                        .map(|i| { let d = if i == bad { nonzero(&mut rng) } else { F::ZERO }; let pl = rng.gen_bool(0.7); gen_dual(&mut rng, tau, d, pl) })
                        .collect();
                    self.horner_case(ctx, "horner:one-invalid", &gs, r);
                }
                // two invalid members whose defects cancel exactly at this r (a root of the
                // combination polynomial), and the same batch at another challenge
                if n >= 2 && r != F::ZERO {
                    let i = rng.gen_range(0..n - 1);
                    let j = rng.gen_range(i + 1..n);
                    let di = nonzero(&mut rng);
                    let dj = -di * r.pow([(j - i) as u64]);
                    let gs: Vec<SDual> = (0..n)
                        .map(|k| gen_dual(&mut rng, tau, if k == i { di } else if k == j { dj } else { F::ZERO }, true))
                        .collect();
                    self.horner_case(ctx, "horner:cancelling-at-root", &gs, r);
                    self.horner_case(ctx, "horner:cancelling-other-r", &gs, r + F::ONE);
                }
                // repeated members (same guard several times), and a permutation of a batch
                if n >= 2 {
                    let dg = nonzero(&mut rng);
                    let g = gen_dual(&mut rng, tau, dg, true);
                    let v = gen_dual(&mut rng, tau, F::ZERO, true);
                    let gs: Vec<SDual> = (0..n).map(|k| if k % 2 == 0 { g.clone() } else { v.clone() }).collect();
                    self.horner_case(ctx, "horner:repeated", &gs, r);
                    let mut perm = gs.clone();
                    perm.rotate_left(1);
                    self.horner_case(ctx, "horner:permuted", &perm, r);
                    // n copies of one invalid guard at r = −1: accepted iff n is even
                    let gs: Vec<SDual> = (0..n).map(|_| g.clone()).collect();
                    self.horner_case(ctx, "horner:repeated-minus-one", &gs, -F::ONE);
                }
            }
        }
    }

    // ---------------------------------------------------------------- Guard::batch_verify
    pub fn gbatch(&mut self, ctx: &mut Ctx, reps: usize) {
        let mut rng = ctx.rng("c15:gbatch");
        let taus = [self.tau1, self.tau2];
        for ng in 0..=4usize {
            for np in 0..=4usize {
                if ng != np && (ng > 3 || np > 3) {
                    continue;
                }
                for rep in 0..reps {
                    let which: Vec<usize> = (0..np).map(|_| rng.gen_range(0..2)).collect();
                    // guard i is built valid for params which[i] (if it exists), except one
                    let bad = if rep % 2 == 1 && ng > 0 { Some(rng.gen_range(0..ng)) } else { None };
                    let gs: Vec<SDual> = (0..ng)
                        .map(|i| {
                            let t = taus[*which.get(i).unwrap_or(&0)];
                            match bad {
                                Some(b) if b == i => {
                                    if rng.gen_bool(0.5) {
                                        // valid under the OTHER parameters only
                                        gen_dual(&mut rng, taus[1 - *which.get(i).unwrap_or(&0)], F::ZERO, true)
                                    } else {
                                        { let d = nonzero(&mut rng); gen_dual(&mut rng, t, d, true) }
                                    }
                                }
                                _ => { let pl = rng.gen_bool(0.5); gen_dual(&mut rng, t, F::ZERO, pl) }
                            }
                        })
                        .collect();
                    let line = format!(
                        "gbatch {} {}",
                        mzkh::join(&which.iter().map(|w| fe_hex(&taus[*w])).collect::<Vec<_>>()),
                        gs.iter().map(|g| g.text()).collect::<Vec<_>>().join(" ")
                    );
                    let guards: Vec<DualMSM<E>> = gs.iter().map(|g| g.real(&mut self.pts)).collect();
                    let params: Vec<&ParamsVerifierKZG<E>> =
                        which.iter().map(|w| if *w == 0 { &self.vp1 } else { &self.vp2 }).collect();
                    let got = catch(|| <DualMSM<E> as Guard<F, midnight_proofs::poly::kzg::KZGCommitmentScheme<E>>>::batch_verify(guards.into_iter(), params.into_iter()));
                    let expect_ok = ng == np && gs.iter().zip(which.iter()).all(|(g, w)| g.defect(taus[*w]) == F::ZERO);
                    let kind = if ng != np { "gbatch:len-mismatch" } else if ng == 0 { "gbatch:empty" } else { "gbatch" };
                    match got {
                        Ok(res) => {
                            if res.is_ok() != expect_ok {
                                ctx.oracle_fail("guard-batch:verdict", "Guard::batch_verify differs from the conjunction of the individual checks", json!({"op": line}));
                            }
                            let s = match res {
                                Ok(()) => "ok".to_string(),
                                Err(e) => format!("err:{e:?}"),
                            };
                            ctx.case(kind, ng > 0, line.trim_end(), &s);
                        }
                        Err(p) => {
                            ctx.oracle_fail("guard-batch:len-mismatch", "Guard::batch_verify panics", json!({"op": line, "panic": p}));
                            ctx.case(kind, true, line.trim_end(), "panic");
                        }
                    }
                }
            }
        }
    }

    // ---------------------------------------------------------------- Accumulator
    fn fixed_setup(&self, rng: &mut ChaCha8Rng, prefixes: &[&str]) -> Vec<(String, F)> {
        let mut fb = vec![("-G".to_string(), -F::ONE)];
        for p in prefixes {
            for i in 0..rng.gen_range(1..13usize) {
                fb.push((format!("{p}_fixed_com_{i}"), rand_log(rng)));
            }
            for i in 0..rng.gen_range(1..4usize) {
                fb.push((format!("{p}_perm_com_{i}"), rand_log(rng)));
            }
        }
        fb
    }

    /// A guard shaped like the output of `multi_prepare` for a key named `pfx`:
    /// left `1·π`; right: advice/instance/unlabelled terms, fixed and permutation commitments of
    /// the key (each at most once unless `dup`), `x₃·π` and `v·(−G)`; defect `d`.
    fn gen_proof_dual(&self, rng: &mut ChaCha8Rng, fb: &[(String, F)], pfx: &str, d: F, dup: bool) -> SDual {
        let pi = rand_log(rng);
        let left = vec![T { s: F::ONE, b: pi, l: CommitmentLabel::Custom("π".into()) }];
        let mut right = vec![];
        for i in 0..rng.gen_range(1..5) {
            right.push(T { s: rand_scalar(rng), b: rand_log(rng), l: CommitmentLabel::Advice(i) });
        }
        for (name, b) in fb {
            if let Some(rest) = name.strip_prefix(&format!("{pfx}_fixed_com_")) {
                if rng.gen_bool(0.7) {
                    right.push(T { s: rand_scalar(rng), b: *b, l: CommitmentLabel::Fixed(rest.parse().unwrap()) });
                }
            }
            if let Some(rest) = name.strip_prefix(&format!("{pfx}_perm_com_")) {
                right.push(T { s: rand_scalar(rng), b: *b, l: CommitmentLabel::Permutation(rest.parse().unwrap()) });
            }
        }
        if dup && !right.is_empty() {
            let k = rng.gen_range(0..right.len());
            let mut t = right[k].clone();
            t.s = rand_scalar(rng);
            right.push(t);
        }
        right.push(T { s: rand_scalar(rng), b: rand_log(rng), l: CommitmentLabel::NoLabel });
        right.push(T { s: rand_scalar(rng), b: pi, l: CommitmentLabel::Custom("π".into()) });
        let ev = |ts: &[T]| ts.iter().fold(F::ZERO, |a, t| a + t.s * t.b);
        // v·(−G) fixes the defect: −v = τ·π − d − Σ others
        let v = -(self.tau1 * pi - d - ev(&right));
        right.push(T { s: v, b: -F::ONE, l: CommitmentLabel::Custom("-G".into()) });
        let sd = SDual { left, right };
        assert_eq!(sd.defect(self.tau1), d);
        sd
    }

    fn acc_check_str(&mut self, acc: &Accumulator<S>, fb: &BTreeMap<String, G>) -> String {
        let tau_g2: <S as SelfEmulation>::G2Affine = (G2Projective::generator() * self.tau1).into();
        match catch(|| acc.check(&tau_g2, fb)) {
            Ok(b) => format!("{}", b as u8),
            Err(_) => "panic".into(),
        }
    }

    pub fn from_dual(&mut self, ctx: &mut Ctx, n: usize) {
        let mut rng = ctx.rng("c15:fromdual");
        for i in 0..n {
            let pfx = ["inner_vk", "vkA", "k"][i % 3];
            let mut fb = self.fixed_setup(&mut rng, &[pfx, "other"]);
            let d = if (i + i / 8) % 2 == 0 { F::ZERO } else { nonzero(&mut rng) };
            let variant = i % 8;
            let dup = variant == 5;
            let mut sd = self.gen_proof_dual(&mut rng, &fb, pfx, d, dup);
            let kind = match variant {
                5 => "fromdual:repeated-label",
                6 => {
                    // a fixed commitment that is not the one of the map
                    if let Some(t) = sd.right.iter_mut().find(|t| matches!(t.l, CommitmentLabel::Fixed(_) | CommitmentLabel::Permutation(_))) {
                        t.b += F::ONE;
                    }
                    "fromdual:wrong-base"
                }
                7 => {
                    // the map lacks a name the guard refers to
                    fb.retain(|(k, _)| !(k.starts_with(pfx) && k.contains("_perm_com_0")));
                    "fromdual:missing-name"
                }
                4 => {
                    // general shape: labels on the left as well, arbitrary terms
                    sd.left.push(T { s: rand_scalar(&mut rng), b: -F::ONE, l: CommitmentLabel::Custom("-G".into()) });
                    "fromdual:labels-left"
                }
                _ => "fromdual",
            };
            let fb_map = fb_real(&fb, &mut self.pts);
            let real = sd.real(&mut self.pts);
            let line = format!("fromdual {pfx} {} {}", sd.text(), fb_text(&fb));
            let got = catch(|| Accumulator::<S>::from_dual_msm(real.clone(), pfx, &fb_map));
            match got {
                Ok(acc) => {
                    ctx.case(kind, true, &line, &acc_str(&acc, &self.pts, false));
                    // evaluation: acc.check vs guard.check
                    let accs = SAccOf::from_real(&acc, &self.pts);
                    let chk = self.acc_check_str(&acc, &fb_map);
                    ctx.case("acc-check", true, &format!("acc-check {} {} {}", fe_hex(&self.tau1), accs, fb_text(&fb)), &chk);
                    let gchk = real.check(&self.vp1);
                    let same = chk == format!("{}", gchk as u8);
                    if !same {
                        // regression of 348977f when a fixed label repeats
                        ctx.oracle_fail(
                            if dup { "from_dual_msm:repeated-label" } else { "from_dual_msm:changes-verdict" },
                            "Accumulator::from_dual_msm(guard).check differs from guard.check",
                            json!({"op": line, "acc_check": chk, "guard_check": gchk}),
                        );
                    }
                }
                Err(_) => ctx.case(kind, true, &line, "panic"),
            }
        }
    }

    /// Regression of 348977f: the guard `r·g₁ + g₂ (+ …)` of several proofs under ONE key (every
    /// fixed label and `-G` occur once per member) converted with `from_dual_msm`.
    pub fn from_dual_sum(&mut self, ctx: &mut Ctx, n: usize) {
        let mut rng = ctx.rng("c15:fromdual-sum");
        for i in 0..n {
            let pfx = "inner_vk";
            let fb = self.fixed_setup(&mut rng, &[pfx]);
            let k = 2 + i % 3;
            let bad = if i % 2 == 1 { Some(rng.gen_range(0..k)) } else { None };
            let r = rand_scalar(&mut rng);
            let gs: Vec<SDual> = (0..k)
                .map(|j| {
                    let d = if bad == Some(j) { nonzero(&mut rng) } else { F::ZERO };
                    self.gen_proof_dual(&mut rng, &fb, pfx, d, false)
                })
                .collect();
            let mut line = format!("dual-seq struct {} {}", fe_hex(&self.tau1), gs[0].text());
            let mut real = gs[0].real(&mut self.pts);
            let mut sum = gs[0].clone();
            for g in &gs[1..] {
                real.scale(r);
                real.add_msm(g.real(&mut self.pts));
                line.push_str(&format!(" s={} a={}", fe_hex(&r), g.text()));
                for t in sum.left.iter_mut().chain(sum.right.iter_mut()) {
                    t.s *= r;
                }
                sum.left.extend(g.left.clone());
                sum.right.extend(g.right.clone());
            }
            ctx.case("dual-seq:sum-of-proof-guards", true, &line, &dual_str(&real, &self.pts));
            let fb_map = fb_real(&fb, &mut self.pts);
            let fline = format!("fromdual {pfx} {} {}", sum.text(), fb_text(&fb));
            match catch(|| Accumulator::<S>::from_dual_msm(real.clone(), pfx, &fb_map)) {
                Ok(acc) => {
                    ctx.case("fromdual:sum-of-guards", true, &fline, &acc_str(&acc, &self.pts, false));
                    let chk = self.acc_check_str(&acc, &fb_map);
                    let gchk = real.check(&self.vp1);
                    if chk != format!("{}", gchk as u8) {
                        ctx.oracle_fail("from_dual_msm:repeated-label", "Accumulator::from_dual_msm of a sum of guards under one key: check differs from the guard's check", json!({"op": fline, "acc_check": chk, "guard_check": gchk}));
                    }
                    ctx.count(&format!("fromdual:sum-of-guards:{}", if gchk { "valid" } else { "invalid" }));
                }
                Err(p) => {
                    ctx.oracle_fail("from_dual_msm:panic", "Accumulator::from_dual_msm panics on a sum of guards under one key", json!({"op": fline, "panic": p}));
                    ctx.case("fromdual:sum-of-guards", true, &fline, "panic");
                }
            }
        }
    }

    fn gen_smsm(&self, rng: &mut ChaCha8Rng, names: &[String], nterms: usize) -> SMsm {
        let terms = (0..nterms).map(|_| (rand_scalar(rng), rand_log(rng))).collect();
        let mut fixed: Vec<(String, F)> = vec![];
        for n in names {
            if rng.gen_bool(0.6) {
                fixed.push((n.clone(), rand_scalar(rng)));
            }
        }
        SMsm { terms, fixed }
    }

    /// Accumulator with defect `τ·lhs − rhs = d` under the fixed bases `fb`.
    fn gen_sacc(&self, rng: &mut ChaCha8Rng, fb: &[(String, F)], d: F, proof_like: bool) -> (SMsm, SMsm) {
        let names: Vec<String> = fb.iter().map(|(k, _)| k.clone()).collect();
        let lhs = if proof_like {
            SMsm { terms: vec![(F::ONE, rand_log(rng))], fixed: vec![] }
        } else {
            { let k = rng.gen_range(0..3); self.gen_smsm(rng, &names, k) }
        };
        let k = rng.gen_range(0..4);
        let mut rhs = self.gen_smsm(rng, &names, k);
        let ev = |m: &SMsm| {
            m.terms.iter().fold(F::ZERO, |a, (s, b)| a + *s * *b)
                + m.fixed.iter().fold(F::ZERO, |a, (k, s)| a + *s * fb.iter().find(|(n, _)| n == k).unwrap().1)
        };
        let want = self.tau1 * ev(&lhs) - d - ev(&rhs);
        let b = F::from(rng.next_u64() | 1);
        rhs.terms.push((want * b.invert().unwrap(), b));
        assert_eq!(self.tau1 * ev(&lhs) - ev(&rhs), d);
        (lhs, rhs)
    }

    pub fn acc_ops(&mut self, ctx: &mut Ctx, n: usize) {
        let mut rng = ctx.rng("c15:acc-ops");
        let tau = self.tau1;
        for i in 0..n {
            let fb = self.fixed_setup(&mut rng, &["vkA", "vkB"][..1 + i % 2]);
            let fb_map = fb_real(&fb, &mut self.pts);
            // ---- Msm::accumulate_with_r / Msm::eval
            {
                let names: Vec<String> = fb.iter().map(|(k, _)| k.clone()).collect();
                let k1 = rng.gen_range(0..4);
                let m1 = self.gen_smsm(&mut rng, &names, k1);
                let k2 = rng.gen_range(0..4);
                let m2 = self.gen_smsm(&mut rng, &names, k2);
                let r = rand_scalar(&mut rng);
                let (r1, r2) = (m1.real(&mut self.pts), m2.real(&mut self.pts));
                let out = r1.accumulate_with_r(&r2, r);
                ctx.case("msm-accumulate", true, &format!("msm-accumulate {} {} {}", fe_hex(&r), m1.text(), m2.text()), &msm_str(&out, &self.pts, false));
                let ev = catch(|| out.eval(&fb_map));
                let outs = SAccOf::msm_text(&out, &self.pts);
                ctx.case("msm-acc-eval", true, &format!("msm-acc-eval {} {}", outs, fb_text(&fb)), &match &ev { Ok(p) => affine_str(p), Err(_) => "panic".into() });
                if let (Ok(e), Ok(e1), Ok(e2)) = (&ev, catch(|| r1.eval(&fb_map)), catch(|| r2.eval(&fb_map))) {
                    if *e != e1 + e2 * r {
                        ctx.oracle_fail("msm:accumulate_with_r:eval", "Msm::accumulate_with_r does not evaluate to self + r·other", json!({"r": fe_hex(&r), "m1": m1.text(), "m2": m2.text()}));
                    }
                }
                // a map that lacks one of the names
                if i % 4 == 0 && !out.fixed_base_scalars().is_empty() {
                    let missing = out.fixed_base_scalars().keys().next().unwrap().clone();
                    let fb2: Vec<(String, F)> = fb.iter().filter(|(k, _)| *k != missing).cloned().collect();
                    let fb2_map = fb_real(&fb2, &mut self.pts);
                    let ev = catch(|| out.eval(&fb2_map));
                    ctx.case("msm-acc-eval:missing-base", true, &format!("msm-acc-eval {} {}", outs, fb_text(&fb2)), &match &ev { Ok(p) => affine_str(p), Err(_) => "panic".into() });
                }
            }
            // ---- Accumulator::accumulate of 0..5, collapse, check
            let k = if i % 9 == 8 { 0 } else { 1 + i % 5 };
            let bad: Option<usize> = if k > 0 && i % 2 == 1 { Some(rng.gen_range(0..k)) } else { None };
            let mut saccs = vec![];
            let mut accs: Vec<Accumulator<S>> = vec![];
            let mut each = vec![];
            for j in 0..k {
                let d = if bad == Some(j) { nonzero(&mut rng) } else { F::ZERO };
                let pl = rng.gen_bool(0.6);
                let (l, r) = self.gen_sacc(&mut rng, &fb, d, pl);
                let acc = Accumulator::<S>::new(l.real(&mut self.pts), r.real(&mut self.pts));
                let text = format!("{}|{}", l.text(), r.text());
                let chk = self.acc_check_str(&acc, &fb_map);
                ctx.case("acc-check", true, &format!("acc-check {} {} {}", fe_hex(&tau), text, fb_text(&fb)), &chk);
                if chk != format!("{}", (d == F::ZERO) as u8) {
                    ctx.oracle_fail("accumulator:check", "Accumulator::check differs from τ·lhs = rhs", json!({"acc": text, "fb": fb_text(&fb)}));
                }
                each.push(d == F::ZERO);
                // collapse keeps the verdict and the fixed part
                let mut c = acc.clone();
                c.collapse();
                ctx.case("acc-collapse", true, &format!("acc-collapse {text}"), &acc_str(&c, &self.pts, true));
                let cchk = self.acc_check_str(&c, &fb_map);
                if cchk != chk {
                    ctx.oracle_fail("accumulator:collapse-changes-verdict", "Accumulator::collapse changes the result of check", json!({"acc": text, "fb": fb_text(&fb)}));
                }
                // as_public_input layout
                let pi = AssignedAccumulator::<S>::as_public_input(&acc);
                let mut enc = BTreeMap::new();
                for (_, b) in l.terms.iter().chain(r.terms.iter()) {
                    let p = self.pts.pt(*b);
                    enc.insert(fe_hex(b), <<S as SelfEmulation>::AssignedPoint as Instantiable<F>>::as_public_input(&p));
                }
                let enc_text = mzkh::join(
                    &enc.iter().map(|(b, fs)| format!("{b}={}", fs.iter().map(fe_hex).collect::<Vec<_>>().join("/"))).collect::<Vec<_>>(),
                );
                ctx.case("accpi", true, &format!("accpi {text} {enc_text}"), &mzkh::join(&pi.iter().map(fe_hex).collect::<Vec<_>>()));
                saccs.push(text);
                accs.push(acc);
            }
            // the combination challenge: the sponge over the public-input form of ALL members
            let hash_input: Vec<F> = accs.iter().flat_map(AssignedAccumulator::<S>::as_public_input).collect();
            let r = <PoseidonChip<F> as HashCPU<F, F>>::hash(&hash_input);
            let line = format!("accumulate {} {}", fe_hex(&r), saccs.join(" "));
            let kind = format!("accumulate:n={k}");
            match catch(|| Accumulator::<S>::accumulate(&accs)) {
                Ok(out) => {
                    ctx.case(&kind, k > 1, line.trim_end(), &acc_str(&out, &self.pts, false));
                    let chk = self.acc_check_str(&out, &fb_map);
                    let outs = SAccOf::from_real(&out, &self.pts);
                    ctx.case("acc-check", true, &format!("acc-check {} {} {}", fe_hex(&tau), outs, fb_text(&fb)), &chk);
                    let want = each.iter().all(|b| *b);
                    if chk != format!("{}", want as u8) {
                        ctx.oracle_fail(
                            if want { "accumulate:rejects-valid" } else { "accumulate:accepts-invalid" },
                            "check of Accumulator::accumulate(accs) differs from the conjunction of the members' checks",
                            json!({"op": line, "each": each}),
                        );
                    }
                    ctx.count(&format!("accumulate:n={k}:{}", if want { "all-valid" } else { "one-invalid" }));
                    // collapse after accumulate
                    let mut c = out.clone();
                    c.collapse();
                    if self.acc_check_str(&c, &fb_map) != chk {
                        ctx.oracle_fail("accumulator:collapse-changes-verdict", "Accumulator::collapse changes the result of check", json!({"op": line}));
                    }
                    // r depends on every member: perturbing any scalar of any member changes
                    // the scalars the later members are multiplied with
                    if k >= 2 && i % 3 == 0 {
                        self.r_sensitivity(ctx, &accs, r);
                    }
                }
                Err(_) => {
                    // every slice has a value; the empty one is the regression of f706bff
                    // (`accs[0]` on an empty slice)
                    ctx.case(&kind, false, line.trim_end(), "panic");
                    if k > 0 {
                        ctx.oracle_fail("accumulate:panic", "Accumulator::accumulate panics on a non-empty slice", json!({"op": line}));
                    } else {
                        ctx.oracle_fail("accumulate:empty-slice-panics", "Accumulator::accumulate(&[]) panics instead of returning a value", json!({"op": line}));
                    }
                }
            }
        }
    }

    /// The attack that succeeds iff the combination challenge of `accumulate` ignores one
    /// component of member `j`: members valid except `i` (defect `dᵢ`); the challenge `r` used on
    /// this batch is read off the output; the chosen component of member `j` (an lhs/rhs scalar, an
    /// lhs/rhs base, a fixed-base scalar) is then changed so that member `j` gets the defect
    /// `−r^(i−j)·dᵢ` that cancels member `i` AT THAT `r`; the batch is accumulated again. A
    /// challenge that hashes every component of every member is different the second time.
    pub fn adaptive_acc(&mut self, ctx: &mut Ctx, reps: usize) {
        let mut rng = ctx.rng("c15:adaptive-acc");
        let tau = self.tau1;
        let fb = vec![("-G".to_string(), -F::ONE), ("vkA_fixed_com_0".to_string(), F::from(77))];
        let fb_map = fb_real(&fb, &mut self.pts);
        let nz = |rng: &mut ChaCha8Rng| F::from(rng.next_u64() | 1);
        for rep in 0..reps {
            for n in [2usize, 3, 5] {
                for i in 0..n {
                    for j in 0..n {
                        if i == j {
                            continue;
                        }
                        for comp in 0..5 {
                            if (rep + n + i + j + comp) % 2 == 1 && reps < 4 {
                                continue;
                            }
                            // members: lhs one term, rhs two terms + "-G" scalar, all non-zero
                            let mut ms: Vec<(SMsm, SMsm)> = (0..n)
                                .map(|k| {
                                    let d = if k == i { nz(&mut rng) } else { F::ZERO };
                                    let (ls, lb) = (if k == j { nz(&mut rng) } else { F::ONE }, nz(&mut rng));
                                    let (s1, b1, g) = (nz(&mut rng), nz(&mut rng), nz(&mut rng));
                                    // τ·ls·lb − (s1·b1 + s2·b2 − g) = d
                                    let b2 = nz(&mut rng);
                                    let s2 = (tau * ls * lb - d - s1 * b1 + g) * b2.invert().unwrap();
                                    (
                                        SMsm { terms: vec![(ls, lb)], fixed: vec![] },
                                        SMsm { terms: vec![(s1, b1), (s2, b2)], fixed: vec![("-G".to_string(), g)] },
                                    )
                                })
                                .collect();
                            let d_i = {
                                let (l, r) = &ms[i];
                                tau * l.terms[0].0 * l.terms[0].1 - (r.terms[0].0 * r.terms[0].1 + r.terms[1].0 * r.terms[1].1 - r.fixed[0].1)
                            };
                            let build = |ms: &[(SMsm, SMsm)], pts: &mut Pts| -> Vec<Accumulator<S>> {
                                ms.iter().map(|(l, r)| Accumulator::<S>::new(l.real(pts), r.real(pts))).collect()
                            };
                            let accs = build(&ms, &mut self.pts);
                            let out = Accumulator::<S>::accumulate(&accs);
                            // member k contributes the lhs scalar rᵏ·lsₖ at position k
                            let sc = out.lhs().scalars();
                            // position 1 holds r·ls₁
                            let r = sc[1] * ms[1].0.terms[0].0.invert().unwrap();
                            let target = if i > j { -r.pow([(i - j) as u64]) * d_i } else { -r.invert().unwrap_or(F::ONE).pow([(j - i) as u64]) * d_i };
                            // give member j the defect `target` by changing ONE component
                            let (l, rr) = &mut ms[j];
                            let what = match comp {
                                0 => {
                                    let (s, b) = rr.terms[0];
                                    rr.terms[0] = (s - target * b.invert().unwrap(), b);
                                    "rhs-scalar"
                                }
                                1 => {
                                    rr.fixed[0].1 += target;
                                    "rhs-fixed-scalar"
                                }
                                2 => {
                                    let (s, b) = l.terms[0];
                                    l.terms[0] = (s + target * (tau * b).invert().unwrap(), b);
                                    "lhs-scalar"
                                }
                                3 => {
                                    let (s, b) = rr.terms[0];
                                    rr.terms[0] = (s, b - target * s.invert().unwrap());
                                    "rhs-base"
                                }
                                _ => {
                                    let (s, b) = l.terms[0];
                                    l.terms[0] = (s, b + target * (tau * s).invert().unwrap());
                                    "lhs-base"
                                }
                            };
                            let accs2 = build(&ms, &mut self.pts);
                            let out2 = Accumulator::<S>::accumulate(&accs2);
                            let chk = self.acc_check_str(&out2, &fb_map);
                            ctx.count(&format!("accumulate:adaptive-attack:{what}:{}", if chk == "1" { "ACCEPTED" } else { "rejected" }));
                            if chk != "0" {
                                ctx.oracle_fail(
                                    &format!("accumulate:accepts-invalid:adaptive:{what}"),
                                    "Accumulator::accumulate accepts a batch with invalid members chosen after observing the combination challenge (the challenge does not depend on that component)",
                                    json!({"n": n, "i": i, "j": j, "component": what, "accs": ms.iter().map(|(l, r)| format!("{}|{}", l.text(), r.text())).collect::<Vec<_>>(), "fb": fb_text(&fb), "tau": fe_hex(&tau)}),
                                );
                            }
                        }
                    }
                }
            }
        }
    }

    /// `r` as visible in the output of `accumulate`: the scalar of the first lhs term of member 1
    /// is multiplied by `r`.
    fn r_sensitivity(&mut self, ctx: &mut Ctx, accs: &[Accumulator<S>], r: F) {
        let observe = |accs: &[Accumulator<S>]| -> Option<F> {
            // first member with a non-zero lhs scalar after position 0
            let out = Accumulator::<S>::accumulate(accs);
            let n0 = accs[0].lhs().scalars().len();
            let s1 = accs[1].lhs().scalars();
            let idx = s1.iter().position(|s| *s != F::ZERO)?;
            Some(out.lhs().scalars()[n0 + idx] * s1[idx].invert().unwrap())
        };
        let Some(r0) = observe(accs) else { return };
        if r0 != r {
            ctx.oracle_fail("accumulate:r-not-hash-of-all", "the combination scalar of Accumulator::accumulate is not the sponge of the members' public inputs", json!({"expected": fe_hex(&r), "observed": fe_hex(&r0)}));
        }
        for j in 0..accs.len() {
            for side in 0..2 {
                // perturb one rhs/lhs scalar of member j (keeping member 1's lhs scalar usable)
                let mut v = accs.to_vec();
                let (l, rr) = (v[j].lhs(), v[j].rhs());
                let m = if side == 0 { &l } else { &rr };
                let (b, mut s, f) = (m.bases(), m.scalars(), m.fixed_base_scalars());
                if s.is_empty() || (j == 1 && side == 0) {
                    continue;
                }
                let last = s.len() - 1;
                s[last] += F::ONE;
                let m2 = midnight_circuits::verifier::Msm::<S>::new(&b, &s, &f);
                v[j] = if side == 0 { Accumulator::new(m2, rr.clone()) } else { Accumulator::new(l.clone(), m2) };
                if let Some(r1) = observe(&v) {
                    ctx.count("accumulate:r-sensitivity-probes");
                    if r1 == r0 {
                        ctx.oracle_fail("accumulate:r-independent-of-member", "the combination scalar of Accumulator::accumulate does not change when a member changes", json!({"member": j, "side": side}));
                    }
                }
            }
        }
    }
}

/// Text (in the request format) of a REAL accumulator all of whose points are known.
pub struct SAccOf;
impl SAccOf {
    pub fn msm_text(m: &midnight_circuits::verifier::Msm<S>, pts: &Pts) -> String {
        msm_str(m, pts, false)
    }
    pub fn from_real(a: &Accumulator<S>, pts: &Pts) -> String {
        acc_str(a, pts, false)
    }
}
