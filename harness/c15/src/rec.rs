//! `RecH`: a `TranscriptHash` with the byte-for-byte behaviour of the Blake2b transcript hash
//! of midnight-proofs that (1) logs every `init` / `absorb` / `squeeze` with the identity of
//! the hasher instance and (2) can be told to answer the squeeze of the FIRST instance created
//! after a reset (in `zk_stdlib::batch_verify` that is the batching transcript `r_transcript`)
//! with a chosen scalar. `batch_verify` is generic over `H: TranscriptHash`, so this needs no
//! hook: the real function runs unmodified.

use std::io::{self, Read};
use std::sync::Mutex;

use blake2b_simd::State as Blake2bState;
use ff::{FromUniformBytes, PrimeField};
use midnight_curves::{Fq, G1Projective};
use midnight_proofs::transcript::{Hashable, Sampleable, TranscriptHash};

#[derive(Clone, Debug, PartialEq, Eq)]
pub enum Ev {
    Init,
    Absorb(Vec<u8>),
    Squeeze(Vec<u8>),
}

struct Global {
    next_id: usize,
    log: Vec<(usize, Ev)>,
    /// 64 bytes returned by the squeeze of instance 0 instead of the Blake2b output.
    force_first: Option<Vec<u8>>,
}

static STATE: Mutex<Global> = Mutex::new(Global { next_id: 0, log: Vec::new(), force_first: None });

/// Clears the log, restarts instance numbering and sets the forced answer of instance 0.
pub fn reset(force_first: Option<Fq>) {
    let mut g = STATE.lock().unwrap();
    g.next_id = 0;
    g.log.clear();
    g.force_first = force_first.map(|v| {
        let mut b = vec![0u8; 64];
        b[..32].copy_from_slice(v.to_repr().as_ref());
        b
    });
}

pub fn take_log() -> Vec<(usize, Ev)> {
    let mut g = STATE.lock().unwrap();
    g.force_first = None;
    std::mem::take(&mut g.log)
}

#[derive(Clone)]
pub struct RecH {
    inner: Blake2bState,
    id: usize,
}

impl TranscriptHash for RecH {
    type Input = Vec<u8>;
    type Output = Vec<u8>;

    fn init() -> Self {
        let mut g = STATE.lock().unwrap();
        let id = g.next_id;
        g.next_id += 1;
        g.log.push((id, Ev::Init));
        RecH { inner: <Blake2bState as TranscriptHash>::init(), id }
    }

    fn absorb(&mut self, input: &Vec<u8>) {
        STATE.lock().unwrap().log.push((self.id, Ev::Absorb(input.clone())));
        self.inner.absorb(input)
    }

    fn squeeze(&mut self) -> Vec<u8> {
        let real = self.inner.squeeze();
        let mut g = STATE.lock().unwrap();
        let out = match (&g.force_first, self.id) {
            (Some(f), 0) => f.clone(),
            _ => real,
        };
        g.log.push((self.id, Ev::Squeeze(out.clone())));
        out
    }
}

impl Hashable<RecH> for G1Projective {
    fn to_input(&self) -> Vec<u8> {
        <G1Projective as Hashable<Blake2bState>>::to_input(self)
    }
    fn to_bytes(&self) -> Vec<u8> {
        <G1Projective as Hashable<Blake2bState>>::to_bytes(self)
    }
    fn read(buffer: &mut impl Read) -> io::Result<Self> {
        <G1Projective as Hashable<Blake2bState>>::read(buffer)
    }
}

impl Hashable<RecH> for Fq {
    fn to_input(&self) -> Vec<u8> {
        <Fq as Hashable<Blake2bState>>::to_input(self)
    }
    fn to_bytes(&self) -> Vec<u8> {
        <Fq as Hashable<Blake2bState>>::to_bytes(self)
    }
    fn read(buffer: &mut impl Read) -> io::Result<Self> {
        <Fq as Hashable<Blake2bState>>::read(buffer)
    }
}

/// The scalar a 64-byte hash output is sampled to (`Sampleable<Blake2bState> for Fq`).
pub fn sample_fq(out: &[u8]) -> Fq {
    let mut bytes = [0u8; 64];
    bytes[..out.len()].copy_from_slice(out);
    Fq::from_uniform_bytes(&bytes)
}

impl Sampleable<RecH> for Fq {
    fn sample(hash_output: Vec<u8>) -> Self {
        <Fq as Sampleable<Blake2bState>>::sample(hash_output)
    }
}
