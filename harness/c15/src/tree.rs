//! Synthetic layer, part 2:
//! * trees of `DualMSM::scale` / `DualMSM::add_msm` calls of ANY shape through the real code
//!   (request `dual-tree`, postfix tokens) — structure, verdict and the coefficient of every leaf
//!   (read off the real result: every leaf has the left channel `1·π`, so the left scalars of the
//!   result ARE the coefficients);
//! * `Msm::accumulate_with_r` for every pair of key sets over four names (16 × 16: equal, disjoint,
//!   nested, overlapping, empty), per-key oracle, and `Accumulator::accumulate` / `collapse` /
//!   `check` of members whose fixed-base maps follow key-set patterns of several keys;
//! * totality probes of the entry points (empty accumulator, empty slices).

use std::collections::BTreeMap;

use ff::Field;
use group::Group;
use midnight_circuits::{
    types::Instantiable,
    verifier::{Accumulator, AssignedAccumulator, SelfEmulation},
};
use midnight_curves::G2Projective;
use midnight_proofs::poly::kzg::msm::DualMSM;
use mzkh::{catch, fe_hex, Ctx};
use rand::{Rng, RngCore};
use rand_chacha::ChaCha8Rng;
use serde_json::json;

use crate::fmt::*;
use crate::synth::{gen_dual, rand_scalar, Synth};

pub enum Tr {
    Leaf(SDual),
    Scale(Box<Tr>, F),
    Add(Box<Tr>, Box<Tr>),
}

impl Tr {
    /// The REAL calls, in the shape of the tree.
    fn run(&self, pts: &mut Pts) -> DualMSM<E> {
        match self {
            Tr::Leaf(d) => d.real(pts),
            Tr::Scale(t, e) => {
                let mut d = t.run(pts);
                d.scale(*e);
                d
            }
            Tr::Add(t, o) => {
                let mut d = t.run(pts);
                d.add_msm(o.run(pts));
                d
            }
        }
    }
    fn tokens(&self, out: &mut Vec<String>) {
        match self {
            Tr::Leaf(d) => out.push(format!("L={}", d.text())),
            Tr::Scale(t, e) => {
                t.tokens(out);
                out.push(format!("S={}", fe_hex(e)));
            }
            Tr::Add(t, o) => {
                t.tokens(out);
                o.tokens(out);
                out.push("A".into());
            }
        }
    }
    /// (coefficient, defect) of every leaf.
    fn leaves(&self, tau: F) -> Vec<(F, F)> {
        match self {
            Tr::Leaf(d) => vec![(F::ONE, d.defect(tau))],
            Tr::Scale(t, e) => t.leaves(tau).into_iter().map(|(c, d)| (c * *e, d)).collect(),
            Tr::Add(t, o) => {
                let mut l = t.leaves(tau);
                l.extend(o.leaves(tau));
                l
            }
        }
    }
    fn scaled(self, e: F, times: usize) -> Tr {
        (0..times).fold(self, |t, _| Tr::Scale(Box::new(t), e))
    }
}

fn nz(rng: &mut ChaCha8Rng) -> F {
    F::from(rng.next_u64() | 1)
}

/// Shapes in which every `scale` uses one challenge `r`; `exps[i]` = number of scales above leaf i.
fn uniform_shape(which: usize, r: F, leaves: Vec<SDual>) -> (Tr, Vec<usize>, &'static str) {
    let n = leaves.len();
    let mut it = leaves.into_iter();
    match which {
        // the loop of batch_verify: acc.scale(r); acc.add_msm(g)
        0 => {
            let mut t = Tr::Leaf(it.next().unwrap());
            for g in it {
                t = Tr::Add(Box::new(Tr::Scale(Box::new(t), r)), Box::new(Tr::Leaf(g)));
            }
            (t, (0..n).rev().collect(), "horner")
        }
        // the shape of seed C15-1: g.scale(r); acc.add_msm(g)  — exponents 0,1,1,…,1
        1 => {
            let mut t = Tr::Leaf(it.next().unwrap());
            for g in it {
                t = Tr::Add(Box::new(t), Box::new(Tr::Scale(Box::new(Tr::Leaf(g)), r)));
            }
            (t, (0..n).map(|i| (i > 0) as usize).collect(), "incoming-scaled")
        }
        // the shape of Accumulator::accumulate: member i scaled i times, then added
        2 => {
            let mut t = Tr::Leaf(it.next().unwrap());
            for (i, g) in it.enumerate() {
                t = Tr::Add(Box::new(t), Box::new(Tr::Leaf(g).scaled(r, i + 1)));
            }
            (t, (0..n).collect(), "powers-ascending")
        }
        // two Horner halves, the first scaled past the second: a tree that is not a chain
        _ => {
            let all: Vec<SDual> = it.collect();
            let horner = |gs: &[SDual]| {
                let mut t = Tr::Leaf(gs[0].clone());
                for g in &gs[1..] {
                    t = Tr::Add(Box::new(Tr::Scale(Box::new(t), r)), Box::new(Tr::Leaf(g.clone())));
                }
                t
            };
            if n == 1 {
                return (horner(&all), vec![0], "two-halves");
            }
            let (a, b) = all.split_at(n / 2);
            let t = Tr::Add(Box::new(horner(a).scaled(r, b.len())), Box::new(horner(b)));
            (t, (0..n).rev().collect(), "two-halves")
        }
    }
}

impl Synth {
    fn tree_case(&mut self, ctx: &mut Ctx, kind: &str, t: &Tr) -> bool {
        let tau = self.tau1;
        let mut toks = vec![];
        t.tokens(&mut toks);
        let line = format!("dual-tree {} {}", fe_hex(&tau), toks.join(" "));
        let real = t.run(&mut self.pts);
        let leaves = t.leaves(tau);
        let comb = leaves.iter().fold(F::ZERO, |a, (c, d)| a + *c * *d);
        // coefficients as the REAL structure shows them: every leaf has the left channel 1·π
        let (left, _) = real.split();
        let coeffs: Vec<String> = left.iter().map(|(_, s, _)| fe_hex(*s)).collect();
        if left.len() != leaves.len() || left.iter().zip(leaves.iter()).any(|((_, s, _), (c, _))| **s != *c) {
            fail_limited(ctx, "dualmsm:tree-coefficients", "the scalars of a guard built by scale/add_msm calls are not the products of the factors applied after each leaf entered", json!({"op": line}));
        }
        let text = dual_str(&real, &self.pts);
        let ok = real.check(&self.vp1);
        if ok != (comb == F::ZERO) {
            fail_limited(ctx, "dualmsm:tree-not-linear", "check of a guard built by a tree of scale/add_msm calls differs from Σ cᵢ·δᵢ = 0", json!({"op": line}));
        }
        ctx.case(kind, leaves.len() > 1, &line, &format!("{text} {} {}", ok as u8, coeffs.join(",")));
        ok
    }

    fn rand_tree(&self, rng: &mut ChaCha8Rng, depth: usize, all_valid: bool) -> Tr {
        let choice = if depth == 0 { 0 } else { rng.gen_range(0..5) };
        match choice {
            0 => {
                let d = if all_valid || rng.gen_bool(0.6) { F::ZERO } else { nz(rng) };
                Tr::Leaf(gen_dual(rng, self.tau1, d, true))
            }
            1 | 2 => Tr::Scale(Box::new(self.rand_tree(rng, depth - 1, all_valid)), rand_scalar(rng)),
            _ => Tr::Add(Box::new(self.rand_tree(rng, depth - 1, all_valid)), Box::new(self.rand_tree(rng, depth - 1, all_valid))),
        }
    }

    pub fn dual_tree(&mut self, ctx: &mut Ctx, n: usize) {
        let mut rng = ctx.rng("c15:dual-tree");
        let tau = self.tau1;
        // ---- arbitrary shapes, arbitrary factors (0, ±1, small, random)
        for i in 0..n {
            let t = self.rand_tree(&mut rng, 2 + i % 4, i % 3 == 0);
            let ok = self.tree_case(ctx, "dual-tree:random", &t);
            ctx.count(if ok { "dual-tree:random:accepted" } else { "dual-tree:random:rejected" });
        }
        // ---- one challenge, named shapes
        for rep in 0..(n / 20).max(1) {
            for size in 1..=6usize {
                for which in 0..4 {
                    let r = loop {
                        let r = F::random(&mut rng);
                        if r != F::ZERO {
                            break r;
                        }
                    };
                    let mk = |rng: &mut ChaCha8Rng, ds: &[F]| -> Vec<SDual> { ds.iter().map(|d| gen_dual(rng, tau, *d, true)).collect() };
                    // all valid
                    let (t, exps, name) = uniform_shape(which, r, mk(&mut rng, &vec![F::ZERO; size]));
                    let ok = self.tree_case(ctx, &format!("dual-tree:{name}:all-valid"), &t);
                    if !ok {
                        fail_limited(ctx, "dualmsm:tree-rejects-valid", "a guard built from valid guards by scale/add_msm fails check", json!({"shape": name, "n": size}));
                    }
                    let distinct = { let mut e = exps.clone(); e.sort(); e.dedup(); e.len() == exps.len() };
                    // one invalid leaf at each position: rejected (r ≠ 0)
                    for bad in 0..size {
                        if rep > 0 && (bad + which) % 2 == 1 {
                            continue;
                        }
                        let ds: Vec<F> = (0..size).map(|i| if i == bad { nz(&mut rng) } else { F::ZERO }).collect();
                        let (t, _, _) = uniform_shape(which, r, mk(&mut rng, &ds));
                        let ok = self.tree_case(ctx, &format!("dual-tree:{name}:one-invalid"), &t);
                        if ok {
                            fail_limited(ctx, "dualmsm:tree-accepts-invalid", "a guard built by scale/add_msm (non-zero factor) from guards one of which fails passes check", json!({"shape": name, "n": size, "bad": bad}));
                        }
                    }
                    // two invalid leaves cancelling AT this r; the same leaves at r + 1
                    if size >= 2 {
                        let i = rng.gen_range(0..size - 1);
                        let j = rng.gen_range(i + 1..size);
                        let di = nz(&mut rng);
                        // r^{e_i}·d_i + r^{e_j}·d_j = 0
                        let dj = -di * r.pow([exps[i] as u64]) * r.pow([exps[j] as u64]).invert().unwrap();
                        let ds: Vec<F> = (0..size).map(|k| if k == i { di } else if k == j { dj } else { F::ZERO }).collect();
                        let leaves = mk(&mut rng, &ds);
                        let (t, _, _) = uniform_shape(which, r, leaves.clone());
                        let ok = self.tree_case(ctx, &format!("dual-tree:{name}:cancelling-at-r"), &t);
                        let (t2, _, _) = uniform_shape(which, r + F::ONE, leaves);
                        let ok2 = self.tree_case(ctx, &format!("dual-tree:{name}:cancelling-other-r"), &t2);
                        let same_exp = exps[i] == exps[j];
                        // distinct exponents: a root at r only; equal exponents (seed C15-1): every r
                        ctx.count(&format!("dual-tree:{name}:pair:{}:at-r={}:other-r={}", if same_exp { "same-exponent" } else { "distinct-exponents" }, ok as u8, ok2 as u8));
                        if !ok || (ok2 != same_exp && (r + F::ONE) != F::ZERO) {
                            fail_limited(ctx, "dualmsm:tree-pair", "two opposite defects under exponents eᵢ, eⱼ: acceptance differs from (r^{eᵢ}·dᵢ + r^{eⱼ}·dⱼ = 0)", json!({"shape": name, "n": size, "i": i, "j": j}));
                        }
                        let _ = distinct;
                    }
                }
            }
        }
    }

    // ------------------------------------------------------------ fixed-base maps of several keys
    pub fn keysets(&mut self, ctx: &mut Ctx, level: usize) {
        let mut rng = ctx.rng("c15:keysets");
        let tau = self.tau1;
        // byte order: "-G" < "vkA_fixed_com_1" < "vkA_fixed_com_10" < "vkB_perm_com_0"
        let names = ["-G", "vkA_fixed_com_1", "vkA_fixed_com_10", "vkB_perm_com_0"];
        let fb: Vec<(String, F)> = names.iter().enumerate().map(|(i, n)| (n.to_string(), if i == 0 { -F::ONE } else { F::from(100 + i as u64) })).collect();
        let fb_map = fb_real(&fb, &mut self.pts);
        let subset = |rng: &mut ChaCha8Rng, mask: usize, order_rev: bool| -> Vec<(String, F)> {
            let mut v: Vec<(String, F)> = (0..4).filter(|i| mask >> i & 1 == 1).map(|i| (names[i].to_string(), nz(rng))).collect();
            if order_rev {
                v.reverse(); // insertion order must not matter
            }
            v
        };
        let relation = |a: usize, b: usize| -> &'static str {
            if a == 0 || b == 0 { "one-empty" } else if a == b { "equal" } else if a & b == 0 { "disjoint" } else if a & b == a || a & b == b { "nested" } else { "overlapping" }
        };
        for a in 0..16usize {
            for b in 0..16usize {
                let m1 = SMsm { terms: vec![(nz(&mut rng), nz(&mut rng))], fixed: subset(&mut rng, a, (a + b) % 2 == 1) };
                let m2 = SMsm { terms: if (a + b) % 5 == 0 { vec![] } else { vec![(nz(&mut rng), nz(&mut rng))] }, fixed: subset(&mut rng, b, b % 3 == 1) };
                let r = if (a * 16 + b) % 17 == 0 { F::ONE } else if (a * 16 + b) % 19 == 0 { F::ZERO } else { F::random(&mut rng) };
                let (r1, r2) = (m1.real(&mut self.pts), m2.real(&mut self.pts));
                let out = r1.accumulate_with_r(&r2, r);
                let line = format!("msm-accumulate {} {} {}", fe_hex(&r), m1.text(), m2.text());
                ctx.case("msm-accumulate:keysets", true, &line, &msm_str(&out, &self.pts, false));
                ctx.count(&format!("msm-accumulate:keysets:{}", relation(a, b)));
                // per-key oracle: self[k] + r·other[k] / self[k] / r·other[k] / absent
                let (f1, f2, fo) = (r1.fixed_base_scalars(), r2.fixed_base_scalars(), out.fixed_base_scalars());
                for n in names {
                    let want = match (f1.get(n), f2.get(n)) {
                        (Some(x), Some(y)) => Some(*x + r * *y),
                        (Some(x), None) => Some(*x),
                        (None, Some(y)) => Some(r * *y),
                        (None, None) => None,
                    };
                    if fo.get(n).copied() != want {
                        fail_limited(ctx, "msm:accumulate_with_r:per-key", "Msm::accumulate_with_r: a fixed-base scalar of the result is not self[k] + r·other[k] (absent entries counting as absent)", json!({"op": line, "name": n}));
                    }
                }
                if out.eval(&fb_map) != r1.eval(&fb_map) + r2.eval(&fb_map) * r {
                    fail_limited(ctx, "msm:accumulate_with_r:eval", "Msm::accumulate_with_r does not evaluate to self + r·other", json!({"op": line}));
                }
            }
        }
        // ---- Accumulator::accumulate / collapse / check with key-set patterns on BOTH sides
        let patterns: Vec<Vec<(usize, usize)>> = vec![
            vec![(0, 0b0001), (0, 0b0110)],                       // disjoint rhs sets (two keys)
            vec![(0, 0b0011), (0, 0b0011)],                       // equal
            vec![(0, 0b0001), (0, 0b0011), (0, 0b0111)],          // nested chain
            vec![(0, 0b0111), (0, 0b0001), (0, 0)],               // shrinking, then empty
            vec![(0, 0), (0, 0b1111)],                            // first member has no fixed part
            vec![(0b0001, 0b0110), (0b0010, 0b0101), (0b1000, 0b1001)], // fixed parts on the left too
            vec![(0, 0b0101), (0, 0b1010), (0, 0b0110), (0, 0b1001), (0, 0b1111)],
            vec![(0, 0b1000)],
        ];
        let reps = [1usize, 4, 2][level];
        for rep in 0..reps {
            for (pi, pat) in patterns.iter().enumerate() {
                for bad in std::iter::once(None).chain((0..pat.len()).map(Some)) {
                    let mut texts = vec![];
                    let mut accs: Vec<Accumulator<S>> = vec![];
                    for (k, (la, ra)) in pat.iter().enumerate() {
                        let d = if bad == Some(k) { nz(&mut rng) } else { F::ZERO };
                        let lhs = SMsm { terms: vec![(F::ONE, nz(&mut rng))], fixed: subset(&mut rng, *la, false) };
                        let mut rhs = SMsm { terms: vec![(nz(&mut rng), nz(&mut rng))], fixed: subset(&mut rng, *ra, k % 2 == 1) };
                        let ev = |m: &SMsm| {
                            m.terms.iter().fold(F::ZERO, |a, (s, b)| a + *s * *b)
                                + m.fixed.iter().fold(F::ZERO, |a, (k, s)| a + *s * fb.iter().find(|(n, _)| n == k).unwrap().1)
                        };
                        let want = tau * ev(&lhs) - d - ev(&rhs);
                        let b = nz(&mut rng);
                        rhs.terms.push((want * b.invert().unwrap(), b));
                        texts.push(format!("{}|{}", lhs.text(), rhs.text()));
                        accs.push(Accumulator::<S>::new(lhs.real(&mut self.pts), rhs.real(&mut self.pts)));
                    }
                    let hash_input: Vec<F> = accs.iter().flat_map(AssignedAccumulator::<S>::as_public_input).collect();
                    let r = <midnight_circuits::hash::poseidon::PoseidonChip<F> as midnight_circuits::instructions::hash::HashCPU<F, F>>::hash(&hash_input);
                    let line = format!("accumulate {} {}", fe_hex(&r), texts.join(" "));
                    let out = Accumulator::<S>::accumulate(&accs);
                    ctx.case("accumulate:keysets", pat.len() > 1, &line, &acc_str(&out, &self.pts, false));
                    let tau_g2: <S as SelfEmulation>::G2Affine = (G2Projective::generator() * tau).into();
                    let chk = out.check(&tau_g2, &fb_map);
                    let mut col = out.clone();
                    col.collapse();
                    let cchk = col.check(&tau_g2, &fb_map);
                    ctx.case("accumulate:keysets:check", true, &format!("accumulate-check {} {} {} {}", fe_hex(&tau), fe_hex(&r), fb_text(&fb), texts.join(" ")), &format!("{} {}", chk as u8, cchk as u8));
                    ctx.case("acc-collapse", true, &format!("acc-collapse {}", acc_str(&out, &self.pts, false)), &acc_str(&col, &self.pts, true));
                    if chk != bad.is_none() || cchk != chk {
                        ctx.oracle_fail(
                            if bad.is_none() { "accumulate:rejects-valid" } else { "accumulate:accepts-invalid" },
                            "accumulate / collapse / check over members whose fixed-base maps have different key sets differs from the conjunction of the members' checks",
                            json!({"op": line, "pattern": pi, "bad": bad, "check": chk, "collapsed_check": cchk}),
                        );
                    }
                    ctx.count(&format!("accumulate:keysets:pattern{pi}:{}", if bad.is_none() { "all-valid" } else { "one-invalid" }));
                    let _ = rep;
                }
            }
        }
    }

    // ------------------------------------------------------------ totality of the entry points
    pub fn totality(&mut self, ctx: &mut Ctx) {
        let tau = self.tau1;
        let tau_g2: <S as SelfEmulation>::G2Affine = (G2Projective::generator() * tau).into();
        // check of an accumulator with no terms at all: τ·0 = 0
        let empty = Accumulator::<S>::new(SMsm::default().real(&mut self.pts), SMsm::default().real(&mut self.pts));
        for fb in [vec![], vec![("-G".to_string(), -F::ONE)]] {
            let fb_map = fb_real(&fb, &mut self.pts);
            let got = catch(|| empty.check(&tau_g2, &fb_map));
            let s = match &got { Ok(b) => format!("{}", *b as u8), Err(_) => "panic".into() };
            if s != "1" {
                ctx.oracle_fail("accumulator:check-empty", "Accumulator::check of the empty accumulator is not `true`", json!({"got": s}));
            }
            ctx.case("totality:acc-check-empty", false, &format!("acc-check {} -;-|-;- {}", fe_hex(&tau), fb_text(&fb)), &s);
        }
        // collapse and the public-input forms of the empty accumulator
        let mut c = empty.clone();
        match catch(move || { c.collapse(); c }) {
            Ok(c) => ctx.case("totality:acc-collapse-empty", false, "acc-collapse -;-|-;-", &acc_str(&c, &self.pts, true)),
            Err(p) => {
                ctx.oracle_fail("accumulator:collapse-empty", "Accumulator::collapse panics on the empty accumulator", json!({"panic": p}));
                ctx.case("totality:acc-collapse-empty", false, "acc-collapse -;-|-;-", "panic");
            }
        }
        // accumulate of an empty slice: the neutral accumulator (regression of f706bff: `accs[0]` panicked)
        let got = catch(|| Accumulator::<S>::accumulate(&[]));
        let r = catch(|| <midnight_circuits::hash::poseidon::PoseidonChip<F> as midnight_circuits::instructions::hash::HashCPU<F, F>>::hash(&[])).unwrap_or(F::ZERO);
        match got {
            Ok(out) => {
                ctx.case("totality:accumulate-empty", false, &format!("accumulate {}", fe_hex(&r)), &acc_str(&out, &self.pts, false));
                // the value is the conjunction over the empty set: `check` accepts it, also collapsed
                let fb_map = fb_real(&[("-G".to_string(), -F::ONE)], &mut self.pts);
                let mut col = out.clone();
                let ok = catch(move || { let a = out.check(&tau_g2, &fb_map); col.collapse(); a && col.check(&tau_g2, &fb_map) });
                if ok != Ok(true) {
                    ctx.oracle_fail("accumulate:empty-slice-rejected", "Accumulator::accumulate(&[]) returns an accumulator that check (or check after collapse) does not accept", json!({"got": format!("{ok:?}")}));
                }
                ctx.count("totality:accumulate-empty:accepted");
            }
            Err(p) => {
                ctx.oracle_fail("accumulate:empty-slice-panics", "Accumulator::accumulate(&[]) panics (index out of bounds at accs[0]) instead of returning a value", json!({"panic": p, "where": "circuits/src/verifier/accumulator.rs: Accumulator::accumulate, `let mut acc = accs[0].clone();` (the in-circuit AssignedAccumulator::accumulate has the same line)"}));
                ctx.case("totality:accumulate-empty", false, &format!("accumulate {}", fe_hex(&r)), "panic");
            }
        }
        // committed-instance form
        let mut rng = ctx.rng("c15:accpic");
        for i in 0..6 {
            let names = ["-G", "k_fixed_com_0", "k_perm_com_0"];
            let mk = |rng: &mut ChaCha8Rng, nt: usize, mask: usize| SMsm {
                terms: (0..nt).map(|_| (rand_scalar(rng), nz(rng))).collect(),
                fixed: (0..3).filter(|j| mask >> j & 1 == 1).map(|j| (names[j].to_string(), rand_scalar(rng))).collect(),
            };
            let (l, r) = (mk(&mut rng, i % 3, i % 8), mk(&mut rng, (i + 1) % 4, (i * 3 + 5) % 8));
            let acc = Accumulator::<S>::new(l.real(&mut self.pts), r.real(&mut self.pts));
            let (normal, committed) = AssignedAccumulator::<S>::as_public_input_with_committed_scalars(&acc);
            let mut enc = BTreeMap::new();
            for (_, b) in l.terms.iter().chain(r.terms.iter()) {
                let p = self.pts.pt(*b);
                enc.insert(fe_hex(b), <<S as SelfEmulation>::AssignedPoint as Instantiable<F>>::as_public_input(&p));
            }
            let enc_text = mzkh::join(&enc.iter().map(|(b, fs)| format!("{b}={}", fs.iter().map(fe_hex).collect::<Vec<_>>().join("/"))).collect::<Vec<_>>());
            let hexl = |v: &[F]| mzkh::join(&v.iter().map(fe_hex).collect::<Vec<_>>());
            ctx.case("accpic", true, &format!("accpic {}|{} {enc_text}", l.text(), r.text()), &format!("{} {}", hexl(&normal), hexl(&committed)));
            // same field elements as the plain form, re-partitioned
            let plain = AssignedAccumulator::<S>::as_public_input(&acc);
            let mut both = normal.clone();
            both.extend(committed.iter().copied());
            if both != plain {
                ctx.oracle_fail("accumulator:committed-pi-partition", "as_public_input_with_committed_scalars is not a re-partition of as_public_input", json!({"acc": format!("{}|{}", l.text(), r.text())}));
            }
        }
    }
}
