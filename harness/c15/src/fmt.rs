//! Canonical text forms shared by the request lines and the implementation's answers
//! (documented in `lean/MidnightZK/Driver/C15.lean`), and the table of points with known
//! discrete logarithm.

use std::collections::{BTreeMap, HashMap};

use ff::Field;
use group::{Curve, Group, GroupEncoding};
use midnight_circuits::verifier::{Accumulator, BlstrsEmulation, Msm};
use midnight_curves::{CurveAffine, Fq, G1Affine, G1Projective};
use midnight_proofs::{
    plonk::Error,
    poly::{
        kzg::msm::{DualMSM, MSMKZG},
        CommitmentLabel,
    },
    utils::arithmetic::MSM,
};
use mzkh::fe_hex;

pub type E = midnight_curves::Bls12;
pub type F = Fq;
pub type G = G1Projective;
pub type S = BlstrsEmulation;

/// Points whose discrete logarithm the harness knows (`b ↦ [b]G`), or opaque points that were
/// given an identifier (real proofs: the model only moves those around).
#[derive(Default)]
pub struct Pts {
    index: HashMap<Vec<u8>, String>,
    next_opaque: u64,
}

impl Pts {
    pub fn pt(&mut self, log: F) -> G {
        let p = G::generator() * log;
        self.index.insert(p.to_bytes().as_ref().to_vec(), fe_hex(&log));
        p
    }
    /// Identifier of an opaque point (stable: same point, same identifier).
    pub fn opaque(&mut self, p: &G) -> String {
        let key = p.to_bytes().as_ref().to_vec();
        if let Some(s) = self.index.get(&key) {
            return s.clone();
        }
        self.next_opaque += 1;
        let s = format!("0x{:x}", self.next_opaque);
        self.index.insert(key, s.clone());
        s
    }
    /// The logarithm (or identifier) of a known point, its affine coordinates otherwise.
    pub fn base_str(&self, p: &G) -> String {
        match self.index.get(p.to_bytes().as_ref()) {
            Some(s) => s.clone(),
            None => affine_str(p),
        }
    }
}

pub fn affine_str(p: &G) -> String {
    let a: G1Affine = p.to_affine();
    if bool::from(p.is_identity()) {
        "@inf".to_string()
    } else {
        let c = a.coordinates().unwrap();
        format!("@{},{}", fe_hex(c.x()), fe_hex(c.y()))
    }
}

pub fn label_str(l: &CommitmentLabel) -> String {
    match l {
        CommitmentLabel::Advice(i) => format!("a{i}"),
        CommitmentLabel::Instance(i) => format!("i{i}"),
        CommitmentLabel::Fixed(i) => format!("f{i}"),
        CommitmentLabel::Permutation(i) => format!("p{i}"),
        CommitmentLabel::Custom(s) => {
            format!("c{}", s.as_bytes().iter().map(|b| format!("{b:02x}")).collect::<String>())
        }
        CommitmentLabel::NoLabel => "n".to_string(),
    }
}

/// A term of a synthetic MSM: scalar, logarithm of the base, label.
#[derive(Clone, Debug)]
pub struct T {
    pub s: F,
    pub b: F,
    pub l: CommitmentLabel,
}

#[derive(Clone, Debug, Default)]
pub struct SDual {
    pub left: Vec<T>,
    pub right: Vec<T>,
}

pub fn terms_str(ts: &[T]) -> String {
    if ts.is_empty() {
        return "-".into();
    }
    ts.iter()
        .map(|t| format!("{}:{}:{}", fe_hex(&t.s), fe_hex(&t.b), label_str(&t.l)))
        .collect::<Vec<_>>()
        .join(",")
}

impl SDual {
    pub fn text(&self) -> String {
        format!("{}|{}", terms_str(&self.left), terms_str(&self.right))
    }
    pub fn real(&self, pts: &mut Pts) -> DualMSM<E> {
        DualMSM::new(real_msm(&self.left, pts), real_msm(&self.right, pts))
    }
    /// `τ·L − R` (zero iff the guard is valid under `τ`).
    pub fn defect(&self, tau: F) -> F {
        let ev = |ts: &[T]| ts.iter().fold(F::ZERO, |a, t| a + t.s * t.b);
        tau * ev(&self.left) - ev(&self.right)
    }
}

pub fn real_msm(ts: &[T], pts: &mut Pts) -> MSMKZG<E> {
    let mut m = MSMKZG::<E>::init();
    for t in ts {
        m.append_term(t.s, pts.pt(t.b), t.l.clone());
    }
    m
}

pub fn msmkzg_str(m: &MSMKZG<E>, pts: &Pts) -> String {
    let (s, b, l) = (m.scalars(), m.bases(), m.labels());
    assert!(s.len() == b.len() && b.len() == l.len());
    if s.is_empty() {
        return "-".into();
    }
    (0..s.len())
        .map(|i| format!("{}:{}:{}", fe_hex(&s[i]), pts.base_str(&b[i]), label_str(&l[i])))
        .collect::<Vec<_>>()
        .join(",")
}

pub fn dual_str(d: &DualMSM<E>, pts: &Pts) -> String {
    let (l, r) = d.split();
    let side = |v: &Vec<(&CommitmentLabel, &F, &G)>| {
        if v.is_empty() {
            "-".to_string()
        } else {
            v.iter()
                .map(|(l, s, b)| format!("{}:{}:{}", fe_hex(*s), pts.base_str(b), label_str(l)))
                .collect::<Vec<_>>()
                .join(",")
        }
    };
    format!("{}|{}", side(&l), side(&r))
}

/// Text of a real guard whose points are opaque (identifiers are assigned on the fly).
pub fn dual_str_opaque(d: &DualMSM<E>, pts: &mut Pts) -> String {
    let (l, r) = d.split();
    for (_, _, b) in l.iter().chain(r.iter()) {
        pts.opaque(b);
    }
    dual_str(d, pts)
}

/// Synthetic off-circuit `Msm`: variable terms `(scalar, log)` and named fixed-base scalars.
#[derive(Clone, Debug, Default)]
pub struct SMsm {
    pub terms: Vec<(F, F)>,
    pub fixed: Vec<(String, F)>,
}

impl SMsm {
    pub fn text(&self) -> String {
        let t = if self.terms.is_empty() {
            "-".to_string()
        } else {
            self.terms
                .iter()
                .map(|(s, b)| format!("{}:{}", fe_hex(s), fe_hex(b)))
                .collect::<Vec<_>>()
                .join(",")
        };
        let f = if self.fixed.is_empty() {
            "-".to_string()
        } else {
            self.fixed.iter().map(|(k, s)| format!("{k}={}", fe_hex(s))).collect::<Vec<_>>().join(",")
        };
        format!("{t};{f}")
    }
    pub fn real(&self, pts: &mut Pts) -> Msm<S> {
        let bases: Vec<G> = self.terms.iter().map(|(_, b)| pts.pt(*b)).collect();
        let scalars: Vec<F> = self.terms.iter().map(|(s, _)| *s).collect();
        let mut map = BTreeMap::new();
        for (k, s) in &self.fixed {
            map.insert(k.clone(), *s);
        }
        Msm::new(&bases, &scalars, &map)
    }
}

pub fn msm_str(m: &Msm<S>, pts: &Pts, as_points: bool) -> String {
    let (b, s, f) = (m.bases(), m.scalars(), m.fixed_base_scalars());
    assert_eq!(b.len(), s.len());
    let t = if b.is_empty() {
        "-".to_string()
    } else {
        (0..b.len())
            .map(|i| {
                format!("{}:{}", fe_hex(&s[i]), if as_points { affine_str(&b[i]) } else { pts.base_str(&b[i]) })
            })
            .collect::<Vec<_>>()
            .join(",")
    };
    let ft = if f.is_empty() {
        "-".to_string()
    } else {
        f.iter().map(|(k, s)| format!("{k}={}", fe_hex(s))).collect::<Vec<_>>().join(",")
    };
    format!("{t};{ft}")
}

pub fn acc_str(a: &Accumulator<S>, pts: &Pts, as_points: bool) -> String {
    format!("{}|{}", msm_str(&a.lhs(), pts, as_points), msm_str(&a.rhs(), pts, as_points))
}

/// Fixed-base map text `name=log,…` and the real map.
pub fn fb_text(fb: &[(String, F)]) -> String {
    if fb.is_empty() {
        return "-".into();
    }
    fb.iter().map(|(k, b)| format!("{k}={}", fe_hex(b))).collect::<Vec<_>>().join(",")
}

pub fn fb_real(fb: &[(String, F)], pts: &mut Pts) -> BTreeMap<String, G> {
    let mut m = BTreeMap::new();
    for (k, b) in fb {
        m.insert(k.clone(), pts.pt(*b));
    }
    m
}

/// Variant name of a verifier error (payloads dropped).
pub fn err_name(e: &Error) -> String {
    match e {
        Error::InvalidInstances => "InvalidInstances".into(),
        Error::Opening => "Opening".into(),
        Error::Transcript(_) => "Transcript".into(),
        Error::ConstraintSystemFailure => "ConstraintSystemFailure".into(),
        Error::BoundsFailure => "BoundsFailure".into(),
        Error::Synthesis(_) => "Synthesis".into(),
        other => format!("{other:?}").split(|c: char| !c.is_alphanumeric()).next().unwrap_or("Other").to_string(),
    }
}

pub fn res_str(r: &Result<(), Error>) -> String {
    match r {
        Ok(()) => "ok".into(),
        Err(e) => format!("err:{}", err_name(e)),
    }
}

thread_local! {
    static FAIL_COUNT: std::cell::RefCell<HashMap<String, usize>> = std::cell::RefCell::new(HashMap::new());
}

/// `ctx.oracle_fail`, at most twice per key and run: the harness keeps 50 failures in all, and a
/// failure that repeats on every batch (a schedule difference) must not crowd out the failing
/// input the adaptive attacks find for the same cause.
pub fn fail_limited(ctx: &mut mzkh::Ctx, key: &str, what: &str, detail: serde_json::Value) {
    let n = FAIL_COUNT.with(|m| {
        let mut m = m.borrow_mut();
        let e = m.entry(key.to_string()).or_insert(0);
        *e += 1;
        *e
    });
    if n <= 2 {
        ctx.oracle_fail(key, what, detail);
    } else {
        ctx.count(&format!("oracle_fail_suppressed:{key}"));
    }
}
