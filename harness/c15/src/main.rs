//! Correspondence harness of property C15 (stub).
use mzkh::Ctx;

fn main() {
    let ctx = Ctx::from_args("C15");
    ctx.finish();
}
