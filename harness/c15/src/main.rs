//! Correspondence harness of property C15: batching and accumulation accept exactly the
//! all-valid batches.
//!
//! Two layers (see `synth.rs`, `real.rs`):
//! * synthetic guards/accumulators with known discrete logarithms and known trapdoor through the
//!   real `MSMKZG`/`DualMSM`/`Guard::batch_verify`/`Msm`/`Accumulator` code — structures and
//!   verdicts are recomputed by the Lean model;
//! * real proofs of small ZkStdLib relations through the real `zk_stdlib::batch_verify` (honest
//!   transcript hash: the property's oracle; recording hash: schedule of the batching transcript;
//!   forced batching challenge: the algebra of the loop) and the real accumulator.
mod fmt;
mod incircuit;
mod real;
mod rec;
mod synth;
mod tree;

use ff::{Field, PrimeField, WithSmallOrderMulGroup};
use mzkh::Ctx;
use rand::Rng;

use fmt::F;
use real::{Mem, Real};

fn real_layer(ctx: &mut Ctx, level: usize) {
    let mut rl = Real::build(ctx, true);
    let mut rng = ctx.rng("c15:real");
    let nrel = rl.rels.len();

    // ---- D5 regressions and length mismatches (value, never a crash)
    rl.batch(ctx, "batch:empty", &[]);
    let h: Vec<Mem> = (0..3).map(|i| rl.honest(i % nrel, i)).collect();
    for (nv, np, npr) in [(0, 1, 0), (0, 0, 1), (1, 0, 0), (1, 0, 1), (1, 1, 0), (1, 2, 1), (2, 1, 2), (2, 2, 1), (2, 2, 3), (3, 2, 2), (1, 1, 2), (0, 1, 1)] {
        rl.batch_lens(ctx, "batch:len-mismatch", &h, nv, np, npr);
    }

    let reps = [1usize, 8, 3][level];
    for rep in 0..reps {
        for n in 1..=6usize {
            // all valid, mixed relations / keys / k
            let ms: Vec<Mem> = (0..n).map(|i| rl.honest((i + rep) % nrel, i / nrel + rep)).collect();
            rl.batch(ctx, "batch:all-valid-mixed", &ms);
            // all valid, one key
            let rel = (n + rep) % nrel;
            let ms1: Vec<Mem> = (0..n).map(|i| rl.honest(rel, i)).collect();
            rl.batch(ctx, "batch:all-valid-one-key", &ms1);
            // one invalid member at each position × kind of invalidity
            for pos in 0..n {
                for how in 0..3 {
                    let mut b = ms.clone();
                    b[pos] = rl.invalid(&mut rng, &ms[pos], how);
                    rl.batch(ctx, ["batch:invalid:proof-corrupted", "batch:invalid:wrong-public-input", "batch:invalid:wrong-vk"][how], &b);
                }
                // the other ways of being invalid, cycling
                let how = 3 + (pos + n + rep) % 5;
                let mut b = ms.clone();
                b[pos] = rl.invalid(&mut rng, &ms[pos], how);
                rl.batch(ctx, ["batch:invalid:byte-flip", "batch:invalid:truncated", "batch:invalid:trailing-bytes", "batch:invalid:pi-length", "batch:invalid:proof-of-other-statement"][how - 3], &b);
            }
            // two invalid members
            if n >= 2 {
                let mut b = ms.clone();
                let i = rng.gen_range(0..n);
                let j = (i + 1 + rng.gen_range(0..n - 1)) % n;
                let (hi, hj) = (rng.gen_range(0..9), rng.gen_range(0..9));
                b[i] = rl.invalid(&mut rng, &ms[i], hi);
                b[j] = rl.invalid(&mut rng, &ms[j], hj);
                rl.batch(ctx, "batch:two-invalid", &b);
            }
        }
        // permutations of a batch with one invalid member; repeated members
        for n in [3usize, 4, 5] {
            let mut ms: Vec<Mem> = (0..n).map(|i| rl.honest((i + rep) % nrel, i + rep)).collect();
            let pos = rng.gen_range(0..n);
            ms[pos] = rl.invalid(&mut rng, &ms[pos], rep % 3);
            for s in 0..n {
                let mut p = ms.clone();
                p.rotate_left(s);
                rl.batch(ctx, "batch:permutation-rotate", &p);
            }
            for _ in 0..2 {
                let mut p = ms.clone();
                Real::shuffle(&mut rng, &mut p);
                rl.batch(ctx, "batch:permutation-random", &p);
            }
        }
        let v = rl.honest(rep % nrel, rep);
        let x = rl.invalid(&mut rng, &v, rep % 2);
        for n in 2..=6usize {
            rl.batch(ctx, "batch:repeated-valid", &vec![v.clone(); n]);
            rl.batch(ctx, "batch:repeated-invalid", &vec![x.clone(); n]);
            let alt: Vec<Mem> = (0..n).map(|i| if i % 2 == 0 { v.clone() } else { x.clone() }).collect();
            rl.batch(ctx, "batch:repeated-alternating", &alt);
        }
    }

    // ---- forced batching challenge: the algebra of the loop inside the real batch_verify
    let minus_one = -F::ONE;
    let i4 = F::ROOT_OF_UNITY.pow([1u64 << (F::S - 2)]);
    let omega = <F as WithSmallOrderMulGroup<3>>::ZETA;
    assert_eq!(i4 * i4, minus_one);
    assert_eq!(omega * omega + omega + F::ONE, F::ZERO);
    for rep in 0..reps {
        let v = rl.honest(rep % nrel, rep);
        let v2 = rl.honest((rep + 1) % nrel, rep + 1);
        let x = rl.invalid(&mut rng, &v, rep % 2);
        let y = rl.invalid(&mut rng, &v2, (rep + 1) % 2);
        let rnd = F::random(&mut rng);
        let roots = [F::ZERO, F::ONE, minus_one, i4, -i4, omega, -omega, rnd];
        let shapes: Vec<Vec<Mem>> = vec![
            vec![x.clone(), v.clone()],
            vec![v.clone(), x.clone()],
            vec![x.clone(), x.clone()],
            vec![x.clone(), y.clone()],
            vec![x.clone(), x.clone(), x.clone()],
            vec![x.clone(), v.clone(), x.clone()],
            vec![v.clone(), x.clone(), x.clone()],
            vec![x.clone(), v2.clone(), v.clone(), x.clone()],
            vec![x.clone(), x.clone(), x.clone(), x.clone()],
            vec![v.clone(), v2.clone(), v.clone()],
            vec![x.clone(), v.clone(), v2.clone(), v.clone(), v2.clone(), x.clone()],
        ];
        for (si, ms) in shapes.iter().enumerate() {
            for (ri, r) in roots.iter().enumerate() {
                if level == 0 && (si + ri + rep) % 2 == 1 && ri != 2 {
                    continue;
                }
                rl.batch_forced(ctx, "batch:forced-r", ms, *r);
            }
        }
    }

    // ---- π-shift families: members of one family have proportional defects a·(τ−x₃)·G, so
    // the exact coefficients r^(n-1-i) of the loop are visible in the verdict at a forced r
    for rep in 0..reps * 2 {
        let base = rl.honest(rep % nrel, rep / nrel);
        for n in 2..=6usize {
            let r = if (rep + n) % 3 == 0 { F::from((rep + 2) as u64) } else { F::random(&mut rng) };
            let mut a: Vec<F> = (0..n - 1).map(|_| if rng.gen_bool(0.3) { F::ZERO } else { F::from(rng.gen_range(1..9u64)) }).collect();
            if a.iter().all(|x| *x == F::ZERO) {
                a[0] = F::ONE;
            }
            // a_{n-1} closes the combination: Σ a_i r^(n-1-i) = 0
            let last = -a.iter().fold(F::ZERO, |acc, x| acc * r + x) * r;
            a.push(last);
            let ms: Vec<Mem> = a.iter().map(|x| rl.shifted(&base, *x)).collect();
            rl.batch_forced(ctx, "batch:forced-r:pi-shift-root", &ms, r);
            rl.batch_forced(ctx, "batch:forced-r:pi-shift-off-root", &ms, r + F::ONE);
            // with the honest hash the same batch must be rejected
            rl.batch(ctx, "batch:pi-shift-family", &ms);
        }
        // complementary pair: defects δ and −δ (a plain sum of the guards would accept)
        let pair = vec![rl.shifted(&base, F::ONE), rl.shifted(&base, -F::ONE)];
        rl.batch(ctx, "batch:complementary-pair", &pair);
        let v = rl.honest((rep + 1) % nrel, rep);
        let trio = vec![rl.shifted(&base, F::from(2)), v.clone(), rl.shifted(&base, -F::from(2))];
        rl.batch(ctx, "batch:complementary-pair", &trio);
        // pairwise distinctness of the combination coefficients: members i and j carry the
        // opposite alterations π+G / π−G of one proof (defects δ and −δ), everything else valid —
        // accepted iff positions i and j get the same coefficient
        for n in [3usize, 4, 5] {
            if level == 0 && rep > 0 && n == 5 {
                continue;
            }
            let fill: Vec<Mem> = (0..n).map(|k| if k % 2 == 0 { rl.honest(base.vk_of, k / 2 + 1) } else { rl.honest((k + rep) % nrel, k) }).collect();
            for i in 0..n {
                for j in i + 1..n {
                    let mut ms = fill.clone();
                    ms[i] = rl.shifted(&base, F::ONE);
                    ms[j] = rl.shifted(&base, -F::ONE);
                    rl.batch(ctx, "batch:opposite-alterations-pair", &ms);
                    // the same with two DIFFERENT proofs (possibly different keys)
                    if (i + j + rep) % 2 == 0 || level > 0 {
                        let (p1, p2) = (fill[i].clone(), fill[j].clone());
                        if let Some((a, b)) = rl.cross_pair(ctx, &p1, &p2) {
                            let mut ms = fill.clone();
                            ms[i] = a;
                            ms[j] = b;
                            rl.batch(ctx, "batch:opposite-alterations-two-proofs", &ms);
                        }
                    }
                }
            }
        }
        // the two-proof alteration really cancels: at the forced challenge r = 1 the pair passes
        {
            let (p1, p2) = (rl.honest(rep % nrel, rep), rl.honest((rep + 1) % nrel, rep + 1));
            if let Some((a, b)) = rl.cross_pair(ctx, &p1, &p2) {
                rl.batch_forced(ctx, "batch:forced-r:two-proof-pair", &[a.clone(), b.clone()], F::ONE);
                rl.batch_forced(ctx, "batch:forced-r:two-proof-pair", &[a, b], F::from(5));
            }
        }
        // small integer dependencies between the coefficients: every member is the same proof
        // with π + aₖ·G, (a₀,…,aₙ₋₁) ranging over small vectors — accepted iff Σ cₖ·aₖ = 0
        {
            let (n, lo, hi): (usize, i64, i64) = if level == 2 { (3, -2, 2) } else { (3, -1, 1) };
            let width = (hi - lo + 1) as usize;
            for code in 0..width.pow(n as u32) {
                let a: Vec<i64> = (0..n).map(|k| lo + ((code / width.pow(k as u32)) % width) as i64).collect();
                if a.iter().all(|x| *x == 0) || (level == 0 && rep > 0) {
                    continue;
                }
                let ms: Vec<Mem> = a.iter().map(|x| rl.shifted(&base, if *x >= 0 { F::from(*x as u64) } else { -F::from((-*x) as u64) })).collect();
                rl.batch(ctx, "batch:small-dependency-sweep", &ms);
            }
            if level == 2 {
                for code in 0..81usize {
                    let a: Vec<i64> = (0..4).map(|k| -1 + ((code / 3usize.pow(k as u32)) % 3) as i64).collect();
                    if a.iter().all(|x| *x == 0) {
                        continue;
                    }
                    let ms: Vec<Mem> = a.iter().map(|x| rl.shifted(&base, if *x >= 0 { F::from(*x as u64) } else { -F::from((-*x) as u64) })).collect();
                    rl.batch(ctx, "batch:small-dependency-sweep", &ms);
                }
            }
        }
        // adaptive attacks on the dependence of r on each member
        for n in [2usize, 3, 4, 6] {
            if level == 0 && n == 6 && rep > 0 {
                continue;
            }
            let fill: Vec<Mem> = (0..n).map(|k| rl.honest((k + rep) % nrel, k)).collect();
            for i in 0..n {
                for j in 0..n {
                    if i != j && (level > 0 || (i + j + rep) % 2 == 1 || n <= 3) {
                        rl.adaptive_attack(ctx, &fill, &base, i, j);
                    }
                }
            }
        }
    }

    // ---- accumulators of real guards: accumulate of 1..5, collapse, check
    for rep in 0..reps {
        for n in 1..=5usize {
            let ms: Vec<Mem> = (0..n).map(|i| rl.honest((i + rep) % nrel, i / nrel + rep)).collect();
            rl.accumulate(ctx, "accumulate:real:all-valid", &ms, rep == 0 && n <= 2);
            for pos in 0..n {
                let mut b = ms.clone();
                // a member whose guard exists but fails: evaluation flipped or wrong public input
                b[pos] = rl.invalid(&mut rng, &ms[pos], (pos + rep) % 2);
                rl.accumulate(ctx, "accumulate:real:one-invalid", &b, false);
            }
        }
    }
    for rep in 0..reps {
        for rel in 0..nrel {
            for n in [2usize, 3] {
                let mut ms: Vec<Mem> = (0..n).map(|k| rl.honest(rel, k + rep)).collect();
                let r = F::random(&mut rng);
                rl.from_dual_of_batched(ctx, &ms, r);
                ms[n - 1] = rl.invalid(&mut rng, &ms[n - 1], (rep + n) % 2);
                rl.from_dual_of_batched(ctx, &ms, r);
            }
        }
    }
    for rep in 0..reps {
        let base = rl.honest(rep % nrel, rep);
        for n in [2usize, 3, 5] {
            let fill: Vec<Mem> = (0..n).map(|k| rl.honest((k + rep) % nrel, k)).collect();
            for i in 0..n {
                for j in 0..n {
                    if i != j && (level > 0 || (i + j) % 2 == 1) {
                        rl.adaptive_accumulate(ctx, &fill, &base, i, j);
                    }
                }
            }
        }
    }
    ctx.set_extra("real_batches", serde_json::json!(rl.stats_batches));
}

fn main() {
    let mut ctx = Ctx::from_args("C15");
    let level = if ctx.quick() { 0 } else if ctx.thorough() { 1 } else { 2 };
    let mut sy = synth::Synth::new();
    let m = [1usize, 12, 3][level];
    sy.msm_eval(&mut ctx, 40 * m);
    sy.constructors(&mut ctx, 24 * m);
    sy.dual_seq(&mut ctx, 120 * m);
    sy.horner(&mut ctx, 2 * m);
    sy.gbatch(&mut ctx, 2 * m);
    sy.from_dual(&mut ctx, 64 * m);
    sy.from_dual_sum(&mut ctx, 12 * m);
    sy.acc_ops(&mut ctx, 90 * m);
    sy.adaptive_acc(&mut ctx, [1usize, 4, 4][level]);
    sy.dual_tree(&mut ctx, 60 * m);
    sy.keysets(&mut ctx, level);
    sy.totality(&mut ctx);
    incircuit::run(&mut ctx, level);
    real_layer(&mut ctx, level);
    ctx.finish();
}
